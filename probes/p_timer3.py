import time
from timer_fixed import Timer

def check(timeout: float) -> bool:
    """
    pre: 0.0 < timeout < 1000.0
    post: _ == True
    """
    t = Timer(timeout)
    m0 = time.monotonic()
    t.start()
    m1 = time.monotonic()
    w = time.time()
    m2 = time.monotonic()
    exp = t.expired
    m3 = time.monotonic()
    if m3 - m0 <= timeout and exp:
        return False
    if m2 - m1 > timeout and not exp:
        return False
    return True
