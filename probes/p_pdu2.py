import shim, struct
from pynetdicom.pdu import P_DATA_TF

def pdata_decode_stable(data: bytes) -> bool:
    """
    pre: 6 <= len(data) <= 18
    pre: data[0] == 4
    raises: AssertionError, struct.error
    post: _ == True
    """
    p = P_DATA_TF()
    p.decode(data)
    enc = p.encode()
    q = P_DATA_TF()
    q.decode(enc)
    return q == p
