import shim
from io import BytesIO
from pynetdicom.dimse_primitives import C_STORE
from pynetdicom.dimse_messages import C_STORE_RQ, DIMSEMessage
from pynetdicom.pdu_primitives import P_DATA
import pynetdicom.dimse_messages as dm
shim.forkify(dm, "_MESSAGE_TYPES") if hasattr(shim, "forkify") else None

def store_rq_roundtrip(has_aet: bool, has_mid: bool, prio: int, msg_id: int, has_ds: bool) -> bool:
    """
    pre: 0 <= prio <= 2
    pre: msg_id in (0, 1, 65535)
    post: _ == True
    """
    p = C_STORE()
    p.MessageID = msg_id
    p.AffectedSOPClassUID = "1.2.840.10008.5.1.4.1.1.2"
    p.AffectedSOPInstanceUID = "1.2.3"
    p.Priority = prio
    if has_aet: p.MoveOriginatorApplicationEntityTitle = "MOVER"
    if has_mid: p.MoveOriginatorMessageID = 5
    if has_ds: p.DataSet = BytesIO(b"\x01\x02")
    m = C_STORE_RQ()
    m.primitive_to_message(p)
    pdatas = list(m.encode_msg(1, 0))
    r = DIMSEMessage()
    done = False
    for pd in pdatas:
        done = r.decode_msg(pd)
    if not done: return False
    q = r.message_to_primitive()
    return (type(q) is C_STORE and q.MessageID == msg_id and q.Priority == prio
            and q.MoveOriginatorApplicationEntityTitle == ("MOVER" if has_aet else None)
            and q.MoveOriginatorMessageID == (5 if has_mid else None)
            and q.MessageIDBeingRespondedTo is None
            and (q.DataSet.getvalue() == (b"\x01\x02" if has_ds else b"")))
