import logging; logging.disable(logging.CRITICAL)
from pydicom.dataset import Dataset, FileMetaDataset
from sqlalchemy.orm import sessionmaker
from pynetdicom.apps.qrscp import db
from pynetdicom.sop_class import PatientRootQueryRetrieveInformationModelFind as M
engine = db.create("sqlite:///:memory:")
Session = sessionmaker(bind=engine); session = Session()
def inst(pid, name, study, series, sop):
    ds = Dataset(); ds.PatientID=pid; ds.PatientName=name; ds.StudyInstanceUID=study; ds.SeriesInstanceUID=series; ds.SOPInstanceUID=sop
    ds.SOPClassUID="1.2.840.10008.5.1.4.1.1.2"; ds.file_meta=FileMetaDataset(); ds.file_meta.TransferSyntaxUID="1.2.840.10008.1.2"
    db.add_instance(ds, session, "x")
inst("A_B", "Doe^John", "1.1", "1.1.1", "1.1.1.1")
inst("AxB", "Doe^Jane", "1.2", "1.2.1", "1.2.1.1")
inst("AxB", "Doe^Jane", "1.2", "1.2.1", "1.2.1.2")
def q(**kw):
    ds = Dataset(); ds.QueryRetrieveLevel = kw.pop("level", "PATIENT")
    for k,v in kw.items(): setattr(ds,k,v)
    return [ (r.patient_id, r.sop_instance_uid) for r in db.search(M, ds, session)]
print("wild 'A_*' (literal underscore) ->", q(PatientID="A_*"))
print("wild 'a*' (case) ->", q(PatientID="a*"))
print("PATIENT level, PatientID='AxB' -> rows:", q(PatientID="AxB"))
