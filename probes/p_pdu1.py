import shim
from pynetdicom.pdu import A_ABORT_RQ, A_ASSOCIATE_RJ, P_DATA_TF

def abort_roundtrip(data: bytes) -> bool:
    """
    pre: len(data) == 10
    pre: data[0] == 7 and data[1] == 0 and data[2] == 0 and data[3] == 0 and data[4] == 0 and data[5] == 4
    post: _ == True
    """
    p = A_ABORT_RQ()
    p.decode(data)
    enc = p.encode()
    q = A_ABORT_RQ()
    q.decode(enc)
    return q == p and enc[8:10] == data[8:10]

def abort_layout(source: int, reason: int) -> bool:
    """
    pre: 0 <= source <= 255 and 0 <= reason <= 255
    post: _ == True
    """
    p = A_ABORT_RQ()
    p.source = source
    p.reason_diagnostic = reason
    enc = p.encode()
    return enc == bytes([7, 0, 0, 0, 0, 4, 0, 0, source, reason])
