import shim, queue
from crosshair.tracers import NoTracing
import pynetdicom.transport as tr
from pynetdicom.transport import AssociationSocket, AddressInformation, T_CONNECT
from pynetdicom.dul import DULServiceProvider
from pynetdicom.pdu_primitives import A_ASSOCIATE
import socket as real_socket
shim.silence_loggers()

class Hang(Exception): pass

class FakeRaw:
    def __init__(s, *a):
        s.timeout = None; s.buf = b""; s.stall = True; s.log = []
    def setsockopt(s, *a): pass
    def settimeout(s, t): s.timeout = t; s.log.append(("settimeout", t))
    def gettimeout(s): return s.timeout
    def bind(s, a): pass
    def connect(s, a): s.log.append(("connect", s.timeout))
    def getsockname(s): return ("127.0.0.1", 5000)
    def recv(s, n):
        if s.buf:
            out = s.buf[:n]; s.buf = s.buf[n:]; return out
        if s.stall:
            if s.timeout is None: raise Hang()
            raise TimeoutError()
        return b""
    def send(s, b): return len(b)
    def shutdown(s, h): pass
    def close(s): pass

class FakeSocketModule:
    AF_INET = real_socket.AF_INET; AF_INET6 = real_socket.AF_INET6; SOCK_STREAM = real_socket.SOCK_STREAM
    SOL_SOCKET = real_socket.SOL_SOCKET; SO_REUSEADDR = real_socket.SO_REUSEADDR; SHUT_RDWR = real_socket.SHUT_RDWR
    AI_PASSIVE = real_socket.AI_PASSIVE
    socket = FakeRaw
    @staticmethod
    def getaddrinfo(host, port, flags=0):
        return [(real_socket.AF_INET, real_socket.SOCK_STREAM, 6, '', (host or '0.0.0.0', port))]
    gaierror = real_socket.gaierror

def addr(host, port):
    a = AddressInformation.__new__(AddressInformation)
    a._addr = host; a.port = port; a.scope_id = 0; a.flowinfo = 0
    return a

class FakeAssoc:
    connection_timeout = 5
    def __init__(s, nt): s.network_timeout = nt; s.dul = None
    def get_handlers(s, e): return []
    class requestor: address_info = None

RQ_HDR = b"\x02\x00\x00\x00\x00\x10"

def requestor_read(k: int, net_timeout_set: bool) -> bool:
    """
    pre: 0 <= k <= 6
    post: _ == True
    """
    with NoTracing():
        tr.socket = FakeSocketModule
        assoc = FakeAssoc(30 if net_timeout_set else None)
        d = DULServiceProvider.__new__(DULServiceProvider)
        d._assoc = assoc; d.event_queue = queue.Queue(); d.to_provider_queue = queue.Queue(); d._recv_pdu = queue.Queue()
        assoc.dul = d
        sock = AssociationSocket(assoc, address=addr("127.0.0.1", 0))
        d.socket = sock
        req = A_ASSOCIATE(); req.called_presentation_address = addr("127.0.0.1", 11112)
        sock.connect(T_CONNECT(req))
    raw = sock.socket
    raw.buf = RQ_HDR[:k]          # peer sends k of the 6 header bytes, then stalls with the connection open
    if k == 0: return True        # nothing readable: the reactor would not call recv at all
    try:
        d._read_pdu_data()
    except Hang:
        return not net_timeout_set   # blocking for ever is only acceptable when no timeout is configured
    return d.event_queue.qsize() == 1
