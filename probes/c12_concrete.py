from pynetdicom import AE, build_context
from pynetdicom.association import Association
from pynetdicom.pdu import A_ASSOCIATE_RQ
class FakeSock:
    tls_args = None
    def __init__(s): import threading; s._ready = threading.Event(); s._is_connected = False
AE._create_socket = lambda self, assoc, address, tls_args: FakeSock()
def fake_request(self):
    self.acse.send_request()
Association.request = fake_request
ae = AE(ae_title="X")
for i in range(3):
    ae.add_requested_context("1.2.840.10008.1.1")
assoc = ae.associate("127.0.0.1", 11112, ae_title="PEER")
prim = assoc.dul.to_provider_queue.get(False)
b = A_ASSOCIATE_RQ(prim).encode()
print(len(b), b[:80])
print([cx.context_id for cx in prim.presentation_context_definition_list])
