import shim
import pynetdicom.dimse_messages as dm
from pynetdicom.dimse_messages import DIMSEMessage
from crosshair.util import IgnoreAttempt

K = 4   # unrolling bound: at most K fragments per part

class Frac:
    """exact n/d (d > 0), produced by Num / Num instead of a float"""
    def __init__(self, n, d): self.n, self.d = n, d

class Num:
    """int stand-in that keeps true division exact (no float)"""
    def __init__(self, v): self.v = v
    @staticmethod
    def _v(o): return o.v if isinstance(o, Num) else o
    def __truediv__(self, o): return Frac(self.v, Num._v(o))
    def __rtruediv__(self, o): return Frac(Num._v(o), self.v)
    def __sub__(self, o): return Num(self.v - Num._v(o))
    def __rsub__(self, o): return Num(Num._v(o) - self.v)
    def __add__(self, o): return Num(self.v + Num._v(o))
    __radd__ = __add__
    def __eq__(self, o): return self.v == Num._v(o)
    def __lt__(self, o): return self.v < Num._v(o)
    def __le__(self, o): return self.v <= Num._v(o)
    def __gt__(self, o): return self.v > Num._v(o)
    def __ge__(self, o): return self.v >= Num._v(o)
    def __index__(self): return self.v
    def __hash__(self): return hash(self.v)

def _ceil(x):
    if isinstance(x, Frac):
        if not (x.d > 0 and x.n >= 0): raise IgnoreAttempt("outside claim")
        for k in range(0, K + 1):
            if (k - 1) * x.d < x.n and x.n <= k * x.d:
                return k
        raise IgnoreAttempt("more than K fragments: outside the unrolling bound")
    import math
    return math.ceil(x)
dm.ceil = _ceil

class Seg:
    def __init__(self, lo, hi): self.lo, self.hi = lo, hi
    def __len__(self): return Num(self.hi - self.lo)
    def size(self): return self.hi - self.lo
    def __getitem__(self, sl):
        n = self.hi - self.lo
        a = 0 if sl.start is None else Num._v(sl.start)
        b = n if sl.stop is None else Num._v(sl.stop)
        assert sl.step is None
        if a < 0 or b < 0: raise NotImplementedError
        a = a if a < n else n
        b = b if b < n else n
        if b < a: b = a
        return Seg(self.lo + a, self.lo + b)

def frag(n: int, maxlen: int) -> bool:
    """
    pre: 0 <= n <= 1099511627776
    pre: maxlen == 0 or 7 <= maxlen <= 4294967295
    post: _ == True
    """
    frags = list(DIMSEMessage._generate_pdv_fragments(Seg(0, n), Num(maxlen)))
    pos = 0
    for f in frags:
        if f.lo != pos: return False
        pos = f.hi
        if maxlen != 0:
            if 6 + f.size() > maxlen: return False
            if f.size() <= 0: return False
    return pos == n
