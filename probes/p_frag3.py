import shim
import pynetdicom.dimse_messages as dm
from pynetdicom.dimse_messages import DIMSEMessage
from crosshair.core import proxy_for_type
from crosshair.util import IgnoreAttempt

from crosshair.statespace import context_statespace
from crosshair.tracers import NoTracing
def _sym_ceil(x):
    """exact ceil of a symbolic rational: the unique integer k with k-1 < x <= k"""
    with NoTracing():
        name = "ceil" + context_statespace().uniq()
    k = proxy_for_type(int, name)
    if not (k - 1 < x and x <= k):
        raise IgnoreAttempt("ceil assumption")
    return k
dm.ceil = _sym_ceil

class Seg:
    """bytes-like stand-in: the half-open range [lo, hi) of an abstract buffer"""
    def __init__(self, lo, hi): self.lo, self.hi = lo, hi
    def __len__(self): return self.hi - self.lo
    def __getitem__(self, sl):
        n = self.hi - self.lo
        a = 0 if sl.start is None else sl.start
        b = n if sl.stop is None else sl.stop
        assert sl.step is None
        if a < 0 or b < 0: raise NotImplementedError
        a = a if a < n else n
        b = b if b < n else n
        if b < a: b = a
        return Seg(self.lo + a, self.lo + b)

def frag(n: int, maxlen: int) -> bool:
    """
    pre: 0 <= n <= 2**40
    pre: maxlen == 0 or 7 <= maxlen <= 4294967295
    pre: maxlen == 0 or n <= 3 * (maxlen - 6)
    post: _ == True
    """
    frags = list(DIMSEMessage._generate_pdv_fragments(Seg(0, n), maxlen))
    pos = 0
    for f in frags:
        if f.lo != pos: return False
        pos = f.hi
        if maxlen:
            if 6 + len(f) > maxlen: return False
            if len(f) <= 0: return False
    return pos == n
