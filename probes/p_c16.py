import shim, queue
from io import BytesIO
from pydicom.dataset import Dataset
from crosshair.tracers import NoTracing
from pynetdicom import AE, build_context
from pynetdicom.association import Association
from pynetdicom.dimse import DIMSEServiceProvider
from pynetdicom._globals import MODE_REQUESTOR, MODE_ACCEPTOR
shim.silence_loggers()

MODEL = "1.2.840.10008.5.1.4.1.2.1.1"

class Wire:
    """dul stand-in for side A: P-DATA primitives are delivered synchronously to B's real DIMSE provider"""
    def __init__(s, peer_dimse): s.peer = peer_dimse; s.npdata = 0; s.ds_pdvs = 0
    def send_pdu(s, p):
        s.npdata += 1
        for cid, data in p.presentation_data_value_list:
            if data[0] & 1 == 0: s.ds_pdvs += 1
        s.peer.receive_primitive(p)
    def peek_next_pdu(s): return None

def find_receivable(n: int) -> bool:
    """
    pre: 0 <= n <= 2
    post: _ == True
    """
    with NoTracing():
        ae = AE(); ae.dimse_timeout = 0
        a = Association(ae, MODE_REQUESTOR); b = Association(ae, MODE_ACCEPTOR)
        cx = build_context(MODEL, "1.2.840.10008.1.2"); cx.context_id = 1; cx.result = 0; cx._as_scu = True; cx._as_scp = False
        a._accepted_cx = {1: cx}; b._accepted_cx = {1: cx}
        a.is_established = True; a._is_paused = True
        wire = Wire(b.dimse); a.dul = wire
        aborted = []
        a.abort = lambda: aborted.append(1)
        a.acse.is_aborted = lambda *x: False
        ds = Dataset()
    if n >= 1: ds.PatientID = "1"
    if n >= 2: ds.QueryRetrieveLevel = "PATIENT"
    gen = a.send_c_find(ds, MODEL)
    # the peer must now hold one complete C-FIND request
    cid, msg = b.dimse.get_msg(block=False)
    return msg is not None and cid == 1
