"""Two real Associations + two real DULs + real FSMs joined by a fake socket pair, one thread."""
import queue, logging
import pynetdicom.transport as tr
from pynetdicom import AE, evt, build_context
from pynetdicom.association import Association
from pynetdicom.transport import AssociationSocket
from pynetdicom._globals import MODE_REQUESTOR, MODE_ACCEPTOR

class Stop(Exception): pass
class Deadlock(Exception): pass

import pynetdicom.association as _am, pynetdicom.dul as _dm
class PumpTime:
    """stand-in for the `time` module inside association.py / dul.py: a sleeping thread lets others run"""
    sim = None
    def __init__(s, real): s._real = real
    def sleep(s, x):
        if PumpTime.sim is None: return
        if not PumpTime.sim.step(): raise Deadlock()
    def __getattr__(s, n): return getattr(s._real, n)
import time as _t
_am.time = PumpTime(_t); _dm.time = PumpTime(_t)

class Pipe:
    """one direction of a TCP connection"""
    def __init__(s): s.buf = b""; s.closed = False
class FakeRaw:
    def __init__(s, rx, tx): s.rx, s.tx = rx, tx; s.timeout = None
    def recv(s, n):
        out = s.rx.buf[:n]; s.rx.buf = s.rx.buf[n:]; return out
    def send(s, b):
        if s.tx.closed: raise OSError("closed")
        s.tx.buf += bytes(b); return len(b)
    def shutdown(s, how): s.tx.closed = True
    def close(s): s.tx.closed = True
    def settimeout(s, t): s.timeout = t
class FakeSelect:
    @staticmethod
    def select(r, w, x, t):
        s = r[0]
        return ([s], [], []) if (s.rx.buf or s.rx.closed) else ([], [], [])
tr.select = FakeSelect

class OneShot:
    """_dul_ready stub: lets run_reactor execute exactly one loop iteration"""
    def __init__(s): s.n = 0
    def is_set(s):
        s.n += 1
        if s.n > 1: raise Stop()
        return True
    def set(s): pass
    def wait(s, *a): return True

class Checkpoint:
    def __init__(s): s.n = 0
    def wait(s, *a):
        s.n += 1
        if s.n > 1: raise Stop()
    def set(s): pass
    def clear(s): pass

class PumpQueue(queue.Queue):
    """to_user_queue whose blocking get() lets the rest of the system run (cooperative scheduling)"""
    def __init__(s, sim): super().__init__(); s.sim = sim
    def get(s, block=True, timeout=None):
        if block:
            while s.empty():
                if not s.sim.step(): raise queue.Empty
        return super().get(block=False)

class Side:
    def __init__(s, sim, ae, mode, rx, tx):
        s.assoc = a = Association(ae, mode)
        sock = AssociationSocket.__new__(AssociationSocket)
        sock._assoc = a; sock.socket = FakeRaw(rx, tx); sock._is_connected = True; sock._tls_args = None
        import threading; sock._ready = threading.Event(); sock._ready.set()
        a.dul.socket = sock
        a.dul.to_user_queue = PumpQueue(sim)
        a.dul._run_loop_delay = 0
        a.dul.is_alive = lambda: not a.dul._kill_thread      # the thread "exists" until the reactor is killed
        s.events = []
        for e in (evt.EVT_RELEASED, evt.EVT_ABORTED, evt.EVT_ESTABLISHED):
            a.bind(e, lambda ev, n=e.name: s.events.append(n))
    def dul_iter(s):
        a = s.assoc
        if a.dul._kill_thread: return
        a._dul_ready = OneShot()
        try: a.dul.run_reactor()
        except Stop: pass
    def assoc_iter(s):
        a = s.assoc
        if a._kill or not a.is_established: return
        a._reactor_checkpoint = Checkpoint()
        try: a._run_reactor()
        except Stop: pass

class Sim:
    def __init__(s, schedule):
        s.schedule = list(schedule); s.budget = 200; PumpTime.sim = s; s.depth = 0; s.rr = 0; s.running = set()
        ae = AE(); ae.acse_timeout = 1; ae.dimse_timeout = 1; ae.network_timeout = None
        ae.add_supported_context("1.2.840.10008.1.1")
        ab, ba = Pipe(), Pipe()
        s.A = Side(s, ae, MODE_REQUESTOR, ba, ab)
        s.B = Side(s, ae, MODE_ACCEPTOR, ab, ba)
        cx = build_context("1.2.840.10008.1.1", "1.2.840.10008.1.2"); cx.context_id = 1; cx.result = 0; cx._as_scu = True; cx._as_scp = True
        for side in (s.A, s.B):
            a = side.assoc
            a._accepted_cx = {1: cx}; a.is_established = True; a._is_paused = True
            a.dul.state_machine.current_state = "Sta6"
            a.acceptor.address_info = a.requestor.address_info = type("X", (), {"as_tuple": ("127.0.0.1", 104)})()
    def step(s):
        """run one step of a component that is not already on the call stack;
        the schedule picks which (default: round robin)"""
        if s.budget <= 0: return False
        s.budget -= 1
        comps = [("A.dul", s.A.dul_iter), ("B.dul", s.B.dul_iter), ("B.assoc", s.B.assoc_iter)]
        free = [c for c in comps if c[0] not in s.running]
        if not free: return True
        if s.schedule: k = s.schedule.pop(0)
        else: k = s.rr; s.rr += 1
        name, fn = free[k % len(free)]
        s.running.add(name)
        try: fn()
        finally: s.running.discard(name)
        return True
    def drain(s):
        while s.step(): pass

if __name__ == "__main__":
    logging.disable(logging.CRITICAL)
    sim = Sim([])
    sim.A.assoc.release()
    sim.drain()
    for n, side in (("A", sim.A), ("B", sim.B)):
        a = side.assoc
        print(n, "released", a.is_released, "aborted", a.is_aborted, "established", a.is_established,
              "state", a.dul.state_machine.current_state, side.events)
