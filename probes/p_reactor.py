import shim, struct, queue
from typing import List
import pynetdicom.transport as tr
import pynetdicom.dul as dulmod
from pynetdicom.transport import AssociationSocket
from pynetdicom.dul import DULServiceProvider
from pynetdicom.fsm import StateMachine, InvalidEventError
from pynetdicom.timer import Timer
from pynetdicom.pdu_primitives import A_RELEASE, A_ABORT, P_DATA, A_P_ABORT

ABORT = b"\x07\x00\x00\x00\x00\x04\x00\x00\x00\x00"
RELRQ = b"\x05\x00\x00\x00\x00\x04\x00\x00\x00\x00"
RELRP = b"\x06\x00\x00\x00\x00\x04\x00\x00\x00\x00"
PDATA = b"\x04\x00\x00\x00\x00\x06\x00\x00\x00\x02\x01\x03"
JUNK  = b"\x09\x00\x00\x00\x00\x00"
PEER = [ABORT, RELRQ, RELRP, PDATA, JUNK]

class StopSim(Exception): pass

class FakeRaw:
    def __init__(s): s.buf = b""; s.closed = False; s.sent = []; s.shut = False
    def recv(s, n):
        out = s.buf[:n]; s.buf = s.buf[n:]; return out
    def send(s, b): s.sent.append(bytes(b)); return len(b)
    def shutdown(s, how): s.shut = True
    def close(s): s.shut = True
class FakeSelect:
    @staticmethod
    def select(r, w, x, t):
        s = r[0]
        return ([s], [], []) if (s.buf or s.closed) else ([], [], [])
tr.select = FakeSelect

class TickTimer(Timer):
    pass

class FakeDimse:
    def __init__(s): s.msg_queue = queue.Queue()
    def receive_primitive(s, p): pass
class FakeAddr: as_tuple = ("127.0.0.1", 104)
class FakeUser: address_info = FakeAddr()

class Env:
    """called at the top of every reactor iteration (through assoc._dul_ready.is_set())"""
    def __init__(s, dul, raw, steps): s.dul, s.raw, s.steps, s.i, s.idle = dul, raw, steps, 0, 0
    def is_set(s):
        if s.i < len(s.steps):
            a = s.steps[s.i]; s.i += 1
            if a < 5: s.raw.buf += PEER[a]
            elif a == 5: s.raw.closed = True
            elif a == 6: s.dul.to_provider_queue.put(A_RELEASE())
            elif a == 7:
                p = A_RELEASE(); p.result = "affirmative"; s.dul.to_provider_queue.put(p)
            elif a == 8:
                p = A_ABORT(); p.abort_source = 0; s.dul.to_provider_queue.put(p)
            elif a == 9:
                p = P_DATA(); p.presentation_data_value_list = [[1, b"\x03\x00"]]; s.dul.to_provider_queue.put(p)
        else:
            s.idle += 1
            if s.idle > 6: raise StopSim()
        return True
    def set(s): pass

class FakeAssoc:
    is_requestor = False
    network_timeout = None
    def __init__(s): s.acceptor = FakeUser(); s.requestor = FakeUser(); s.dimse = FakeDimse(); s.is_aborted = False; s.is_established = True; s._kill = False
    def get_handlers(s, e): return []

def run(steps: List[int]) -> bool:
    """
    pre: len(steps) <= 2
    pre: all(0 <= a <= 9 for a in steps)
    post: _ == True
    """
    assoc = FakeAssoc()
    d = DULServiceProvider.__new__(DULServiceProvider)
    d._assoc = assoc
    raw = FakeRaw()
    sock = AssociationSocket.__new__(AssociationSocket); sock._assoc = assoc; sock.socket = raw; sock._is_connected = True
    assoc.dul = d
    d.socket = sock
    d.event_queue = queue.Queue(); d.to_provider_queue = queue.Queue(); d.to_user_queue = queue.Queue(); d._recv_pdu = queue.Queue()
    d._idle_timer = Timer(None); d.artim_timer = Timer(None)
    d.state_machine = StateMachine(d); d.state_machine.current_state = "Sta6"
    d._run_loop_delay = 0; d._kill_thread = False
    assoc._dul_ready = Env(d, raw, steps)
    try:
        d.run_reactor()
    except StopSim:
        pass
    except InvalidEventError:
        return False
    return True
