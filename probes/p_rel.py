import shim, queue
from io import BytesIO
from pydicom.dataset import Dataset
from crosshair.tracers import NoTracing
from pynetdicom import AE, evt, build_context
from pynetdicom.association import Association
from pynetdicom.pdu_primitives import A_RELEASE, A_ABORT
from pynetdicom.dimse_primitives import C_FIND
from pynetdicom._globals import MODE_ACCEPTOR
import pynetdicom.service_class as sc
shim.silence_loggers()

class Stop(Exception): pass

class FakeDUL:
    def __init__(s): s.sent = []; s.to_user_queue = queue.Queue(); s.alive = True
    def send_pdu(s, p): s.sent.append(p)
    def peek_next_pdu(s):
        try: return s.to_user_queue.queue[0]
        except IndexError: return None
    def receive_pdu(s, wait=False, timeout=None):
        try: return s.to_user_queue.get(block=False)
        except queue.Empty: return None
    def is_alive(s): return s.alive
    def stop_dul(s): s.alive = False; return True
    def kill_dul(s): s.alive = False
    def idle_timer_expired(s): return False

class Checkpoint:
    """stub for Association._reactor_checkpoint: called once per reactor iteration"""
    def __init__(s, budget): s.n = 0; s.budget = budget
    def wait(s):
        s.n += 1
        if s.n > s.budget: raise Stop()
    def set(s): pass
    def clear(s): pass

DS = Dataset(); DS.PatientID = "1"; DS.QueryRetrieveLevel = "PATIENT"

def release_answered(n_yields: int, release_at: int) -> bool:
    """
    pre: 0 <= n_yields <= 2
    pre: -1 <= release_at <= 3
    post: _ == True
    """
    # release_at: -1 before the request is served, i = just before yield i is produced, n_yields+ = after
    with NoTracing():
        ae = AE()
        ae.add_supported_context("1.2.840.10008.5.1.4.1.2.1.1")
        assoc = Association(ae, MODE_ACCEPTOR)
        dul = FakeDUL(); assoc.dul = dul
        cx = build_context("1.2.840.10008.5.1.4.1.2.1.1", "1.2.840.10008.1.2"); cx.context_id = 1; cx.result = 0
        cx._as_scp = True; cx._as_scu = False
        assoc._accepted_cx = {1: cx}
        assoc.is_established = True
        assoc._reactor_checkpoint = Checkpoint(6)
        req = C_FIND(); req.MessageID = 7; req.AffectedSOPClassUID = cx.abstract_syntax; req.Priority = 2
        req.Identifier = BytesIO(b"\x08\x00\x52\x00\x08\x00\x00\x00PATIENT ")
        released = []
        assoc.bind(evt.EVT_RELEASED, lambda e: released.append(1))
    def rel(): dul.to_user_queue.put(A_RELEASE())
    def handler(event):
        for i in range(n_yields):
            if release_at == i: rel()
            yield 0xFF00, DS
        if release_at == n_yields: rel()
    assoc.bind(evt.EVT_C_FIND, handler)
    if release_at == -1: rel()
    assoc.dimse.msg_queue.put((1, req))
    if release_at > n_yields: rel()
    try:
        assoc._run_reactor()
    except Stop:
        pass
    rps = [p for p in dul.sent if isinstance(p, A_RELEASE) and p.result == "affirmative"]
    return len(rps) == 1 and assoc.is_released and released == [1]
