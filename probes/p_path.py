import shim
import os, posixpath
from pynetdicom.apps.qrscp import handlers as qh
from pynetdicom.apps import common

class Stop(Exception): pass

class FakeDS:
    def __init__(s, uid, rec): s.SOPInstanceUID = uid; s.SOPClassUID = "1.2.840.10008.5.1.4.1.1.2"; s.rec = rec; s.file_meta = None
    def __getitem__(s, k): return s
    def save_as(s, path, **kw):
        s.rec.append(path); raise Stop()
class FakeRq:
    address = "x"; port = 1
class FakeAssoc:
    requestor = FakeRq()
class FakeTS:
    pass
class FakeCx:
    transfer_syntax = "1.2.840.10008.1.2"
class FakeEvent:
    def __init__(s, ds): s.dataset = ds; s.assoc = FakeAssoc(); s.file_meta = None; s.context = FakeCx()
    class timestamp:
        @staticmethod
        def strftime(f): return "t"
class L:
    def info(s,*a): pass
    warning = error = exception = info
class Args:
    ignore = False; output_directory = "/store"

def qr_store(uid: str) -> bool:
    """
    pre: 1 <= len(uid) <= 4
    post: _ == True
    """
    rec = []
    qh.handle_store(FakeEvent(FakeDS(uid, rec)), "/store", "sqlite:///:memory:", None, L())
    if not rec: return True
    p = posixpath.normpath(rec[0])
    return p.startswith("/store/") or p == "/store"

def scp_store(uid: str) -> bool:
    """
    pre: 1 <= len(uid) <= 4
    post: _ == True
    """
    rec = []
    common.handle_store(FakeEvent(FakeDS(uid, rec)), Args(), L())
    if not rec: return True
    p = posixpath.normpath(rec[0])
    return p.startswith("/store/") or p == "/store"
