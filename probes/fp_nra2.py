import z3, time
a, b, k, q = z3.Reals("a b k q")
U = z3.RealVal(2) ** 53
s = z3.Solver(); s.set("timeout", 60000)
# a, b, k integers (only the consequences of integrality that are needed are stated)
s.add(a >= 0, a <= 2**62, b >= 1, b <= 2**32 - 1, k >= 0)
s.add((k - 1) * b < a, a <= k * b)                    # k = ceil(a/b)
s.add(z3.Or(a == k * b, k * b - a >= 1))              # integrality
s.add(z3.Or(a == 0, a - (k - 1) * b >= 1))            # integrality
# standard model of round-to-nearest division of two exactly representable operands (normal range)
s.add(q * b * U <= a * (U + 1), q * b * U >= a * (U - 1))
s.add(z3.Implies(a == k * b, q == k))                 # exact results are not rounded
# claim: ceil(q) == k  i.e.  k-1 < q <= k   (for k == 0: q == 0)
s.add(z3.Not(z3.And(q <= k, z3.Or(q > k - 1, z3.And(k == 0, q == 0)))))
t = time.time(); r = s.check(); print("z3 NRA", r, round(time.time() - t, 2), "s")
if str(r) == "sat": print(s.model())
