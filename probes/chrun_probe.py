"""Run one harness function through CrossHair's Python API, counting SMT queries."""
import sys, time, importlib, z3
sys.path.insert(0, "/tmp/probe")
import crosshair.core_and_libs
from crosshair import statespace
from crosshair.core import analyze_function, run_checkables
from crosshair.options import AnalysisOptionSet, AnalysisKind

stats = {"sat": 0, "unsat": 0, "unknown": 0, "solver_s": 0.0, "paths": 0}
_orig = statespace.solver_is_sat
def counted(solver, *exprs):
    t = time.perf_counter()
    try:
        r = _orig(solver, *exprs)
        stats["sat" if r else "unsat"] += 1
        return r
    except statespace.UnknownSatisfiability:
        stats["unknown"] += 1; raise
    finally:
        stats["solver_s"] += time.perf_counter() - t
statespace.solver_is_sat = counted
_init = statespace.StateSpace.__init__
def init(self, *a, **k):
    stats["paths"] += 1
    return _init(self, *a, **k)
statespace.StateSpace.__init__ = init

mod = importlib.import_module(sys.argv[1]); fn = getattr(mod, sys.argv[2])
opts = AnalysisOptionSet(per_condition_timeout=float(sys.argv[3]), report_all=True, analysis_kind=[AnalysisKind.PEP316])
t = time.time()
msgs = run_checkables(analyze_function(fn, opts))
for m in msgs: print(m.state, m.message[:200].replace("\n", " "))
print(stats, "wall", round(time.time() - t, 1))
