import shim
from typing import Optional, List
from pynetdicom.presentation import PresentationContext, negotiate_as_acceptor, negotiate_as_requestor
from p_neg import mk, AB, TS

def role_rule(has_role: bool, rq_scu: bool, rq_scp: bool,
              ac_scu: Optional[bool], ac_scp: Optional[bool]) -> bool:
    """
    post: _ == True
    """
    rq = mk(1, 1, 3)
    ac = mk(None, 1, 2)
    ac.scu_role = ac_scu
    ac.scp_role = ac_scp
    roles = {AB[1]: (rq_scu, rq_scp)} if has_role else {}
    result, rroles = negotiate_as_acceptor([rq], [ac], roles)
    if len(result) != 1: return False
    r = result[0]
    if (not has_role) or ac_scu is None or ac_scp is None:
        exp_scu, exp_scp, reply = False, True, None
    else:
        reply = (rq_scu and ac_scu, rq_scp and ac_scp)
        exp_scp, exp_scu = reply[0], reply[1]
    if not exp_scu and not exp_scp:
        return r.result == 1 and not rroles
    if r.result != 0: return False
    if (r.as_scu, r.as_scp) != (exp_scu, exp_scp): return False
    if reply is None: return not rroles
    if len(rroles) != 1: return False
    return (rroles[0].scu_role, rroles[0].scp_role) == reply
