import inspect, textwrap
from p_frag5 import *
import p_frag5
src = textwrap.dedent(inspect.getsource(DIMSEMessage._generate_pdv_fragments)).replace("@staticmethod\n", "")
src = src.replace("fragment_length -= 6", "fragment_length -= 5")
ns = {"ceil": p_frag5._ceil, "Iterator": None}
exec(src.replace("-> Iterator[bytes]", ""), ns)
mut = ns["_generate_pdv_fragments"]

def frag_mut(n: int, maxlen: int) -> bool:
    """
    pre: 0 <= n <= 1099511627776
    pre: maxlen == 0 or 7 <= maxlen <= 4294967295
    post: _ == True
    """
    frags = list(mut(Seg(0, n), Num(maxlen)))
    pos = 0
    for f in frags:
        if f.lo != pos: return False
        pos = f.hi
        if maxlen != 0:
            if 6 + f.size() > maxlen: return False
            if f.size() <= 0: return False
    return pos == n
