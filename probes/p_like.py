import shim
from pynetdicom.apps.qrscp import db

class Rec(Exception): pass
class Col:
    def __init__(s): s.pat = None
    def like(s, v): s.pat = v; return ("like", v)
class FakeInstance:
    patient_id = Col()
class Q:
    def filter(s, *a): return s
class Elem:
    keyword = "PatientID"; VR = "LO"
    def __init__(s, v): s.value = v

def dicom_match(p: str, v: str) -> bool:
    # PS3.4 C.2.2.2.4: '*' any sequence, '?' any single character, everything else literal, case sensitive
    if p == "": return v == ""
    if p[0] == "*":
        return dicom_match(p[1:], v) or (v != "" and dicom_match(p, v[1:]))
    if v == "": return False
    if p[0] == "?" or p[0] == v[0]:
        return dicom_match(p[1:], v[1:])
    return False

def like_match(p: str, v: str) -> bool:
    # SQLite LIKE without ESCAPE: '%' any sequence, '_' any single char, ASCII case-insensitive
    if p == "": return v == ""
    if p[0] == "%":
        return like_match(p[1:], v) or (v != "" and like_match(p, v[1:]))
    if v == "": return False
    a, b = p[0], v[0]
    if a == "_" or a == b or (a.isascii() and b.isascii() and a.lower() == b.lower()):
        return like_match(p[1:], v[1:])
    return False

def wildcard_equiv(p: str, v: str) -> bool:
    """
    pre: 1 <= len(p) <= 2 and len(v) <= 2
    pre: "*" in p or "?" in p
    post: _ == True
    """
    db.Instance = FakeInstance
    FakeInstance.patient_id = Col()
    db._search_wildcard(Elem(p), None, Q())
    sql = FakeInstance.patient_id.pat
    return like_match(sql, v) == dicom_match(p, v)
