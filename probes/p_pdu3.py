import shim, struct
from pynetdicom.pdu import A_ASSOCIATE_RQ

HDR = b"\x01\x00" + b"\x00\x00\x00\x00" + b"\x00\x01\x00\x00" + b"ANY-SCP         " + b"ECHOSCU         " + b"\x00"*32

def rq_decode_stable(tail: bytes) -> bool:
    """
    pre: len(tail) <= 10
    raises: AssertionError, struct.error, ValueError, KeyError, TypeError
    post: _ == True
    """
    data = HDR + tail
    p = A_ASSOCIATE_RQ()
    p.decode(data)
    enc = p.encode()
    q = A_ASSOCIATE_RQ()
    q.decode(enc)
    return q == p
