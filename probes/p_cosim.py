import shim
from typing import List
from crosshair.tracers import NoTracing
import cosim
shim.silence_loggers()

def release_agrees(schedule: List[int], b_aborts_at: int) -> bool:
    """
    pre: len(schedule) <= 2
    pre: all(0 <= c <= 2 for c in schedule)
    pre: -1 <= b_aborts_at <= 4
    post: _ == True
    """
    with NoTracing():
        sim = cosim.Sim([])
    sim.schedule = list(schedule)
    try:
        sim.A.assoc.release()
        sim.drain()
    except cosim.Deadlock:
        return False
    a, b = sim.A.assoc, sim.B.assoc
    ok_each = all((x.is_released != x.is_aborted) and not x.is_established for x in (a, b))
    both_released = a.is_released and b.is_released
    return ok_each and (both_released or a.is_aborted or b.is_aborted) \
        and a.dul.state_machine.current_state == "Sta1" and b.dul.state_machine.current_state == "Sta1" \
        and sim.A.events.count("EVT_RELEASED") + sim.A.events.count("EVT_ABORTED") == 1 \
        and sim.B.events.count("EVT_RELEASED") + sim.B.events.count("EVT_ABORTED") == 1
