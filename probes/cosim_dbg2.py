import logging; logging.disable(logging.CRITICAL)
import cosim, traceback
sim = cosim.Sim([])
a = sim.A.assoc
a.acse.send_release()
print("queue", a.dul.to_provider_queue.qsize())
a._dul_ready = cosim.OneShot()
try:
    a.dul.run_reactor()
except BaseException as e:
    traceback.print_exc()
print("state", a.dul.state_machine.current_state, "ab", len(a.dul.socket.socket.tx.buf))
