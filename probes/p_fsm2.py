import shim
import queue
from pynetdicom import fsm
from pynetdicom.fsm import StateMachine, InvalidEventError
from pynetdicom.pdu import *
from pynetdicom.pdu_primitives import *

STATES = [f"Sta{i}" for i in range(1, 14)]
EVENTS = [f"Evt{i}" for i in range(1, 20)]

class Rec(list):
    pass

class FakeTimer:
    def __init__(s, log): s.log = log
    def start(s): s.log.append("artim.start")
    def stop(s): s.log.append("artim.stop")
    def restart(s): s.log.append("artim.restart")

class FakeSock:
    def __init__(s, log): s.log = log
    def close(s): s.log.append("sock.close")
    def _shutdown_socket(s): s.log.append("sock.shutdown")
    def connect(s, prim): s.log.append("sock.connect")

class FakeQ:
    def __init__(s, item): s.queue = [item] if item is not None else []
    def get(s, block=True):
        if not s.queue: raise queue.Empty
        return s.queue.pop(0)
    def put(s, x): s.queue.append(x)

class FakeAddr:
    as_tuple = ("127.0.0.1", 11112)
class FakeUser:
    address_info = FakeAddr()
class FakeDimse:
    def __init__(s, log): s.log = log; s.msg_queue = FakeQ(None)
    def receive_primitive(s, p): s.log.append("pdata.indication")
class FakeAssoc:
    def __init__(s, log, req):
        s.is_requestor = req; s.acceptor = FakeUser(); s.requestor = FakeUser(); s.dimse = FakeDimse(log)
    def get_handlers(s, e): return []
class FakeDUL:
    def __init__(s, log, req, prov_item, recv_item):
        s.log = log
        s.artim_timer = FakeTimer(log); s.socket = FakeSock(log)
        s.assoc = FakeAssoc(log, req)
        s.to_provider_queue = FakeQ(prov_item); s._recv_pdu = FakeQ(recv_item); s.to_user_queue = FakeQ(None)
    def _send(s, pdu): s.log.append(("send", type(pdu).__name__, getattr(pdu, "source", None), getattr(pdu, "reason_diagnostic", None)))
    def kill_dul(s): s.log.append("kill")

def step(si: int, ei: int, req: bool, version_ok: bool) -> bool:
    """
    pre: 0 <= si < 13 and 0 <= ei < 19
    post: _ == True
    """
    state, event = STATES[si], EVENTS[ei]
    log = []
    rq = A_ASSOCIATE_RQ(); rq.protocol_version = 1 if version_ok else 2
    dul = FakeDUL(log, req, None, rq if event == "Evt6" else None)
    sm = StateMachine(dul); sm.current_state = state
    try:
        sm.do_action(event)
    except InvalidEventError:
        return (event, state) not in fsm.TRANSITION_TABLE
    except Exception:
        return True
    return sm.current_state in STATES
