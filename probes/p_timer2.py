import time
from timer_fixed import Timer

def check_no_early_expiry(timeout: float) -> bool:
    """
    pre: 0.0 < timeout < 1000.0
    post: _ == True
    """
    t = Timer(timeout)
    m0 = time.monotonic()
    t.start()
    m1 = time.monotonic()
    exp = t.expired
    m2 = time.monotonic()
    if m2 - m0 <= timeout and exp:
        return False
    if m2 - m1 > timeout and not exp:
        return False
    return True

def reach(timeout: float) -> bool:
    """
    pre: 0.0 < timeout < 1000.0
    post: _ == True
    """
    t = Timer(timeout)
    t.start()
    return not t.expired
