import time
import timer_fixed
from timer_fixed import Timer
from typing import List

class Clock:
    def __init__(self, vals): self.vals=vals; self.i=0
    def __call__(self):
        v = self.vals[self.i]; self.i += 1; return v

def check(timeout: int, mono: List[int], wall: List[int]) -> bool:
    """
    pre: 0 < timeout < 100000
    pre: len(mono) == 2 and len(wall) == 2
    pre: 0 <= mono[0] <= mono[1]
    post: _ == True
    """
    m = Clock(mono); w = Clock(wall)
    timer_fixed.time.monotonic = m   # patched module attr (time module itself!)
    timer_fixed.time.time = w
    t = Timer(timeout)
    t.start()
    exp = t.expired
    elapsed = mono[1] - mono[0]
    return exp == (elapsed > timeout)
