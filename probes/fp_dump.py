import z3, sys
exec(open('fp_lemma.py').read().split("s = z3.Solver()")[0])
s = z3.Solver()
s.add(z3.ULT(a, z3.BitVecVal(1 << 40, W)), z3.UGE(b, 1), z3.ULT(b, z3.BitVecVal(1 << 32, W)))
s.add(z3.Not(exact))
open('fp_lemma.smt2','w').write("(set-logic QF_BVFP)\n" + s.to_smt2())
