import shim
import pynetdicom.dimse_messages as dm
from pynetdicom.dimse_messages import DIMSEMessage

def _sym_ceil(x):
    """ceil for non-negative symbolic rationals without leaving the solver."""
    i = int(x)
    return i if i == x else i + 1
dm.ceil = _sym_ceil

def frag(data: bytes, maxlen: int) -> bool:
    """
    pre: len(data) <= 10
    pre: maxlen == 0 or 7 <= maxlen <= 4294967295
    post: _ == True
    """
    frags = list(DIMSEMessage._generate_pdv_fragments(data, maxlen))
    if b"".join(frags) != data: return False
    if maxlen:
        for f in frags:
            if 6 + len(f) > maxlen: return False
            if len(f) == 0: return False
    return True
