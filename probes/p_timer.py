import time
from pynetdicom.timer import Timer

def check_no_early_expiry(timeout: float) -> bool:
    """
    pre: 0.0 < timeout < 1000.0
    post: _ == True
    """
    t = Timer(timeout)
    m0 = time.monotonic()
    t.start()
    m1 = time.monotonic()
    exp = t.expired
    m2 = time.monotonic()
    # if certainly less than timeout elapsed on the monotonic clock => not expired
    if m2 - m0 <= timeout and exp:
        return False
    return True
