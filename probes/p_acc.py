import shim
from pynetdicom import AE, build_context
from pynetdicom.association import Association
from pynetdicom.pdu import A_ASSOCIATE_RQ, A_ASSOCIATE_AC, A_ASSOCIATE_RJ
from pynetdicom.pdu_primitives import A_ASSOCIATE
from pynetdicom._globals import MODE_ACCEPTOR
import pynetdicom.association as am
shim.silence_loggers()

def base_rq():
    from pynetdicom.pdu_primitives import MaximumLengthNotification, ImplementationClassUIDNotification
    p = A_ASSOCIATE()
    p.application_context_name = "1.2.840.10008.3.1.1.1"
    p.calling_ae_title = "AAA"; p.called_ae_title = "ANY-SCP"
    cx = build_context("1.2.840.10008.1.1"); cx.context_id = 1
    p.presentation_context_definition_list = [cx]
    p.maximum_length_received = 16382
    p.implementation_class_uid = "1.2.3.4"
    return A_ASSOCIATE_RQ(p).encode()
RQ = base_rq()

class FakeDUL:
    def __init__(s): s.sent = []
    def send_pdu(s, p): s.sent.append(p)
    def is_alive(s): return False
    def stop_dul(s): return True
    def kill_dul(s): pass

def acceptor_policy(t: bytes, required_listed: bool, require_called: bool) -> bool:
    """
    pre: len(t) == 2
    pre: all(32 <= c <= 126 and c != 92 for c in t)
    post: _ == True
    """
    raw = RQ[:26] + t + b" " * 14 + RQ[42:]
    pdu = A_ASSOCIATE_RQ(); pdu.decode(raw)
    ae = AE(ae_title="ANY-SCP")
    ae.add_supported_context("1.2.840.10008.1.1")
    if required_listed: ae.require_calling_aet = ["AB", " CD "]
    ae.require_called_aet = require_called
    assoc = Association(ae, MODE_ACCEPTOR)
    assoc.dul = FakeDUL()
    assoc.acceptor.ae_title = "ANY-SCP"
    assoc.acceptor.supported_contexts = ae.supported_contexts
    assoc.requestor.primitive = pdu.to_primitive()
    assoc.acse._negotiate_as_acceptor()
    sent = assoc.dul.sent
    if len(sent) != 1: return False
    title = bytes(t).decode("ascii").strip()
    allowed = (not required_listed) or title in ("AB", "CD")
    if allowed:
        return sent[0].result == 0 and assoc.is_established
    return (sent[0].result, sent[0].result_source, sent[0].diagnostic) == (1, 1, 3) and not assoc.is_established
