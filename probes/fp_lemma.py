# Lemma: for 0 <= a < 2^40, 1 <= b < 2^32 : ceil(RNE_double(a)/RNE_double(b)) == ceil_div(a, b)
import z3, time, sys
W = 64
a, b = z3.BitVecs("a b", W)
F = z3.Float64()
fa = z3.fpToFP(z3.RNE(), a, F)   # signed conversion, values are small positives
fb = z3.fpToFP(z3.RNE(), b, F)
q = z3.fpDiv(z3.RNE(), fa, fb)
c = z3.fpRoundToIntegral(z3.RTP(), q)
ci = z3.fpToSBV(z3.RTP(), c, z3.BitVecSort(W))
# exact: ci is the unique k with (k-1)*b < a <= k*b   (no overflow: k <= 2^40, b < 2^32 -> product < 2^72: use 80 bits)
X = 80
ax, bx, kx = z3.ZeroExt(X-W, a), z3.ZeroExt(X-W, b), z3.ZeroExt(X-W, ci)
exact = z3.And(z3.ULT((kx - 1) * bx, ax) if False else z3.Or(kx == 0, z3.ULT((kx - 1) * bx, ax)), z3.ULE(ax, kx * bx), z3.Or(kx != 0, ax == 0))
s = z3.Solver()
s.set("timeout", int(sys.argv[1]) * 1000)
s.add(z3.ULT(a, z3.BitVecVal(1 << 40, W)), z3.UGE(b, 1), z3.ULT(b, z3.BitVecVal(1 << 32, W)))
s.add(z3.Not(exact))
t = time.time(); r = s.check(); print("z3", r, round(time.time() - t, 1), "s")
if str(r) == "sat": print(s.model())
