import logging; logging.disable(logging.CRITICAL)
import cosim
sim = cosim.Sim([])
orig = sim.step
def step():
    r = orig()
    if sim.depth == 0:
        print("step budget", sim.budget, "A", sim.A.assoc.dul.state_machine.current_state, "B", sim.B.assoc.dul.state_machine.current_state,
              "ab", len(sim.A.assoc.dul.socket.socket.tx.buf), "ba", len(sim.B.assoc.dul.socket.socket.tx.buf),
              "Aq", sim.A.assoc.dul.to_provider_queue.qsize(), "Bu", sim.B.assoc.dul.to_user_queue.qsize(), "Akill", sim.A.assoc.dul._kill_thread)
    return r
sim.step = step
try:
    sim.A.assoc.release()
except Exception as e:
    print("EXC", type(e).__name__)
