import ast, sys
src = open(sys.argv[1]).read()
tree = ast.parse(src)
lines = src.split('\n')
kill = set()
for node in ast.walk(tree):
    if isinstance(node, (ast.FunctionDef, ast.ClassDef, ast.AsyncFunctionDef, ast.Module)):
        if node.body and isinstance(node.body[0], ast.Expr) and isinstance(getattr(node.body[0],'value',None), ast.Constant) and isinstance(node.body[0].value.value, str):
            d = node.body[0]
            for i in range(d.lineno, d.end_lineno+1): kill.add(i)
for i,l in enumerate(lines,1):
    if i in kill: continue
    if not l.strip(): continue
    print(f"{i:5d} {l}")
