import shim, queue
from typing import List
from io import BytesIO
from pydicom.dataset import Dataset
from pydicom.uid import UID
from crosshair.tracers import NoTracing
from pynetdicom import AE
from pynetdicom.association import Association
import pynetdicom.association as am
from pynetdicom.dimse_primitives import C_FIND, C_STORE
from pynetdicom._globals import MODE_REQUESTOR
shim.silence_loggers()

class BadDS(Exception): pass
GOOD = BytesIO(b"good"); BAD = BytesIO(b"bad")
def fake_decode(b, *a):
    if b is BAD: raise BadDS()
    return Dataset()
am.decode = fake_decode

class FakeDimse:
    def __init__(s, items): s.items = list(items)
    def get_msg(s, block=False):
        if not s.items: return None, None
        return 1, s.items.pop(0)
class FakeACSE:
    def is_aborted(s, *a): return False

def mk(kind):
    if kind == 5:
        return C_STORE()
    r = C_FIND(); r.MessageIDBeingRespondedTo = 1
    if kind == 0: r.Status = 0xFF00; r.Identifier = GOOD      # pending, decodable
    elif kind == 1: r.Status = 0xFF00; r.Identifier = BAD     # pending, undecodable
    elif kind == 2: r.Status = 0x0000                         # success
    elif kind == 3: r.Status = 0xA700                         # failure
    elif kind == 4: pass                                      # invalid: no status
    return r

def find_stream(kinds: List[int]) -> bool:
    """
    pre: len(kinds) <= 3
    pre: all(0 <= k <= 5 for k in kinds)
    post: _ == True
    """
    with NoTracing():
        ae = AE()
        assoc = Association(ae, MODE_REQUESTOR)
        assoc.is_established = True
        aborted = []
        assoc.abort = lambda: aborted.append(1)
        assoc.acse = FakeACSE()
    assoc.dimse = FakeDimse([mk(k) for k in kinds])
    out = []
    gen = assoc._wrap_find_responses(UID("1.2.840.10008.1.2"), UID("1.2.840.10008.5.1.4.1.2.1.1"))
    for st, ident in gen:
        if assoc.lock.locked(): return False          # lock held while the caller owns the iterator
        out.append(getattr(st, "Status", None))
    # expected: one yield per response up to and including the first non-pending / invalid / missing
    exp = []
    for k in kinds:
        if k in (0, 1): exp.append(0xFF00); continue
        if k == 2: exp.append(0); break
        if k == 3: exp.append(0xA700); break
        exp.append(None); break
    else:
        exp.append(None)       # stream ended: timeout -> (empty, None)
    return out == exp
