import shim
from io import BytesIO
from crosshair.tracers import NoTracing
from pynetdicom import AE, evt, build_context
from pynetdicom.association import Association
from pynetdicom.dimse_primitives import C_STORE
from pynetdicom._globals import MODE_REQUESTOR
shim.silence_loggers()
CT = "1.2.840.10008.5.1.4.1.1.2"

class RecDimse:
    def __init__(s): s.sent = []
    def send_msg(s, rsp, cx): s.sent.append((rsp.Status, cx))

def substore_context(cid: int) -> bool:
    """
    pre: 0 <= cid <= 255
    post: _ == True
    """
    with NoTracing():
        ae = AE()
        a = Association(ae, MODE_REQUESTOR)
        cx = build_context(CT, "1.2.840.10008.1.2"); cx.context_id = 3; cx.result = 0; cx._as_scp = True; cx._as_scu = True
        a._accepted_cx = {3: cx}; a.is_established = True
        a.dimse = RecDimse()
        calls = []
        a.bind(evt.EVT_C_STORE, lambda e: (calls.append(1), 0x0000)[1])
        req = C_STORE(); req.MessageID = 1; req.AffectedSOPClassUID = CT; req.AffectedSOPInstanceUID = "1.2.3"; req.Priority = 2
        req.DataSet = BytesIO(b"\x00\x00")
    req._context_id = cid
    a._c_store_scp(req)
    if cid == 3:
        return calls == [1] and a.dimse.sent == [(0, 3)]
    return calls == []       # not accepted -> the handler must not run
