import shim
from pynetdicom.dimse_messages import DIMSEMessage

def frag(data: bytes, maxlen: int) -> bool:
    """
    pre: len(data) <= 10
    pre: maxlen == 0 or 7 <= maxlen <= 4294967295
    post: _ == True
    """
    frags = list(DIMSEMessage._generate_pdv_fragments(data, maxlen))
    if b"".join(frags) != data: return False
    if maxlen:
        for f in frags:
            # PDV item = 4 (length) + 1 (ctx id) + 1 (control header) + fragment
            if 6 + len(f) > maxlen: return False
            if len(f) == 0: return False
    return True
