import shim
from typing import List, Tuple
from io import BytesIO
from pydicom.dataset import Dataset
from crosshair.tracers import NoTracing
from pynetdicom import service_class as sc, status as st
from pynetdicom.service_class import QueryRetrieveServiceClass
from pynetdicom.dimse_primitives import C_GET
from pynetdicom.presentation import build_context
shim.silence_loggers()

CX = build_context("1.2.840.10008.5.1.4.1.2.1.3", "1.2.840.10008.1.2"); CX.context_id = 1
DS = Dataset(); DS.SOPInstanceUID = "1.2.3"; DS.SOPClassUID = "1.2.840.10008.5.1.4.1.1.2"
def fake_encode(ds, *a): return b"\x00" * 8 if isinstance(ds, Dataset) else None
sc.encode = fake_encode
GET_STATUS = shim.IntervalDict(st.QR_GET_SERVICE_CLASS_STATUS)
sc.STORAGE_SERVICE_CLASS_STATUS = shim.IntervalDict(st.STORAGE_SERVICE_CLASS_STATUS)

class StoreRsp:
    def __init__(s, code): s.Status = code
class FakeACSE:
    def is_aborted(self, *a): return False
    def is_release_requested(self): return False
class FakeDimse:
    def __init__(s): s.sent = []; s.cancel_req = {}
    def send_msg(s, rsp, cx_id):
        s.sent.append((rsp.Status, rsp.NumberOfRemainingSuboperations, rsp.NumberOfCompletedSuboperations,
                       rsp.NumberOfFailedSuboperations, rsp.NumberOfWarningSuboperations))
class FakeAssoc:
    is_established = True
    def __init__(s, handler, outcomes): s.acse = FakeACSE(); s.dimse = FakeDimse(); s.h = handler; s.ae = None; s.out = list(outcomes)
    def get_handlers(s, event): return (s.h, None)
    def _abort_nonblocking(s, *a): pass
    def _abort_blocking(s, *a): pass
    def send_c_store(s, ds, msg_id=1):
        o = s.out.pop(0) if s.out else 0
        if o == 3: raise RuntimeError("store failed")
        return StoreRsp({0: 0x0000, 1: 0xB000, 2: 0xA700}[o])

def get_counters(n: int, kinds: List[int], outcomes: List[int]) -> bool:
    """
    pre: 1 <= n <= 65535
    pre: len(kinds) <= 2 and len(outcomes) == len(kinds)
    pre: all(0 <= k <= 2 for k in kinds)
    pre: all(0 <= o <= 3 for o in outcomes)
    post: _ == True
    """
    # kinds: 0 = (Pending, valid dataset), 1 = (Pending, non-Dataset object), 2 = (Pending, None)
    def handler(event):
        yield n
        for k in kinds:
            yield 0xFF00, (DS if k == 0 else ("junk" if k == 1 else None))
    assoc = FakeAssoc(handler, outcomes)
    svc = QueryRetrieveServiceClass(assoc)
    svc.statuses = GET_STATUS
    req = C_GET(); req.MessageID = 9; req.AffectedSOPClassUID = CX.abstract_syntax; req.Identifier = BytesIO(b"\x00")
    svc._get_scp(req, CX)
    sent = assoc.dimse.sent
    if not sent: return False
    prev = None
    for (status, rem, comp, fail, warn) in sent[:-1]:
        if status != 0xFF00: return False
        if rem + comp + fail + warn != n: return False
        if prev and (rem > prev[0] or comp < prev[1] or fail < prev[2] or warn < prev[3]): return False
        prev = (rem, comp, fail, warn)
    status, rem, comp, fail, warn = sent[-1]
    if comp + fail + warn > n: return False
    if fail == 0 and warn == 0: return status == 0x0000
    if fail == n: return status == 0xA702
    return status == 0xB000
