import shim
from crosshair import core as _c
from crosshair.tracers import NoTracing
from crosshair.libimpl.builtinslib import SymbolicNumberAble
_orig = _c._PATCH_REGISTRATIONS[format]
SENTINEL = "⟪SYMNUM⟫"
def _format(obj, spec=""):
    with NoTracing():
        symnum = isinstance(obj, SymbolicNumberAble)
    if symnum:
        return SENTINEL
    return _orig(obj, spec)
_c._PATCH_REGISTRATIONS[format] = _format

def log(msg): pass

def f(status: int) -> bool:
    """
    pre: 0 <= status <= 65535
    post: _ == True
    """
    log(f"Response: 0x{status:04X} (Pending)")
    if status == 0xFF00:
        return True
    return status != 0xFF00
