import shim
from typing import Optional, List
from pynetdicom.presentation import PresentationContext, negotiate_as_acceptor
from p_neg import AB, TS

def mkb(cid, ab, t0, t1, t2):
    cx = PresentationContext()
    cx.context_id = cid
    cx.abstract_syntax = AB[ab]
    ts = []
    if t0: ts.append(TS[0])
    if t1: ts.append(TS[1])
    if t2: ts.append(TS[2])
    cx.transfer_syntax = ts
    return cx

def ts_rule(same_ab: bool, r0: bool, r1: bool, r2: bool, a0: bool, a1: bool, a2: bool, order: bool) -> bool:
    """
    pre: r0 or r1 or r2
    pre: a0 or a1 or a2
    post: _ == True
    """
    rq = mkb(1, 1, r0, r1, r2)
    ac = mkb(None, 1 if same_ab else 2, a0, a1, a2)
    if order:
        ac.transfer_syntax = list(reversed(ac.transfer_syntax))
    result, rroles = negotiate_as_acceptor([rq], [ac], {})
    if len(result) != 1 or rroles: return False
    r = result[0]
    if r.context_id != 1 or r.abstract_syntax != AB[1]: return False
    if not same_ab:
        return r.result == 3
    common = [t for t in ac.transfer_syntax if t in rq.transfer_syntax]
    if not common:
        return r.result == 4
    return r.result == 0 and r.transfer_syntax == [common[0]] and r.as_scp is True and r.as_scu is False
