import logging; logging.disable(logging.CRITICAL)
# E: C02 counterexample through decode / encode
from pynetdicom.pdu import A_ASSOCIATE_RQ, A_ASSOCIATE_AC
from pynetdicom.pdu_primitives import *
from pynetdicom import build_context
p = A_ASSOCIATE(); p.application_context_name="1.2.840.10008.3.1.1.1"; p.calling_ae_title="A"; p.called_ae_title="B"
cx = build_context("1.2.840.10008.1.1"); cx.context_id=1; p.presentation_context_definition_list=[cx]
p.maximum_length_received=16382; p.implementation_class_uid="1.2.3"
raw = bytearray(A_ASSOCIATE_RQ(p).encode())
tail = b"\x40\x00\x00\x01\x00"
raw += tail
import struct
raw[2:6] = struct.pack(">I", len(raw)-6)
q = A_ASSOCIATE_RQ(); q.decode(bytes(raw)); print("E decoded ok, items:", [type(i).__name__ for i in q.variable_items])
try: q.encode(); print("E encode ok")
except Exception as e: print("E encode raises", type(e).__name__, e)
# AC with rejected context and empty TS name
r = A_ASSOCIATE(); r.application_context_name="1.2.840.10008.3.1.1.1"; r.calling_ae_title="A"; r.called_ae_title="B"; r.result=0; r.result_source=1
rc = build_context("1.2.840.10008.1.1"); rc.context_id=1; rc.result=3
r.presentation_context_definition_results_list=[rc]; r.maximum_length_received=16382; r.implementation_class_uid="1.2.3"
ac = bytearray(A_ASSOCIATE_AC(r).encode())
# find the TS subitem (0x40) inside the 0x21 item and blank its name to zero length
i = ac.index(b"\x21\x00")
item_len = struct.unpack(">H", ac[i+2:i+4])[0]
ts_i = i + 8
ts_len = struct.unpack(">H", ac[ts_i+2:ts_i+4])[0]
new = ac[:ts_i] + b"\x40\x00\x00\x00" + ac[ts_i+4+ts_len:]
new[i+2:i+4] = struct.pack(">H", item_len - ts_len)
new[2:6] = struct.pack(">I", len(new)-6)
a2 = A_ASSOCIATE_AC(); a2.decode(bytes(new)); print("E2 decoded AC with empty TS on rejected cx:", a2.presentation_context[0].transfer_syntax)
try: a2.encode(); print("E2 encode ok")
except Exception as e: print("E2 encode raises", type(e).__name__, e)

# F: C01 zero-length primary field
u = UserIdentityNegotiation(); u.user_identity_type = 1; u.primary_field = b""; u.positive_response_requested = False
it = u.from_primitive(); b = it.encode(); print("F encoded", b)
from pynetdicom.pdu_items import UserIdentitySubItemRQ
it2 = UserIdentitySubItemRQ(); it2.decode(b); print("F roundtrip equal:", it2 == it, it2.primary_field, it2.secondary_field)
