import shim
from typing import Optional, List
from pynetdicom.presentation import PresentationContext, negotiate_as_acceptor, negotiate_as_requestor

AB = ["1.2.840.10008.1.1", "1.2.840.10008.5.1.4.1.1.2", "1.2.840.10008.5.1.4.1.1.4"]
TS = ["1.2.840.10008.1.2", "1.2.840.10008.1.2.1", "1.2.840.10008.1.2.2"]

def mk(cid, ab, ts_mask):
    cx = PresentationContext()
    cx.context_id = cid
    cx.abstract_syntax = AB[ab]
    cx.transfer_syntax = [TS[i] for i in range(3) if (ts_mask >> i) & 1]
    return cx

def role_rule(rq_ab: int, rq_ts: int, ac_ab: int, ac_ts: int,
              has_role: bool, rq_scu: bool, rq_scp: bool,
              ac_scu: Optional[bool], ac_scp: Optional[bool]) -> bool:
    """
    pre: 0 <= rq_ab < 3 and 0 <= ac_ab < 3
    pre: 1 <= rq_ts < 8 and 1 <= ac_ts < 8
    post: _ == True
    """
    rq = mk(1, rq_ab, rq_ts)
    ac = mk(None, ac_ab, ac_ts)
    ac.scu_role = ac_scu
    ac.scp_role = ac_scp
    roles = {AB[rq_ab]: (rq_scu, rq_scp)} if has_role else {}
    result, rroles = negotiate_as_acceptor([rq], [ac], roles)
    if len(result) != 1: return False
    r = result[0]
    if r.context_id != 1 or r.abstract_syntax != AB[rq_ab]: return False
    common = [t for t in ac.transfer_syntax if t in rq.transfer_syntax]
    if rq_ab != ac_ab:
        return r.result == 3 and not rroles
    if not common:
        return r.result == 4 and not rroles
    # spec (PS3.7 D.3.3.4): default roles unless both proposed and answered
    if (not has_role) or ac_scu is None or ac_scp is None:
        exp_scu, exp_scp, reply = False, True, None
    else:
        reply = (rq_scu and ac_scu, rq_scp and ac_scp)
        exp_scp, exp_scu = reply[0], reply[1]   # acceptor is SCP iff requestor SCU accepted
    if not exp_scu and not exp_scp:
        return r.result == 1 and not rroles
    if r.result != 0: return False
    if r.transfer_syntax != [common[0]]: return False
    if (r.as_scu, r.as_scp) != (exp_scu, exp_scp): return False
    if reply is None: return not rroles
    if len(rroles) != 1: return False
    return (rroles[0].scu_role, rroles[0].scp_role) == reply
