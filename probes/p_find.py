import shim
from typing import List, Tuple
from io import BytesIO
from pydicom.dataset import Dataset
from pynetdicom import evt, service_class as sc
from pynetdicom.service_class import QueryRetrieveServiceClass
from pynetdicom.dimse_primitives import C_FIND
from pynetdicom.presentation import build_context
from pynetdicom.status import QR_FIND_SERVICE_CLASS_STATUS
from pynetdicom._globals import STATUS_PENDING

CX = build_context("1.2.840.10008.5.1.4.1.2.1.1", "1.2.840.10008.1.2"); CX.context_id = 1
DS = Dataset(); DS.PatientID = "1"
sc.encode = lambda ds, *a: b"\x00" * 8         # dataset encoding is not the subject here
shim.forkify(QR_FIND_SERVICE_CLASS_STATUS) if hasattr(shim, "forkify") else None

class FakeACSE:
    def is_aborted(self, *a): return False
    def is_release_requested(self): return False
class FakeDimse:
    def __init__(s): s.sent = []; s.cancel_req = {}
    def send_msg(s, rsp, cx_id): s.sent.append((rsp.Status, rsp.MessageIDBeingRespondedTo, cx_id, rsp.Identifier is not None))
class FakeAssoc:
    is_established = True
    def __init__(s, handler): s.acse = FakeACSE(); s.dimse = FakeDimse(); s.h = handler; s.ae = None
    def get_handlers(s, event): return (s.h, None)
    def _abort_nonblocking(s, *a): pass
    def _abort_blocking(s, *a): pass

class Boom(Exception): pass

def find_scp(yields: List[Tuple[int, bool]], raise_at: int, msg_id: int) -> bool:
    """
    pre: len(yields) <= 2
    pre: all(0 <= s <= 65535 for s, d in yields)
    pre: -1 <= raise_at <= 2
    pre: 0 <= msg_id <= 65535
    post: _ == True
    """
    def handler(event):
        for i, (s, d) in enumerate(yields):
            if i == raise_at: raise Boom()
            yield s, (DS if d else None)
        if raise_at == len(yields): raise Boom()
    assoc = FakeAssoc(handler)
    svc = QueryRetrieveServiceClass(assoc)
    svc.statuses = QR_FIND_SERVICE_CLASS_STATUS
    req = C_FIND(); req.MessageID = msg_id; req.AffectedSOPClassUID = CX.abstract_syntax; req.Identifier = BytesIO(b"\x00")
    svc._c_find_scp(req, CX)
    sent = assoc.dimse.sent
    if not sent: return False
    # all carry the message id and context
    for st, mid, cx, has_id in sent:
        if mid != msg_id or cx != 1: return False
    # exactly one final response, at the end
    def is_final(st): return not (st in (0xFF00, 0xFF01))
    finals = [i for i, (st, _, _, _) in enumerate(sent) if is_final(st)]
    warn_ok = [i for i in finals[:-1] if sent[i][0] == 0xB001]
    return len(finals) >= 1 and finals[-1] == len(sent) - 1 and len(finals) - len(warn_ok) == 1
