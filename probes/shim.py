"""Replace the pre-bound Struct(...).pack/unpack globals of pdu/pdu_items with
wrappers around struct.pack/unpack (which CrossHair models symbolically)."""
import struct
from pynetdicom import pdu, pdu_items
def _mk_unpack(fmt):
    def f(b): return struct.unpack(fmt, b)
    return f
def _mk_pack(fmt):
    def f(v): return struct.pack(fmt, v)
    return f
for m in (pdu, pdu_items):
    m.UNPACK_UCHAR = _mk_unpack("B"); m.UNPACK_UINT2 = _mk_unpack(">H"); m.UNPACK_UINT4 = _mk_unpack(">I")
    m.PACK_UCHAR = _mk_pack("B"); m.PACK_UINT2 = _mk_pack(">H"); m.PACK_UINT4 = _mk_pack(">I")

# CrossHair 0.0.110 runs getattr()/setattr()/hasattr() builtins under NoTracing,
# so @property bodies reached through them execute untraced and crash on
# symbolic values.  Attribute names in pynetdicom are always concrete: drop the
# patches so the real builtins run (property bodies are then traced normally).
from crosshair import core as _chcore
import crosshair.core_and_libs  # make sure registrations are done
for _b in (getattr, setattr, hasattr):
    _chcore._PATCH_REGISTRATIONS.pop(_b, None)

class ForkingDict(dict):
    """dict whose lookup by a (possibly symbolic) key forks per concrete key
    instead of producing a lazily-realised symbolic value."""
    def __getitem__(self, key):
        for k in dict.keys(self):
            if key == k:
                return dict.__getitem__(self, k)
        raise KeyError(key)
    def __contains__(self, key):
        for k in dict.keys(self):
            if key == k:
                return True
        return False
    def get(self, key, default=None):
        for k in dict.keys(self):
            if key == k:
                return dict.__getitem__(self, k)
        return default

_fd = ForkingDict(pdu_items.PDU_ITEM_TYPES)
pdu_items.PDU_ITEM_TYPES = _fd
pdu.PDU_ITEM_TYPES = _fd

class NullLogger:
    """logging is not the subject of any property: empty bodies (also keeps
    LogRecord's time.time() - symbolic under CrossHair - out of the path)."""
    def _noop(self, *a, **k): return None
    debug = info = warning = error = exception = critical = log = _noop
    def isEnabledFor(self, *a): return False
    def getEffectiveLevel(self): return 100

import sys as _sys
def silence_loggers():
    for name, mod in list(_sys.modules.items()):
        if name.startswith("pynetdicom") and hasattr(mod, "LOGGER"):
            mod.LOGGER = NullLogger()
silence_loggers()

class IntervalDict:
    """exact stand-in for a dict with int keys: maximal runs of consecutive keys with equal
    values become one (lo, hi, value) interval, so a symbolic key costs one fork per interval."""
    def __init__(self, d):
        self._iv = []
        for k in sorted(d):
            if self._iv and self._iv[-1][1] == k - 1 and self._iv[-1][2] == d[k]:
                self._iv[-1][1] = k
            else:
                self._iv.append([k, k, d[k]])
    def __contains__(self, key):
        for lo, hi, v in self._iv:
            if lo <= key and key <= hi:
                return True
        return False
    def __getitem__(self, key):
        for lo, hi, v in self._iv:
            if lo <= key and key <= hi:
                return v
        raise KeyError(key)

from crosshair.tracers import NoTracing as _NT
from crosshair.libimpl.builtinslib import SymbolicNumberAble as _SNA
_orig_format = _chcore._PATCH_REGISTRATIONS[format]
SENTINEL = "⟪SYMNUM⟫"
def _format_placeholder(obj, spec=""):
    with _NT():
        symnum = isinstance(obj, _SNA)
    if symnum:
        return SENTINEL
    return _orig_format(obj, spec)
_chcore._PATCH_REGISTRATIONS[format] = _format_placeholder
