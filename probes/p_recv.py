import shim, struct
from typing import List
from pynetdicom.transport import AssociationSocket
from pynetdicom.dul import DULServiceProvider
import queue

class FakeRawSocket:
    """peer byte stream `data`, delivered in chunks whose sizes are chosen by `cuts`
    (0 = peer closed)."""
    def __init__(s, data, cuts): s.data = data; s.pos = 0; s.cuts = cuts; s.i = 0
    def recv(s, bufsize):
        if s.i >= len(s.cuts): n = bufsize
        else: n = s.cuts[s.i]; s.i += 1
        if n > bufsize: n = bufsize
        out = s.data[s.pos:s.pos + n]
        s.pos += len(out)
        return out

class FakeAssoc:
    def get_handlers(s, e): return []

def mk_sock(raw):
    sock = AssociationSocket.__new__(AssociationSocket)
    sock.socket = raw; sock._is_connected = True
    return sock

def mk_dul(raw):
    d = DULServiceProvider.__new__(DULServiceProvider)
    d._assoc = FakeAssoc(); d.socket = mk_sock(raw)
    d.event_queue = queue.Queue(); d._recv_pdu = queue.Queue()
    return d

ABORT = b"\x07\x00\x00\x00\x00\x04\x00\x00\x02\x00"
REL = b"\x05\x00\x00\x00\x00\x04\x00\x00\x00\x00"

def split_independent(cuts: List[int], which: bool) -> bool:
    """
    pre: len(cuts) <= 4
    pre: all(1 <= c <= 10 for c in cuts)
    post: _ == True
    """
    data = ABORT if which else REL
    d = mk_dul(FakeRawSocket(data, cuts))
    d._read_pdu_data()
    ev = d.event_queue.get(False)
    return ev == ("Evt16" if which else "Evt12") and d._recv_pdu.qsize() == 1

def close_midway(cuts: List[int], closed_at: int) -> bool:
    """
    pre: len(cuts) <= 3
    pre: all(1 <= c <= 10 for c in cuts)
    pre: 0 <= closed_at < 10
    post: _ == True
    """
    d = mk_dul(FakeRawSocket(ABORT[:closed_at], cuts))
    d._read_pdu_data()
    ev = d.event_queue.get(False)
    return ev == "Evt17" and d._recv_pdu.qsize() == 0
