#!/bin/bash
# MANIFEST.setup_cmd: build the overlay venv (CrossHair + z3 on top of /venv's packages), offline.
set -e
cd "$(dirname "$0")"
if [ ! -x .venv/bin/python ] || ! .venv/bin/python -c "import crosshair, z3" 2>/dev/null; then
  rm -rf .venv
  /venv/bin/python -m venv .venv
  SP=$(.venv/bin/python -c "import sysconfig; print(sysconfig.get_paths()['purelib'])")
  printf '/venv/lib/python3.12/site-packages\n' > "$SP/verif_overlay.pth"
  PIP_NO_INDEX=1 .venv/bin/pip install -q --no-index --find-links /opt/veriftools/wheels crosshair-tool
fi
.venv/bin/python -c "import crosshair, z3; print('overlay ok: crosshair', crosshair.__version__, 'z3', z3.get_version_string())"
