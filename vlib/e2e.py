"""Runner prefix for end-to-end reproducers that open real sockets: a private network namespace when the
sandbox allows it (so fixed ports cannot clash with anything else running), plain interpreter otherwise."""
import os
import subprocess
import sys

from vlib import VERIF

_ISOPY = os.path.join(VERIF, "tools", "isopy")
_ok = None


def runner():
    global _ok
    if _ok is None:
        try:
            p = subprocess.run([_ISOPY, "-c", "print(1)"], capture_output=True, text=True, timeout=30)
            _ok = p.returncode == 0 and p.stdout.strip() == "1"
        except Exception:
            _ok = False
    return [_ISOPY] if _ok else [sys.executable]
