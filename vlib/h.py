"""Harness registry.  No CrossHair import here: the driver reads the registry in a plain
interpreter; only vlib.chrun (one subprocess per harness/shard) runs under CrossHair."""
import json
import os
from dataclasses import dataclass, field
from typing import Any, Callable, Dict, List, Optional, Sequence, Union

TIER = os.environ.get("VERIF_TIER", "quick")
if TIER not in ("quick", "thorough"):
    TIER = "quick"
THOROUGH = TIER == "thorough"
SHARD: Dict[str, Any] = json.loads(os.environ.get("VERIF_SHARD", "{}") or "{}")
# ids of known findings whose region is excluded by precondition in this process
EXCLUDED: List[str] = json.loads(os.environ.get("VERIF_EXCLUDE", "[]") or "[]")


def shard(name: str, default: Any = None) -> Any:
    return SHARD.get(name, default)


def tier(quick: Any, thorough: Any) -> Any:
    return thorough if THOROUGH else quick


def excluded(finding_id: str) -> bool:
    """True when the driver asked this process to leave the region of a *listed* known finding
    out of the search (so that any other violation of the same property is still reported)."""
    return finding_id in EXCLUDED


@dataclass
class Harness:
    prop: str
    fn: Callable
    name: str
    module: str
    shards: List[Dict[str, Any]]
    timeout: float            # CPU seconds per condition for this tier
    functions: List[str]      # real functions this harness executes symbolically (declared; measured list is added from replay)
    bounds: str               # the bound B of the claim, in words
    stubs: List[str]          # stubs / assumptions in force
    outside: str = ""
    twin: bool = True
    twin_timeout: float = 60.0
    findings: List[str] = field(default_factory=list)  # ids of known findings this harness can rediscover
    e2e: Optional[Callable] = None  # optional end-to-end reproducer: e2e(args, shard) -> (reproduced: bool, detail: str)


REGISTRY: Dict[str, Harness] = {}
THOROUGH_CAP = float(os.environ.get("VERIF_THOROUGH_CAP", "720"))


def harness(
    prop: str,
    *,
    shards: Union[None, Sequence[Dict[str, Any]], Callable[[], Sequence[Dict[str, Any]]]] = None,
    timeout: Sequence[float] = (60, 600),
    functions: Sequence[str] = (),
    bounds: str = "",
    stubs: Sequence[str] = (),
    outside: str = "",
    twin: bool = True,
    twin_timeout: float = 60.0,
    findings: Sequence[str] = (),
    e2e: Optional[Callable] = None,
    tiers: Sequence[str] = ("quick", "thorough"),
):
    def deco(fn):
        if TIER not in tiers:
            return fn
        sh = shards() if callable(shards) else shards
        REGISTRY[fn.__name__] = Harness(
            prop=prop,
            fn=fn,
            name=fn.__name__,
            module=fn.__module__,
            shards=[dict(s) for s in (sh or [{}])],
            # thorough: every condition is capped at THOROUGH_CAP CPU seconds so that the whole tier of a property stays
            # bounded (sum of budgets / cores); a condition that needs more is reported inconclusive, never as a pass
            timeout=float(min(timeout[1], THOROUGH_CAP) if THOROUGH else timeout[0]),
            functions=list(functions),
            bounds=bounds,
            stubs=list(stubs),
            outside=outside,
            twin=twin,
            twin_timeout=twin_timeout,
            findings=list(findings),
            e2e=e2e,
        )
        return fn

    return deco
