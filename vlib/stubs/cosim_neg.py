"""Co-simulation including association negotiation (extends vlib/stubs/cosim.py).

Both associations start idle (Sta1).  B is an acceptor whose connection has just been accepted
(Evt5 queued, exactly what `AssociationSocket.__init__(client_socket=...)` does); B's association
thread runs the real `Association.run_reactor` (wait for the A-ASSOCIATE indication, real
`ACSE._negotiate_as_acceptor`, then `_run_reactor`).  A is a requestor: a user thread calls the real
`Association.request()` (`dul.start()` suppressed) - real `ACSE._negotiate_as_requestor`, real
`AssociationSocket.connect` over the pipe socket; if the association is established A's association
thread then runs the real `run_reactor` (as `AE.associate` starts it).

Additionally replaced here (beyond cosim.py): `pynetdicom.transport.socket` by the fake socket
module of sock8.py (no name resolution in `AddressInformation`), and A's `AssociationSocket._ready`
by an event whose wait() suspends the calling simulated thread.
"""
import contextlib

import pynetdicom.transport as _tr
from pynetdicom import AE, build_context, evt
from pynetdicom._globals import MODE_ACCEPTOR, MODE_REQUESTOR
from pynetdicom.transport import AddressInformation

from vlib.stubs import cosim
from vlib.stubs.sock8 import FakeSocketModule


def _addr(host, port):
    a = AddressInformation.__new__(AddressInformation)
    a._addr, a.port, a.scope_id, a.flowinfo = host, port, 0, 0
    return a


class ReadyEvent:
    """`AssociationSocket._ready` stand-in."""

    def __init__(self, sim):
        self.sim, self.flag = sim, False

    def set(self):
        self.flag = True

    def clear(self):
        self.flag = False

    def is_set(self):
        return self.flag

    def wait(self, timeout=None):
        if not self.flag:
            self.sim.wait_until(lambda: self.flag, timed=False)
        return True


@contextlib.contextmanager
def installed():
    with cosim.installed():
        saved = _tr.socket
        _tr.socket = FakeSocketModule()
        try:
            yield
        finally:
            _tr.socket = saved


class NegSim(cosim.Sim):
    """reject=True: B requires its own called AE title and A calls a different one."""

    def __init__(self, schedule=(), fire_at=-1, budget=600, handlers_a=(), handlers_b=(), acse_timeout=30, reject=False):
        super().__init__(schedule, fire_at, budget, handlers_a, handlers_b, acse_timeout)
        ae_b = self.B.assoc.ae
        ae_b.require_called_aet = bool(reject)
        for side in (self.A, self.B):
            a = side.assoc
            a._accepted_cx = {}
            a.is_established = False
            a.dul.state_machine.current_state = "Sta1"
            a.requestor.address_info = _addr("127.0.0.1", 40000)
            a.acceptor.address_info = _addr("127.0.0.1", 104)
            a.dul.start = lambda: None
            side.request_done = False
        a = self.A.assoc
        cx = build_context(cosim.VERIFICATION, "1.2.840.10008.1.2")
        cx.context_id = 1
        a.requestor.requested_contexts = [cx]
        a.requestor.ae_title = "SCU"
        a.acceptor.ae_title = "WRONG" if reject else "SCP"
        a.requestor.maximum_length = 16382
        a.requestor.implementation_class_uid = ae_b.implementation_class_uid
        self.A.sock._is_connected = False
        self.A.sock._ready = ReadyEvent(self)
        self.A.raw.connect = lambda addr: None
        b = self.B.assoc
        b.acceptor.ae_title = "SCP"
        b.acceptor.maximum_length = 16382
        b.acceptor.implementation_class_uid = ae_b.implementation_class_uid
        b.acceptor.supported_contexts = [build_context(cosim.VERIFICATION, "1.2.840.10008.1.2")]
        b.dul.event_queue.put("Evt5")        # what AssociationSocket(client_socket=...) does for an accepted connection
        for side in (self.A, self.B):
            side.assoc.bind(evt.EVT_REQUESTED, side._record, ["EVT_REQUESTED"])
            side.assoc.bind(evt.EVT_ACCEPTED, side._record, ["EVT_ACCEPTED"])
        # association threads
        sa, sb = self.A, self.B

        def a_assoc():
            self.wait_until(lambda: sa.request_done, timed=False)
            if sa.assoc.is_established:
                sa.assoc.run_reactor()        # what AE.associate() starts after a successful request()

        def b_assoc():
            sb.assoc.run_reactor()

        self.A.assoc_thread.fn = a_assoc
        self.B.assoc_thread.fn = b_assoc

    def add_user(self, side_name, action, at=0):
        if action not in ("associate", "associate+release", "associate+abort"):
            return super().add_user(side_name, action, at)
        side = self.side(side_name)
        a = side.assoc

        def body():
            try:
                a.request()
            finally:
                side.request_done = True
            if action == "associate+release" and a.is_established:
                a.release()
            elif action == "associate+abort" and a.is_established:
                a.abort()

        t = cosim.SimThread(self, "%s.user%d:%s" % (side_name, len(self.threads) - 4, action), body)
        self.threads.append(t)
        self.pending_users.append((at, t))
        return t
