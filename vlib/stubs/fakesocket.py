"""FakeRawSocket / FakeSelect (DESIGN.md 4.2): the OS socket underneath pynetdicom's
`AssociationSocket`, for the framing properties (C02, C03).  No protocol logic.

Semantics (those of a connected blocking TCP socket as documented for Python's `socket`):

* the peer has written the byte string `data`;
* `recv(bufsize)` returns at least 1 and at most `bufsize` of the bytes not yet delivered; how many
  is chosen by the next entry of the (symbolic) list `cuts`, clamped to [1, bufsize] and to what
  is left - when `cuts` is used up everything that fits is delivered.  This models every way TCP
  may segment the stream.  Gaps *between* segments that are shorter than the socket timeout are
  invisible to `recv()` (it simply returns later), so they need no representation;
* when all of `data` has been delivered:
    - `closed` true  -> the peer performed an orderly shutdown: `recv` returns b"" (again and again);
    - `closed` false -> the peer is silent but connected: `recv` blocks.  With a socket timeout
      configured it raises `TimeoutError`; with `gettimeout() is None` it would block for ever,
      which is reported by raising `Hang` (never caught by pynetdicom: it is not an `Exception`
      subclass that pynetdicom handles - see below - so it reaches the harness);
* `reset_at` (optional): after that many bytes have been delivered `recv` raises
  `ConnectionResetError` (an `OSError`), modelling an abortive close.

`Hang` is a plain `Exception` subclass: pynetdicom's `_read_pdu_data` only catches
`(OSError, TimeoutError)` around `recv`, so a `Hang` propagates to the harness, which reports it
as a violation ("never hangs").  (Harnesses never intercept BaseExceptions - CrossHair steers
with them.)
"""


class Hang(Exception):
    """recv() would block for ever (socket has no timeout and the peer is silent but connected)."""


class FakeRawSocket:
    def __init__(self, data, cuts=(), closed=True, timeout=None, reset_at=None, size=None):
        """`size`: len(data) if the caller knows it concretely (a symbolic `bytes` has a symbolic length
        even when a precondition pins it; passing the concrete number keeps every offset concrete)."""
        self.data = data
        self.size = len(data) if size is None else size
        self.pos = 0
        self.cuts = cuts
        self.i = 0
        self.closed = closed
        self._timeout = timeout
        self.reset_at = reset_at
        self.recv_calls = 0
        self.recv_sizes = []
        self.shut = False
        self.was_closed = False

    # -- reading ------------------------------------------------------------------------------
    def pending(self):
        return self.size - self.pos

    def recv(self, bufsize, flags=0):
        self.recv_calls += 1
        self.recv_sizes.append(bufsize)
        if self.was_closed:
            raise OSError(9, "Bad file descriptor")
        if self.reset_at is not None and self.pos >= self.reset_at:
            raise ConnectionResetError(104, "Connection reset by peer")
        left = self.size - self.pos
        if left <= 0:
            if self.closed:
                return b""
            if self._timeout is None:
                raise Hang("recv() on a socket without timeout while the peer is silent")
            raise TimeoutError("timed out")
        n = bufsize
        if self.i < len(self.cuts):
            n = self.cuts[self.i]
            self.i += 1
            if n < 1:
                n = 1
            if n > bufsize:
                n = bufsize
        if n > left:
            n = left
        if self.reset_at is not None and self.pos + n > self.reset_at:
            n = self.reset_at - self.pos
        out = self.data[self.pos:self.pos + n]
        self.pos += n
        return out

    # -- the rest of the socket API used by AssociationSocket ------------------------------------
    def settimeout(self, t):
        self._timeout = t

    def gettimeout(self):
        return self._timeout

    def shutdown(self, how):
        self.shut = True

    def close(self):
        self.was_closed = True

    def fileno(self):
        return 99

    def send(self, b):
        return len(b)


class FakeTLSSocket(FakeRawSocket):
    """An `ssl.SSLSocket` as seen by AssociationSocket: the peer's byte string arrives in TLS records (sizes =
    `cuts`, then one record with the rest).  `recv(n)` hands out decrypted bytes of the current record (reading and
    decrypting the next record from TCP when the buffer is empty); `pending()` is the number of decrypted bytes
    still buffered; `select` on the descriptor only sees TCP: it reports readable iff a further record (or the
    close) is waiting - NOT when the only unread bytes are already decrypted and buffered (Python docs, ssl:
    "SSLSocket.pending() ... select() may report nothing to read although data is buffered")."""

    def __init__(self, data, cuts=(), closed=True, timeout=None, size=None):
        FakeRawSocket.__init__(self, data, (), closed=closed, timeout=timeout, size=size)
        self.records = cuts
        self.r = 0
        self.buf_end = 0          # end offset of the decrypted record currently buffered

    def pending(self):            # ssl.SSLSocket.pending()
        return self.buf_end - self.pos

    def tcp_readable(self):
        return self.buf_end < self.size or self.closed

    def recv(self, bufsize, flags=0):
        self.recv_calls += 1
        if self.was_closed:
            raise OSError(9, "Bad file descriptor")
        if self.pos >= self.buf_end:
            if self.buf_end >= self.size:
                if self.closed:
                    return b""
                if self._timeout is None:
                    raise Hang("recv() on a TLS socket without timeout while the peer is silent")
                raise TimeoutError("timed out")
            n = self.size - self.buf_end
            if self.r < len(self.records):
                n = self.records[self.r]
                self.r += 1
                if n < 1:
                    n = 1
                if n > self.size - self.buf_end:
                    n = self.size - self.buf_end
            self.buf_end += n
        k = self.buf_end - self.pos
        if k > bufsize:
            k = bufsize
        out = self.data[self.pos:self.pos + k]
        self.pos += k
        return out


class FakeSSLModule:
    """`ssl` as referenced by pynetdicom.transport: isinstance(sock, ssl.SSLSocket) is true for FakeTLSSocket."""
    SSLSocket = FakeTLSSocket

    class SSLError(OSError):
        pass


class FakeSelect:
    """Stand-in for the `select` module inside pynetdicom.transport: a socket is readable iff
    bytes are pending or the peer has closed (then recv() returns b"" at once)."""

    error = OSError

    @staticmethod
    def select(rlist, wlist, xlist, timeout=None):
        ready = []
        for s in rlist:
            if s.was_closed:
                raise ValueError("file descriptor cannot be a negative integer (-1)")
            if isinstance(s, FakeTLSSocket):
                if s.tcp_readable():
                    ready.append(s)
            elif s.pending() > 0 or s.closed or s.reset_at is not None:
                ready.append(s)
        return ready, [], []


# -------------------------------------------------------------------------------------------------
# a DUL service provider around a fake socket, built directly (no thread start, no AE, no OS socket)
# -------------------------------------------------------------------------------------------------
class StubAssoc:
    """The association as seen from DULServiceProvider / AssociationSocket in the receive path:
    no handlers bound (evt.trigger returns at once), a network timeout is configured."""

    network_timeout = 30

    def __init__(self):
        self.dul = None

    def get_handlers(self, event):
        return []


class StubStateMachine:
    def __init__(self, state="Sta6"):
        self.current_state = state


def make_provider(raw, state="Sta6"):
    """Real `DULServiceProvider` + real `AssociationSocket` over the fake raw socket `raw`.
    Only the attributes the receive path touches are set (`__init__` would start from a real
    Association and create timers / a Thread)."""
    import queue

    from pynetdicom.dul import DULServiceProvider
    from pynetdicom.transport import AssociationSocket

    assoc = StubAssoc()
    d = DULServiceProvider.__new__(DULServiceProvider)
    d._assoc = assoc
    d.event_queue = queue.Queue()
    d.to_provider_queue = queue.Queue()
    d.to_user_queue = queue.Queue()
    d._recv_pdu = queue.Queue()
    d.state_machine = StubStateMachine(state)
    d._kill_thread = False
    assoc.dul = d
    sock = AssociationSocket.__new__(AssociationSocket)
    sock._assoc = assoc
    sock.socket = raw
    sock._is_connected = True
    sock._tls_args = None
    sock.select_timeout = 0.5
    d.socket = sock
    return d


def drain(q):
    out = []
    while True:
        try:
            out.append(q.get(False))
        except Exception:
            return out
