"""`PyBytesIO` - an `io.BytesIO` subclass that keeps its content in an ordinary Python `bytes` value.

`io.BytesIO` is C code that CrossHair does not model: writing symbolic bytes into it realises every
byte.  pynetdicom only uses `write`, `getvalue`, `seek`, `tell`, `read` on its message buffers, all of
which are re-implemented here in Python so that symbolic content stays symbolic.  It *is* a BytesIO
(`isinstance` checks of the DIMSE primitive setters pass) and, like `io.BytesIO`, it defines neither
`__bool__` nor `__len__`: an empty buffer is truthy, exactly as the real class.
"""
import io


class PyBytesIO(io.BytesIO):
    def __init__(self, initial=b""):
        super().__init__()
        self._val = initial
        self._pos = 0

    def getvalue(self):
        return self._val

    def write(self, b):
        n = len(b)
        if self._pos == len(self._val):
            self._val = self._val + b
        else:
            pad = b"\x00" * max(0, self._pos - len(self._val))
            self._val = (self._val + pad)[: self._pos] + b + self._val[self._pos + n:]
        self._pos = self._pos + n
        return n

    def tell(self):
        return self._pos

    def seek(self, off, whence=0):
        if whence == 0:
            p = off
        elif whence == 1:
            p = self._pos + off
        else:
            p = len(self._val) + off
        if p < 0:
            raise ValueError("negative seek value %r" % (p,))
        self._pos = p
        return p

    def read(self, size=-1):
        if size is None or size < 0:
            out = self._val[self._pos:]
        else:
            out = self._val[self._pos: self._pos + size]
        self._pos = self._pos + len(out)
        return out

    def getbuffer(self):
        return memoryview(bytes(self._val))

    def close(self):
        return None

    @property
    def closed(self):
        return False
