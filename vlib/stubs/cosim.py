"""Single-thread co-simulation of two real pynetdicom Associations (DESIGN.md sections 4.7 / 4.8).

Real code on both sides: `Association` (user calls release()/abort()/kill() and the association
reactor `_run_reactor`), `ACSE`, `DULServiceProvider.run_reactor`, `StateMachine` + all actions,
`AssociationSocket`, the real `queue.Queue`s and `Timer`s.  No OS thread is ever started: every
pynetdicom thread (A.dul, A.assoc, B.dul, B.assoc, and each user call) is a *greenlet* (a coroutine
of the one harness thread; measured: CrossHair traces through greenlet switches, finds seeded
counterexamples and confirms), and a symbolic schedule decides which one runs next.  Replaced are
only the places where a thread would block or touch the OS:

* the OS socket: `PipeSocket` = one end of a pipe pair (`send` appends to the peer's receive
  buffer, `shutdown/close` propagates as end-of-stream); `select` = "readable iff bytes pending or
  the peer closed";
* `dul.to_user_queue`: `PumpQueue`, a `queue.Queue` subclass whose *blocking* `get` suspends the
  calling thread until an item is there or its timeout fires;
* the module attribute `time` of pynetdicom.association / pynetdicom.dul: `PumpTime`, whose `sleep`
  suspends the calling thread (this is what lets `kill()`, `stop_dul()` and `release()`'s pause
  loop progress); pynetdicom.timer reads the simulation clock (integer ticks);
* `assoc._dul_ready` (`IterGate`): `is_set()` is called at the top of every iteration of the real
  `DULServiceProvider.run_reactor` loop - the provider thread is suspended there, so one scheduler
  step = one iteration; `assoc._reactor_checkpoint` (`Checkpoint`): `wait()` suspends the association
  reactor once per iteration and for as long as the event is cleared;
* `DULServiceProvider.is_alive`: true until that provider's `run_reactor` has returned.

Scheduling points are exactly: the top of a provider iteration, `_reactor_checkpoint.wait()`, a
blocking `Queue.get`, and `time.sleep` (other than `_run_reactor`'s own 1 ms delay).  The code
between two scheduling points of a thread is atomic (granularity assumption); OS pre-emption
elsewhere is outside every claim.

A thread whose last run changed nothing observable (an idle provider iteration, a spin-wait that
found its condition still false) is not run again until something changes; when nothing can run,
pending *timed* waits fire (only time passes); when nothing can run and no timed wait is pending,
the simulation is quiescent - threads still unfinished then never finish.

No protocol logic lives in this file.
"""
import contextlib
import queue
import threading
import time as _real_time

import greenlet

import pynetdicom.association as _am
import pynetdicom.dul as _dm
import pynetdicom.timer as _tm
import pynetdicom.transport as _tr
from pynetdicom import AE, _config, build_context, evt
from pynetdicom._globals import MODE_ACCEPTOR, MODE_REQUESTOR
from pynetdicom.association import Association
from pynetdicom.transport import AssociationSocket

VERIFICATION = "1.2.840.10008.1.1"
REACTOR_DELAY = 0.001     # Association._run_reactor's own per-iteration sleep: not a scheduling point


# ---------------------------------------------------------------------------------------------
# the wire
# ---------------------------------------------------------------------------------------------
class Pipe:
    """One direction of a TCP connection."""

    def __init__(self):
        self.buf = b""
        self.closed = False      # the writer has shut down / closed: end of stream after buf
        self.log = []            # every byte string written, in order


class WouldBlock(Exception):
    """recv() on an empty pipe whose writer is open (never happens: PDUs are written whole)."""


class PipeSocket:
    def __init__(self, rx, tx):
        self.rx, self.tx = rx, tx
        self.timeout = None
        self.closed = False      # closed locally

    def recv(self, n):
        if self.closed:
            raise OSError(9, "Bad file descriptor")
        if not self.rx.buf:
            if self.rx.closed:
                return b""
            raise WouldBlock()
        out = self.rx.buf[:n]
        self.rx.buf = self.rx.buf[n:]
        return out

    def send(self, b):
        if self.closed:
            raise OSError(9, "Bad file descriptor")
        b = bytes(b)
        self.tx.log.append(b)
        # bytes written after the peer has closed its end are accepted by the local TCP stack
        # and discarded by the peer's
        self.tx.buf += b
        return len(b)

    def shutdown(self, how):
        if self.closed:
            raise OSError(9, "Bad file descriptor")
        self.tx.closed = True

    def close(self):
        self.tx.closed = True
        self.closed = True

    def settimeout(self, t):
        self.timeout = t

    def gettimeout(self):
        return self.timeout

    def getsockname(self):
        return ("127.0.0.1", 40000)


class PipeSelect:
    error = OSError

    @staticmethod
    def select(r, w, x, timeout=None):
        out = []
        for s in r:
            if s.closed:
                raise ValueError("file descriptor cannot be a negative integer (-1)")
            if s.rx.buf or s.rx.closed:
                out.append(s)
        return out, [], []


# ---------------------------------------------------------------------------------------------
# blocking points
# ---------------------------------------------------------------------------------------------
class PumpTime:
    """Stand-in for the `time` module inside association.py / dul.py / timer.py."""

    def __init__(self, noyield=()):
        self.sim = None
        self.noyield = tuple(noyield)

    def sleep(self, x):
        sim = self.sim
        if sim is None or x in self.noyield:
            return None
        cur = sim.current
        if cur is not None and cur.is_provider:
            return None                # the provider loop's own delay: it is suspended at its loop top anyway
        sim.pause()
        return None

    def monotonic(self):
        return self.sim.clock if self.sim is not None else 0

    def time(self):
        return self.monotonic()

    def perf_counter(self):
        return self.monotonic()

    def __getattr__(self, name):
        return getattr(_real_time, name)


class PumpQueue(queue.Queue):
    def __init__(self, sim):
        super().__init__()
        self.sim = sim

    def get(self, block=True, timeout=None):
        if block and self.empty():
            ok = self.sim.wait_until(lambda: not self.empty(), timed=timeout is not None)
            if not ok:
                raise queue.Empty          # the timeout fired
        return super().get(block=False)


class IterGate:
    """`assoc._dul_ready` stub: suspends the provider thread at the top of every reactor iteration."""

    def __init__(self, sim):
        self.sim = sim

    def is_set(self):
        self.sim.pause()
        return True

    def set(self):
        pass

    def clear(self):
        pass

    def wait(self, *a):
        return True


class Checkpoint:
    """`assoc._reactor_checkpoint` stub (a threading.Event in the real code)."""

    def __init__(self, sim):
        self.flag = True
        self.sim = sim

    def set(self):
        self.flag = True

    def clear(self):
        self.flag = False

    def is_set(self):
        return self.flag

    def wait(self, *a):
        # the association reactor is suspended here once per iteration, and for as long as the
        # event is cleared; user threads that call wait() (none do) would simply block
        self.sim.pause()
        if not self.flag:
            self.sim.wait_until(lambda: self.flag, timed=False)
        return True


# ---------------------------------------------------------------------------------------------
# threads
# ---------------------------------------------------------------------------------------------
class SimThread:
    def __init__(self, sim, name, fn, is_provider=False):
        self.sim, self.name, self.fn = sim, name, fn
        self.is_provider = is_provider
        self.glet = greenlet.greenlet(self._body)
        self.started = False
        self.done = False
        self.crash = None
        self.waiting = None        # predicate the thread is blocked on (None = runnable)
        self.timed = False
        self.timed_out = False
        self.idle_version = -1     # version of the world in which the last run changed nothing

    def _body(self):
        try:
            self.fn()
        except Exception as exc:   # an unhandled exception ends a Python thread
            self.crash = exc
        self.done = True

    def where(self):
        """The scheduling point the thread is suspended at (code objects and instruction offsets of its stack)."""
        f = self.glet.gr_frame
        if f is None:
            return None
        out = []
        while f is not None:
            out.append((id(f.f_code), f.f_lasti))
            f = f.f_back
        return tuple(out)

    def ready(self):
        if self.done:
            return False
        if self.waiting is not None:
            return bool(self.waiting())
        return self.idle_version != self.sim.version


class Side:
    def __init__(self, sim, name, ae, mode, rx, tx, handlers=()):
        self.sim, self.name = sim, name
        self.assoc = a = Association(ae, mode)
        self.raw = PipeSocket(rx, tx)
        sock = AssociationSocket.__new__(AssociationSocket)
        sock._assoc = a
        sock.socket = self.raw
        sock._is_connected = True
        sock._tls_args = None
        sock.select_timeout = 0.5
        sock._ready = threading.Event()
        sock._ready.set()
        self.sock = sock
        a.dul.socket = sock
        a.dul.to_user_queue = PumpQueue(sim)
        a.dul._run_loop_delay = 0.002
        a._dul_ready = IterGate(sim)
        a._reactor_checkpoint = Checkpoint(sim)
        self.events = []
        for e in (evt.EVT_RELEASED, evt.EVT_ABORTED, evt.EVT_REJECTED, evt.EVT_ESTABLISHED, evt.EVT_CONN_CLOSE):
            a.bind(e, self._record, [e.name])
        for h in handlers:
            a.bind(*h)
        self.dul_thread = SimThread(sim, name + ".dul", a.dul.run_reactor, is_provider=True)
        self.assoc_thread = SimThread(sim, name + ".assoc", a._run_reactor)
        a.dul.is_alive = lambda: not self.dul_thread.done

    def _record(self, event, name):
        self.events.append(name)

    def terminal_events(self):
        return [e for e in self.events if e in ("EVT_RELEASED", "EVT_ABORTED", "EVT_REJECTED")]

    def state(self):
        return self.assoc.dul.state_machine.current_state

    def signature(self):
        a, d = self.assoc, self.assoc.dul
        return (d.state_machine.current_state, d.to_user_queue.qsize(), d.to_provider_queue.qsize(), d.event_queue.qsize(),
                d._recv_pdu.qsize(), a.dimse.msg_queue.qsize(), a.is_established, a.is_released, a.is_aborted, a.is_rejected,
                a._kill, a._is_paused, a._sent_abort, a._sent_release, d._kill_thread, a._reactor_checkpoint.flag,
                self.raw.closed, self.sock.socket is None, self.sock._is_connected,
                d.artim_timer._start_time, d.artim_timer._end_time, len(self.events))


_assoc_time = PumpTime(noyield=(REACTOR_DELAY,))
_dul_time = PumpTime()
_timer_time = PumpTime()


@contextlib.contextmanager
def installed():
    """Patch the module attributes for the duration of one simulation (and restore them).
    Usage: `with installed(): sim = Sim(...); ...; sim.close()`"""
    saved = (_am.time, _dm.time, _tm.time, _tr.select, _config.LOG_HANDLER_LEVEL)
    _am.time, _dm.time, _tm.time, _tr.select = _assoc_time, _dul_time, _timer_time, PipeSelect
    _config.LOG_HANDLER_LEVEL = "none"
    try:
        yield
    finally:
        _am.time, _dm.time, _tm.time, _tr.select, _config.LOG_HANDLER_LEVEL = saved
        sim = _assoc_time.sim
        _assoc_time.sim = _dul_time.sim = _timer_time.sim = None
        if sim is not None:
            sim.close()


class Sim:
    """Two established associations A (requestor) and B (acceptor) joined by a pipe pair.

    Threads, in this order: 0 A.dul, 1 B.dul, 2 A.assoc, 3 B.assoc, 4.. user calls in the order of
    `add_user`.

    schedule     list of ints; entry i names the thread to run at the i-th scheduler step; if that
                 thread cannot run, and after the schedule is used up, ready threads take turns
    fire_at      step number at which the timeout of a pending timed wait (ACSE timeout) fires although other
                 threads could still run (a timeout racing the peer's answer); -1 = timeouts fire only when
                 nothing else can run
    budget       total number of scheduler steps
    """

    def __init__(self, schedule=(), fire_at=-1, budget=400, handlers_a=(), handlers_b=(), acse_timeout=30):
        self.schedule = list(schedule)
        self.fire_at = fire_at
        self.fired = []           # names of threads whose timed wait timed out
        self.pos = 0
        self.budget = budget
        self.nsteps = 0
        self.rr = 0
        self.clock = 0
        self.version = 0
        self.trace = []
        self.current = None
        self.closed = False
        self.main = greenlet.getcurrent()
        _assoc_time.sim = _dul_time.sim = _timer_time.sim = self
        ae = AE()
        ae.acse_timeout = acse_timeout
        ae.dimse_timeout = acse_timeout
        ae.network_timeout = None
        ae.add_supported_context(VERIFICATION)
        self.ab, self.ba = Pipe(), Pipe()
        self.A = Side(self, "A", ae, MODE_REQUESTOR, self.ba, self.ab, handlers_a)
        self.B = Side(self, "B", ae, MODE_ACCEPTOR, self.ab, self.ba, handlers_b)
        for side in (self.A, self.B):
            a = side.assoc
            cx = build_context(VERIFICATION, "1.2.840.10008.1.2")
            cx.context_id, cx.result, cx._as_scu, cx._as_scp = 1, 0, True, True
            a._accepted_cx = {1: cx}
            a.is_established = True
            a._started_dul = True
            a.dul.state_machine.current_state = "Sta6"
            addr = type("Addr", (), {"as_tuple": ("127.0.0.1", 104)})()
            a.acceptor.address_info = a.requestor.address_info = addr
        self.threads = [self.A.dul_thread, self.B.dul_thread, self.A.assoc_thread, self.B.assoc_thread]
        self.pending_users = []   # (start step, SimThread)
        self._sig = None

    def side(self, name):
        return self.A if name == "A" else self.B

    # user calls ------------------------------------------------------------------------------
    def add_user(self, side_name, action, at=0):
        """A user thread of side `side_name` that performs `action` once the step counter reaches `at`."""
        side = self.side(side_name)
        a = side.assoc

        def body():
            if action == "release":
                a.release()
            elif action == "abort":
                a.abort()
            elif action == "abort2":
                a.abort()
                a.abort()
            elif action == "kill":
                a.kill()
            elif action == "drop":
                # the network loses the connection: end-of-stream in both directions, no A-ABORT
                self.ab.closed = self.ba.closed = True
            else:
                raise ValueError(action)

        t = SimThread(self, "%s.user%d:%s" % (side_name, len(self.threads) - 4, action), body)
        self.threads.append(t)
        self.pending_users.append((at, t))
        return t

    # called from inside simulated threads ----------------------------------------------------------
    def pause(self):
        """Scheduling point of the current thread (it stays runnable)."""
        if greenlet.getcurrent() is self.main:
            return                     # real code called from the harness itself (set-up): no scheduling
        self.main.switch()

    def wait_until(self, pred, timed):
        """Block the current thread until pred() holds; False if its timeout fired first."""
        t = self.current
        if greenlet.getcurrent() is self.main or t is None:
            if pred():
                return True
            if timed:
                return False
            raise RuntimeError("the harness itself would block for ever")
        t.waiting, t.timed, t.timed_out = pred, timed, False
        self.main.switch()
        t.waiting = None
        return not t.timed_out

    # scheduling ------------------------------------------------------------------------------
    def signature(self):
        return (len(self.ab.buf), self.ab.closed, len(self.ba.buf), self.ba.closed, self.clock,
                self.A.signature(), self.B.signature(), tuple(t.done for t in self.threads))

    def _run(self, t):
        before = self._sig if self._sig is not None else self.signature()
        where = t.where()
        self.current = t
        self.trace.append(t.name)
        t.started = True
        t.glet.switch()
        self.current = None
        after = self.signature()
        self._sig = after
        if after != before:
            self.version += 1
        elif t.waiting is None and not t.done and where is not None and t.where() == where:
            # back at the same scheduling point with nothing changed: a poll that found nothing to do
            t.idle_version = self.version

    def step(self):
        """Run one thread up to its next scheduling point.  False = quiescent or budget used up."""
        if self.budget <= 0:
            return False
        self.budget -= 1
        self.nsteps += 1
        # user calls whose time has come start now
        for i, (at, t) in enumerate(self.pending_users):
            if self.nsteps > at:
                self.pending_users.pop(i)
                self._run(t)
                return True
        want = None
        if self.pos < len(self.schedule):
            want = self.schedule[self.pos]
            self.pos += 1
        fire = self.nsteps == self.fire_at
        if fire:
            timed = [t for t in self.threads if t.started and not t.done and t.waiting is not None and t.timed
                     and not t.waiting()]
            if timed:
                pick = timed[0]
                for i, t in enumerate(self.threads):
                    if want == i and t in timed:
                        pick = t
                self._timeout(pick)
                return True
        started = [t for t in self.threads if t not in [p[1] for p in self.pending_users]]
        ready = [t for t in started if t.ready()]
        if not ready:
            for t in started:
                if not t.done and t.waiting is not None and t.timed:
                    self._timeout(t)     # nothing else can run: only time passes
                    return True
            if self.pending_users:
                self.nsteps = max(self.nsteps, min(p[0] for p in self.pending_users))
                return True
            return False
        chosen = None
        if want is not None:
            for i, t in enumerate(self.threads):
                if want == i and t in ready:
                    chosen = t
        if chosen is None:
            chosen = ready[self.rr % len(ready)]
            self.rr += 1
        self._run(chosen)
        return True

    def _timeout(self, t):
        t.timed_out = True
        t.waiting = lambda: True
        self.fired.append(t.name)
        self.trace.append("timeout:" + t.name)
        self._run(t)

    def finished(self):
        return all(t.done for t in self.threads) and not self.pending_users

    def drain(self):
        """Let every thread run until all have finished (or nothing can run / budget used up)."""
        while not self.finished():
            if not self.step():
                break
        return self.finished()

    def close(self):
        """Discard suspended threads (end of one harness execution)."""
        if self.closed:
            return
        self.closed = True
        for t in self.threads:
            g = t.glet
            if g and not g.dead:
                try:
                    g.throw(greenlet.GreenletExit)
                except Exception:
                    pass
