"""LoopbackWire for C16 (DESIGN.md section 4.4): two *real* `Association` objects, threads never started,
joined at the `dul.send_pdu` boundary.

A P-DATA primitive that one side's real `DIMSEServiceProvider.send_msg` hands to `dul.send_pdu` is
  1. recorded (context id, control header byte, payload) - this is the observation point "what was sent",
  2. converted to bytes by the real `P_DATA_TF` encoder, decoded by the real `P_DATA_TF` decoder,
  3. given to the other side's real `DIMSEServiceProvider.receive_primitive` - synchronously and in order.
The upper-layer state machine, TCP, timers and threads are not in this loop (C03-C05, C08 cover them).

Also here: a table that builds one valid pynetdicom primitive for each of the 23 DIMSE messages (the
parameter *names* are PS3.7's, the values are arbitrary legal ones), and the replacement of the three
places where `receive_primitive`/`send_*` would touch threads or block.
"""
import io
import queue

from pynetdicom import AE, build_context
from pynetdicom import dimse as dimse_mod
from pynetdicom import dimse_messages as dm
from pynetdicom import dimse_primitives as prims
from pynetdicom._globals import MODE_ACCEPTOR, MODE_REQUESTOR
from pynetdicom.association import Association
from pynetdicom.pdu import P_DATA_TF

from vlib.stubs.pybuf import PyBytesIO

IMPLICIT_LE = "1.2.840.10008.1.2"
_MISSING = object()


class Wire:
    """`dul` stand-in of one side: delivers to the peer's real DIMSE provider, records what is sent"""

    def __init__(self, name):
        self.name = name
        self.peer_assoc = None
        self.pdvs = []            # (context id, control header byte, payload bytes) in sending order
        self.n_pdus = 0
        self.event_queue = queue.Queue()   # receive_primitive puts "Evt19" here for an invalid message
        self.through_bytes = True

    # --- the part of DULServiceProvider the DIMSE layer uses --------------------------------------
    def send_pdu(self, primitive):
        self.n_pdus += 1
        for cid, data in primitive.presentation_data_value_list:
            self.pdvs.append((cid, data[0], data[1:]))
        if self.through_bytes:
            wire_bytes = P_DATA_TF(primitive).encode()
            back = P_DATA_TF()
            back.decode(wire_bytes)
            primitive = back.to_primitive()
        self.peer_assoc.dimse.receive_primitive(primitive)

    def peek_next_pdu(self):
        return None

    def receive_pdu(self, wait=False, timeout=None):
        return None

    def is_alive(self):
        return True

    # --- observations ---------------------------------------------------------------------------
    def command_bytes(self):
        """the encoded command set as sent (payload of the PDVs whose control header has bit 0 set)"""
        out = b""
        for cid, ctrl, payload in self.pdvs:
            if ctrl & 1:
                out = out + payload
        return out

    def data_set_pdvs(self):
        return [p for p in self.pdvs if not (p[1] & 1)]

    def data_set_bytes(self):
        out = b""
        for cid, ctrl, payload in self.data_set_pdvs():
            out = out + payload
        return out

    def well_formed(self):
        """control headers are 01* 03 (00* 02)? and one context id throughout (PS3.8 Annex E)"""
        ctrls = [p[1] for p in self.pdvs]
        i = 0
        while i < len(ctrls) and ctrls[i] == 1:
            i += 1
        if i >= len(ctrls) or ctrls[i] != 3:
            return False
        i += 1
        if i < len(ctrls):
            while i < len(ctrls) and ctrls[i] == 0:
                i += 1
            if i != len(ctrls) - 1 or ctrls[i] != 2:
                return False
        return len({p[0] for p in self.pdvs}) == 1


class _Thread:
    def __init__(self, log, target=None, args=(), kwargs=None, **kw):
        self.log, self.target, self.args = log, target, args

    def start(self):
        self.log.append(self.args)


class FakeThreading:
    """`threading` stand-in for pynetdicom.dimse: N-EVENT-REPORT requests are served on a new thread;
    here the hand-over to the service layer is recorded instead of started"""

    def __init__(self):
        self.started = []

    def Thread(self, *a, **k):
        return _Thread(self.started, *a, **k)


class NoWaitQueue(queue.Queue):
    """queue.Queue whose get() never waits and never reads the clock: an empty queue is `queue.Empty` at once
    (= DIMSE timeout 0).  `Queue.get(timeout=...)` calls time.monotonic(), which is symbolic under CrossHair."""

    def get(self, block=True, timeout=None):
        if not self.queue:
            raise queue.Empty
        return self.queue.popleft()


class Loopback:
    """two real Associations `a` (requestor) and `b` (acceptor) with the same accepted presentation
    contexts, joined by two Wires.  Build it inside `with untraced():`."""

    def __init__(self, contexts, max_pdu=46, dimse_timeout=0):
        """contexts: list of (context id, abstract syntax, scu_role, scp_role) as seen by the requestor"""
        self.ae = AE()
        self.ae.dimse_timeout = dimse_timeout
        self.a = Association(self.ae, MODE_REQUESTOR)
        self.b = Association(self.ae, MODE_ACCEPTOR)
        self.wire_ab = Wire("a->b")
        self.wire_ba = Wire("b->a")
        self.wire_ab.peer_assoc = self.b
        self.wire_ba.peer_assoc = self.a
        self.a.dul = self.wire_ab
        self.b.dul = self.wire_ba
        self.aborted = []
        for assoc, who in ((self.a, "a"), (self.b, "b")):
            assoc.requestor.maximum_length = max_pdu
            assoc.acceptor.maximum_length = max_pdu
            assoc.is_established = True
            assoc._is_paused = True          # send_* spin until the reactor thread is paused; there is no thread
            # events.trigger() rebinds assoc.abort to _abort_(non)blocking after every event: stub all three
            rec = (lambda block=True, who=who: self.aborted.append(who))
            assoc.abort = assoc._abort_blocking = assoc._abort_nonblocking = rec
            assoc.acse.is_aborted = (lambda *x: False)
            assoc.dimse.msg_queue = NoWaitQueue()
            cxs = {}
            for cid, abstract, scu, scp in contexts:
                cx = build_context(abstract, IMPLICIT_LE)
                cx.context_id = cid
                cx.result = 0
                # the acceptor plays the opposite roles
                cx._as_scu, cx._as_scp = (scu, scp) if assoc is self.a else (scp, scu)
                cxs[cid] = cx
            assoc._accepted_cx = cxs
        self.threads = FakeThreading()
        self._saved = []

    # module-level replacements, to be used as `with lb:` around the traced part of a harness
    def __enter__(self):
        for mod, name, val in ((dm, "BytesIO", PyBytesIO), (dimse_mod, "BytesIO", PyBytesIO),
                               (dimse_mod, "threading", self.threads)):
            self._saved.append((mod, name, mod.__dict__.get(name, _MISSING)))
            setattr(mod, name, val)
        return self

    def __exit__(self, *exc):
        for mod, name, old in reversed(self._saved):
            if old is _MISSING:
                delattr(mod, name)
            else:
                setattr(mod, name, old)
        self._saved = []
        return False

    @staticmethod
    def delivered(assoc, threads):
        """what the receiving side's DIMSE provider handed upwards: list of (context id, primitive)"""
        out = list(assoc.dimse.msg_queue.queue)
        out += [(None, p) for p in assoc.dimse.cancel_req.values()]
        out += [(args[1], args[0]) for args in threads.started]
        return out


# --------------------------------------------------------------------------------------------------
# one valid primitive per DIMSE message
# --------------------------------------------------------------------------------------------------
_CT = "1.2.840.10008.5.1.4.1.1.2"
_PR_FIND = "1.2.840.10008.5.1.4.1.2.1.1"
_PR_MOVE = "1.2.840.10008.5.1.4.1.2.1.2"
_PR_GET = "1.2.840.10008.5.1.4.1.2.1.3"
_VERIF = "1.2.840.10008.1.1"
_MPPS = "1.2.840.10008.3.1.2.3.3"
_INST = "1.2.826.0.1.3680043.9.3811.1.2.3"

SERVICE_CLASS = {
    "C-STORE": prims.C_STORE, "C-FIND": prims.C_FIND, "C-GET": prims.C_GET, "C-MOVE": prims.C_MOVE,
    "C-ECHO": prims.C_ECHO, "C-CANCEL": prims.C_CANCEL, "N-EVENT-REPORT": prims.N_EVENT_REPORT,
    "N-GET": prims.N_GET, "N-SET": prims.N_SET, "N-ACTION": prims.N_ACTION, "N-CREATE": prims.N_CREATE,
    "N-DELETE": prims.N_DELETE,
}

# legal values for the command-set parameters of each message (by PS3.7 keyword)
_VALUES = {
    "AffectedSOPClassUID": _CT, "RequestedSOPClassUID": _MPPS, "AffectedSOPInstanceUID": _INST,
    "RequestedSOPInstanceUID": _INST, "MessageID": 11, "MessageIDBeingRespondedTo": 11, "Priority": 1,
    "MoveDestination": "DEST", "Status": 0x0000, "EventTypeID": 2, "ActionTypeID": 1,
    "NumberOfRemainingSuboperations": 3, "NumberOfCompletedSuboperations": 1, "NumberOfFailedSuboperations": 0,
    "NumberOfWarningSuboperations": 0,
}
_MANDATORY_SKIP = {"MoveOriginatorApplicationEntityTitle", "MoveOriginatorMessageID", "AttributeIdentifierList"}


def build_primitive(msg):
    """a valid pynetdicom primitive for the PS3.7 message `msg` (a spec.ps37_dimse.Msg): every field of the
    message's table gets a legal value, optional status-related fields and the data set are left unset"""
    p = SERVICE_CLASS[msg.service]()
    for kw in msg.fields:
        if kw in _MANDATORY_SKIP:
            continue
        setattr(p, kw, _VALUES[kw])
    return p
