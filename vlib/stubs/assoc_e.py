"""Stand-ins for the neighbours of the Association kernels checked by C18, C19, C23, C24
(DESIGN.md 4.3).  They contain no protocol logic: they record what the kernel sends / calls and
hand out pre-arranged primitives.  Import only after `vlib.shim`."""
from io import BytesIO

from vlib.shim import untraced, silence_loggers

from pynetdicom import AE, build_context  # noqa: E402
from pynetdicom.association import Association  # noqa: E402
from pynetdicom._globals import MODE_ACCEPTOR, MODE_REQUESTOR  # noqa: E402,F401
from pynetdicom.presentation import PresentationContext  # noqa: E402

silence_loggers()


class PairDict:
    """A mapping kept as a list of (key, value) pairs and searched linearly with `==`.

    Same observable behaviour as the `dict[int, PresentationContext]` it replaces
    (`Association._accepted_cx`) for the operations pynetdicom uses on it (`[]`, `in`, `get`,
    `values`, `keys`, `items`, `len`, iteration), but keys may be *symbolic* ints: nothing is
    hashed, a lookup forks once per stored key.  Keys must be pairwise different (precondition of
    the harness)."""

    def __init__(self, pairs=()):
        self._p = list(pairs)

    def __getitem__(self, key):
        for k, v in self._p:
            if key is not None and k == key:
                return v
        raise KeyError(key)

    def __contains__(self, key):
        for k, v in self._p:
            if key is not None and k == key:
                return True
        return False

    def get(self, key, default=None):
        for k, v in self._p:
            if key is not None and k == key:
                return v
        return default

    def values(self):
        return [v for k, v in self._p]

    def keys(self):
        return [k for k, v in self._p]

    def items(self):
        return list(self._p)

    def __iter__(self):
        return iter([k for k, v in self._p])

    def __len__(self):
        return len(self._p)


def mk_cx(abstract, transfer, cid, as_scu=True, as_scp=True):
    """An *accepted* presentation context (built without the id setter so that `cid` may be symbolic)."""
    with untraced():
        cx = build_context(abstract, transfer)
        cx.result = 0x00
    cx._context_id = cid
    cx._as_scu = as_scu
    cx._as_scp = as_scp
    return cx


class Sent:
    """One recorded `dimse.send_msg(primitive, context_id)` call."""

    def __init__(self, primitive, context_id):
        self.primitive = primitive
        self.context_id = context_id
        self.kind = primitive.__class__.__name__
        self.status = getattr(primitive, "Status", None)
        self.is_response = getattr(primitive, "MessageIDBeingRespondedTo", None) is not None
        self.msg_id = getattr(primitive, "MessageID", None)
        self.rsp_id = getattr(primitive, "MessageIDBeingRespondedTo", None)


class RecordingDimse:
    """Replaces `assoc.dimse`: records outgoing primitives, hands out a pre-arranged list of
    incoming (context_id, primitive) pairs; an exhausted list is the DIMSE timeout (None, None)."""

    def __init__(self, incoming=()):
        self.sent = []
        self.incoming = list(incoming)
        self.cancel_req = {}
        self.gets = 0

    def send_msg(self, primitive, context_id):
        self.sent.append(Sent(primitive, context_id))

    def get_msg(self, block=False):
        self.gets += 1
        if not self.incoming:
            return None, None
        return self.incoming.pop(0)

    def peek_msg(self):
        if not self.incoming:
            return None, None
        return self.incoming[0]


class FakeACSE:
    """Replaces `assoc.acse`: never aborted / never release-requested unless told; records aborts."""

    def __init__(self):
        self.aborts = []
        self.aborted = False
        self.release_requested = False

    def is_aborted(self, *a):
        return self.aborted

    def is_release_requested(self, consume=True):
        return self.release_requested

    def send_abort(self, source=0):
        self.aborts.append(source)

    def send_release(self, is_response=False):
        return None


class FakeQueue:
    def __init__(self):
        self.items = []

    def put(self, x):
        self.items.append(x)


class FakeDUL:
    """Replaces `assoc.dul`: alive, idle timer never expired, records PDUs and events."""

    def __init__(self):
        self.sent = []
        self.event_queue = FakeQueue()
        self.socket = None

    def is_alive(self):
        return True

    def idle_timer_expired(self):
        return False

    def send_pdu(self, p):
        self.sent.append(p)

    def receive_pdu(self, wait=False, timeout=None):
        return None


class Stop(Exception):
    """Private exception used to leave a real loop after one iteration."""


class OneShotCheckpoint:
    """Stand-in for `assoc._reactor_checkpoint` (a threading.Event): `wait()` returns the first
    `n` times and raises Stop afterwards, so that exactly `n` iterations of the real
    `Association._run_reactor` loop are executed in the harness thread."""

    def __init__(self, n=1):
        self.n = n
        self.waits = 0
        self.sets = 0
        self.clears = 0

    def wait(self, timeout=None):
        self.waits += 1
        if self.waits > self.n:
            raise Stop()
        return True

    def set(self):
        self.sets += 1

    def clear(self):
        self.clears += 1

    def is_set(self):
        return True


class NoSleepTime:
    """Stand-in for the `time` module reference inside pynetdicom.association (sleep only)."""

    @staticmethod
    def sleep(s):
        return None

    @staticmethod
    def time():
        return 0.0

    @staticmethod
    def monotonic():
        return 0.0


def make_assoc(mode=MODE_REQUESTOR, real_dimse=False):
    """A real `Association` whose threads are never started; acse / dul (and, unless `real_dimse`,
    dimse) replaced by the recording stand-ins above; `_abort_blocking` replaced by a recorder
    (`assoc.aborts`) so that `abort()` has no transport side effects.  Call under `untraced()`."""
    ae = AE()
    assoc = Association(ae, mode)
    assoc.acse = FakeACSE()
    assoc.dul = FakeDUL()
    if not real_dimse:
        assoc.dimse = RecordingDimse()
    assoc.is_established = True
    assoc._is_paused = True
    assoc.aborts = []

    def _abort(block=True, _a=assoc):
        _a.aborts.append(1)
        _a._sent_abort = True

    assoc._abort_blocking = _abort
    # notification handlers (logging only) are not a subject of these properties
    for ev in list(assoc._handlers):
        if isinstance(assoc._handlers[ev], list):
            assoc._handlers[ev] = []
    return assoc


def bio(data=b"\x00\x00"):
    return BytesIO(data)


# --- real DIMSEServiceProvider.receive_primitive without the codec ---------------------------------
class FakeMessage:
    """Stand-in for dimse.DIMSEMessage inside `receive_primitive`: the "P-DATA primitive" handed to
    `receive_primitive` is a carrier `(context_id, dimse_primitive)`; `decode_msg` reports a complete
    message and `message_to_primitive` returns the carried primitive.  (P-DATA reassembly and the
    command-set codec are the subject of C15-C17.)"""

    def __init__(self):
        self.context_id = None
        self._prim = None
        self.encoded_command_set = None
        self.data_set = None
        self._data_set_file = None
        self._data_set_path = None

    def decode_msg(self, carrier, assoc=None):
        self.context_id, self._prim = carrier
        return True

    def message_to_primitive(self):
        self._prim._context_id = self.context_id
        return self._prim


class SyncThread:
    """Stand-in for threading.Thread inside pynetdicom.dimse: start() runs the target at once in the
    calling thread (the N-EVENT-REPORT fast path of receive_primitive)."""

    started = 0

    def __init__(self, target=None, args=(), kwargs=None, **kw):
        self.target, self.args, self.kwargs = target, args, kwargs or {}

    def start(self):
        SyncThread.started += 1
        self.target(*self.args, **self.kwargs)


class FakeThreading:
    Thread = SyncThread


def run_reactor_iterations(assoc, association_module, n=1):
    """Execute exactly `n` iterations of the real `Association._run_reactor` loop in this thread
    (single-step point: `_reactor_checkpoint.wait()`, see HARNESS_GUIDE).  Returns normally also when
    the loop ended by itself (kill / release / abort)."""
    saved_time = association_module.time
    saved_cp = assoc._reactor_checkpoint
    association_module.time = NoSleepTime
    assoc._reactor_checkpoint = OneShotCheckpoint(n)
    try:
        assoc._run_reactor()
    except Stop:
        pass
    finally:
        association_module.time = saved_time
        assoc._reactor_checkpoint = saved_cp


def make_recv_dimse(assoc):
    """The REAL DIMSEServiceProvider (receive_primitive, get_msg, peek_msg, cancel_req, msg_queue)
    with only `send_msg` replaced by a recorder (`.sent`), so that nothing is encoded or put on a wire."""
    from pynetdicom.dimse import DIMSEServiceProvider

    class RecvDimse(DIMSEServiceProvider):
        def __init__(self, a):
            DIMSEServiceProvider.__init__(self, a)
            self.sent = []
            self.on_send = None

        def send_msg(self, primitive, context_id):
            self.sent.append(Sent(primitive, context_id))
            if self.on_send is not None:
                self.on_send(primitive, context_id)

    return RecvDimse(assoc)
