"""OS-socket stand-ins for C08 (DESIGN.md section 4.2).

`FakeSocketModule` replaces the *module attribute* `socket` inside `pynetdicom.transport`
(and `socketserver` while an `AssociationServer` is constructed); `FakeSelectModule` replaces
`pynetdicom.transport.select`.  The sockets are created, configured, connected and accepted by the
REAL pynetdicom code, so every `settimeout()` the implementation issues (or forgets) is what the
model sees.

Blocking rule (documented semantics of Python sockets, library reference "socket.settimeout" /
"Notes on socket timeouts"):

* a new socket has `gettimeout() is None` (`socket.getdefaulttimeout()` is None);
* a socket returned by `accept()` of a listening socket in blocking or timeout mode is in blocking
  mode, i.e. `gettimeout() is None`, whatever timeout the listening socket has;
* `recv()` returns 1..n of the bytes the peer has sent so far; `b""` once the peer has closed;
* `recv()` when the peer has sent nothing more and keeps the connection open (a *stall point*):
  blocks for ever if `gettimeout() is None` - modelled by raising `Hang`; raises `TimeoutError`
  after the timeout otherwise.

No protocol logic lives here.
"""
import socket as _real


class Hang(BaseException):
    """A call that would block for ever.  Derived from BaseException on purpose: the code under
    test has broad `except Exception` clauses that must not be able to swallow it."""


class FakeRawSocket:
    def __init__(self, family=_real.AF_INET, type=_real.SOCK_STREAM, proto=0, fileno=None):
        self.family = family
        self.type = type
        self.timeout = None          # CPython: socket.getdefaulttimeout() is None
        self.rx = b""                # everything the peer will ever send on this connection
        self.pos = 0                 # consumed so far
        self.limit = 0               # the peer has sent rx[:limit] and then stalls ...
        self.peer_closed = False     # ... or closes
        self.dribble = False         # True: every recv() yields a single byte
        self.sent = []               # byte strings handed to send()
        self.log = []                # (operation, argument, timeout in force)
        self.closed = False
        self.stall_recvs = []        # timeout in force at every recv() issued at a stall point
        self.backlog = []            # listening socket: connections waiting in accept()
        self.bound = None
        self.peer = ("127.0.0.1", 50000)

    # configuration ----------------------------------------------------------------------
    def setsockopt(self, *a):
        self.log.append(("setsockopt", a, self.timeout))

    def settimeout(self, t):
        self.log.append(("settimeout", t, self.timeout))
        self.timeout = t

    def gettimeout(self):
        return self.timeout

    def setblocking(self, flag):
        self.settimeout(None if flag else 0.0)

    def bind(self, addr):
        self.bound = addr
        self.log.append(("bind", addr, self.timeout))

    def listen(self, n=5):
        self.log.append(("listen", n, self.timeout))

    def getsockname(self):
        b = self.bound or ("127.0.0.1", 0)
        return (b[0] or "0.0.0.0", b[1] or 40000) + tuple(b[2:])

    def getpeername(self):
        return self.peer

    def fileno(self):
        return 99

    def connect(self, addr):
        self.log.append(("connect", addr, self.timeout))
        self.peer = addr

    def accept(self):
        self.log.append(("accept", None, self.timeout))
        if not self.backlog:
            if self.timeout is None:
                raise Hang("accept() on a blocking listening socket with no pending connection")
            raise TimeoutError("timed out")
        conn = self.backlog.pop(0)
        conn.timeout = None          # accepted sockets are in blocking mode (see module doc)
        return conn, conn.peer

    # data ------------------------------------------------------------------------------
    def recv(self, n):
        if self.closed:
            raise OSError(9, "Bad file descriptor")
        avail = self.limit - self.pos
        if avail > 0:
            k = n
            if avail < k:
                k = avail
            if self.dribble:
                k = 1
            out = self.rx[self.pos:self.pos + k]
            self.pos = self.pos + k
            return out
        if self.peer_closed:
            return b""
        # stall point: nothing more has been sent, the connection is still open
        self.stall_recvs.append(self.timeout)
        if self.timeout is None:
            raise Hang("recv() on a socket without timeout while the peer is silent")
        # the peer stays silent for ever: every further recv() at this stall point costs another full timeout
        self.stall_timeouts = getattr(self, "stall_timeouts", 0) + 1
        if self.stall_timeouts > 3:
            raise Hang("recv() retried again and again at the same stall point: blocked past the configured timeout")
        raise TimeoutError("timed out")

    def pending_bytes(self):
        return self.limit - self.pos

    def send(self, b):
        if self.closed:
            raise OSError(9, "Bad file descriptor")
        self.sent.append(bytes(b))
        return len(b)

    def sendall(self, b):
        self.send(b)

    def shutdown(self, how):
        self.log.append(("shutdown", how, self.timeout))
        if self.closed:
            raise OSError(9, "Bad file descriptor")

    def close(self):
        self.log.append(("close", None, self.timeout))
        self.closed = True


class FakeSocketModule:
    """Instance used in place of the `socket` module."""

    AF_INET = _real.AF_INET
    AF_INET6 = _real.AF_INET6
    SOCK_STREAM = _real.SOCK_STREAM
    SOCK_DGRAM = _real.SOCK_DGRAM
    SOL_SOCKET = _real.SOL_SOCKET
    SO_REUSEADDR = _real.SO_REUSEADDR
    SHUT_RDWR = _real.SHUT_RDWR
    SHUT_WR = _real.SHUT_WR
    AI_PASSIVE = _real.AI_PASSIVE
    AddressFamily = _real.AddressFamily
    gaierror = _real.gaierror
    error = OSError
    timeout = TimeoutError

    def __init__(self):
        self.created = []

    def socket(self, family=_real.AF_INET, type=_real.SOCK_STREAM, proto=0, fileno=None):
        s = FakeRawSocket(family, type, proto, fileno)
        self.created.append(s)
        return s

    def getaddrinfo(self, host, port, family=0, type=0, proto=0, flags=0):
        # no name resolution: literal IPv4 addresses only ("" / None = INADDR_ANY)
        return [(_real.AF_INET, _real.SOCK_STREAM, 6, "", (host or "0.0.0.0", port))]

    def getdefaulttimeout(self):
        return None


class FakeSelectModule:
    """`select.select`: a socket is readable iff unread bytes are pending or the peer has closed."""

    error = OSError

    @staticmethod
    def select(r, w, x, timeout=None):
        out = []
        for s in r:
            if s.closed:
                raise ValueError("file descriptor cannot be a negative integer (-1)")
            if s.pending_bytes() > 0 or s.peer_closed:
                out.append(s)
        return out, [], []


def real_socket_selfcheck():
    """Concrete validation of the blocking rule against the real OS (run outside CrossHair, e.g. by
    the end-to-end reproducer): an accepted socket has no timeout even if the listening socket has
    one, and recv() on a connected socket with a timeout raises TimeoutError when the peer is
    silent.  Returns (ok, detail)."""
    lst = _real.socket(_real.AF_INET, _real.SOCK_STREAM)
    try:
        lst.settimeout(5)
        lst.bind(("127.0.0.1", 0))
        lst.listen(1)
        c = _real.socket(_real.AF_INET, _real.SOCK_STREAM)
        fresh = c.gettimeout()
        c.connect(lst.getsockname())
        a, _ = lst.accept()
        acc = a.gettimeout()
        a.settimeout(0.05)
        try:
            a.recv(1)
            timed_out = False
        except TimeoutError:
            timed_out = True
        a.close()
        c.close()
    finally:
        lst.close()
    ok = fresh is None and acc is None and timed_out
    return ok, f"fresh socket timeout={fresh!r}, accepted socket timeout={acc!r}, recv on silent peer timed out={timed_out}"
