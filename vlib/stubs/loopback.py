"""FakeDUL / LoopbackWire (DESIGN.md 4.3, 4.4): the neighbours of the ACSE kernels.

`FakeDUL` stands in for `DULServiceProvider` under one `Association` whose threads are never started.  It has no
protocol logic: `send_pdu` records the primitive (and hands it to the wire, if any), `receive_pdu` hands out what the
wire delivered (None = nothing arrived = time-out).

`LoopbackWire` joins a requestor-side and an acceptor-side `Association`.  A primitive given to one side's
`dul.send_pdu` is converted by the REAL pdu classes exactly as the DUL state machine does it
(fsm.AE_2 / AE_7 / AE_8 / AA_1:  `A_ASSOCIATE_RQ(primitive)` ... `.encode()`), the bytes are decoded by the real
classes exactly as `DULServiceProvider._decode_pdu` + fsm.AE_3 / AE_4 / AE_6 do it (`_PDU_TYPES[b[0:1]]`, `decode`,
`to_primitive`) and the resulting primitive is put into the other side's inbox.  The upper-layer state machine, TCP,
timers and threads are NOT in this loop (they are the subject of C03-C08); delivery is synchronous and in order.
When the requestor waits for the answer (`receive_pdu(wait=True)` with an empty inbox) the wire runs the acceptor
side's real `Association.run_reactor()` (acceptor branch: take the request from the DUL, EVT_REQUESTED, ACSE
negotiation) in the same thread, with the DIMSE reactor loop `_run_reactor` switched off.

Nothing here touches sockets, threads or the clock.
"""
from pynetdicom import dul as _dul
from pynetdicom.pdu import A_ABORT_RQ, A_ASSOCIATE_AC, A_ASSOCIATE_RJ, A_ASSOCIATE_RQ, A_RELEASE_RP, A_RELEASE_RQ
from pynetdicom.pdu_primitives import A_ABORT, A_ASSOCIATE, A_P_ABORT, A_RELEASE


class _Ready:
    """AssociationSocket._ready stand-in: the (absent) transport is always 'ready'."""

    def wait(self, timeout=None):
        return True

    def is_set(self):
        return True

    def set(self):
        return None


class FakeAssocSocket:
    """What ACSE._negotiate_as_requestor looks at on `dul.socket`."""

    def __init__(self, connected=True):
        self._ready = _Ready()
        self._is_connected = connected
        self.socket = None
        self.closed = False

    def close(self):
        self.closed = True

    def _shutdown_socket(self):
        self.closed = True


class FakeDUL:
    def __init__(self, assoc=None, wire=None, connected=True):
        self.assoc = assoc
        self.wire = wire
        self.sent = []        # primitives given to send_pdu, in order
        self.inbox = []       # primitives waiting for the service user
        self.killed = False
        self.socket = FakeAssocSocket(connected)

    # -- service-user interface of DULServiceProvider ---------------------------------------------------
    def send_pdu(self, primitive):
        self.sent.append(primitive)
        if self.wire is not None:
            self.wire.carry(self, primitive)

    def receive_pdu(self, wait=False, timeout=None):
        if not self.inbox and wait and self.wire is not None:
            self.wire.idle(self)
        if self.inbox:
            return self.inbox.pop(0)
        return None

    def peek_next_pdu(self):
        return self.inbox[0] if self.inbox else None

    def is_alive(self):
        return False

    def stop_dul(self):
        return True

    def kill_dul(self):
        self.killed = True

    def start(self):
        return None

    def idle_timer_expired(self):
        return False


def attach_fake_dul(assoc, wire=None, connected=True):
    """Replace the (never started) real DUL of `assoc` by a FakeDUL; returns it."""
    d = FakeDUL(assoc, wire, connected)
    assoc.dul = d
    assoc._started_dul = True
    return d


def primitive_to_pdu(primitive):
    """The PDU the DUL state machine builds for an ACSE primitive (fsm.AE_2, AE_7, AE_8, AR_1, AR_4/AR_9, AA_1)."""
    if isinstance(primitive, A_ASSOCIATE):
        if primitive.result is None:
            return A_ASSOCIATE_RQ(primitive)
        if primitive.result == 0x00:
            return A_ASSOCIATE_AC(primitive)
        return A_ASSOCIATE_RJ(primitive)
    if isinstance(primitive, A_RELEASE):
        return A_RELEASE_RQ(primitive) if primitive.result is None else A_RELEASE_RP(primitive)
    if isinstance(primitive, (A_ABORT, A_P_ABORT)):
        pdu = A_ABORT_RQ()
        pdu.from_primitive(primitive)
        return pdu
    raise TypeError("LoopbackWire carries ACSE primitives only, got %r" % (type(primitive),))


def bytes_to_primitive(data):
    """DULServiceProvider._decode_pdu followed by the state machine's `pdu.to_primitive()`."""
    pdu_cls, _event = _dul._PDU_TYPES[data[0:1]]
    pdu = pdu_cls()
    pdu.decode(data)
    return pdu, pdu.to_primitive()


class LoopbackWire:
    def __init__(self, requestor_assoc, acceptor_assoc):
        self.rq = requestor_assoc
        self.ac = acceptor_assoc
        self.rq_dul = attach_fake_dul(requestor_assoc, self)
        self.ac_dul = attach_fake_dul(acceptor_assoc, self)
        self.log = []             # (direction, encoded bytes, decoded PDU)
        self.acceptor_ran = False
        self.dropped = []         # PDUs the real DUL would have answered itself (unsupported protocol version)
        # the acceptor's DIMSE reactor loop is not part of any negotiation property
        acceptor_assoc._run_reactor = lambda: None

    def carry(self, from_dul, primitive):
        pdu = primitive_to_pdu(primitive)
        data = pdu.encode()
        rpdu, rprim = bytes_to_primitive(data)
        to_dul = self.ac_dul if from_dul is self.rq_dul else self.rq_dul
        self.log.append(("rq->ac" if from_dul is self.rq_dul else "ac->rq", data, rpdu))
        if isinstance(rpdu, A_ASSOCIATE_RQ) and rpdu.protocol_version != 0x0001:
            # fsm.AE_6 rejects this inside the DUL; never the case for a pynetdicom requestor
            self.dropped.append(rpdu)
            return
        to_dul.inbox.append(rprim)

    def idle(self, waiting_dul):
        """`waiting_dul` blocks for a primitive: let the other side run."""
        if waiting_dul is self.rq_dul and not self.acceptor_ran and self.ac_dul.inbox:
            self.acceptor_ran = True
            self.ac.run_reactor()
