"""Neighbours of the SCP kernels checked by C20 / C21 / C22 / C07 (DESIGN.md 4.3, group F).

Nothing here contains protocol logic: the stubs record what a kernel sends, hand out scripted
answers and let a *scripted handler* (the symbolic input of the properties) run.  Import only after
`vlib.shim`.

    RecordingDimse   assoc.dimse: records a snapshot of every response primitive given to send_msg
    StubACSE         assoc.acse: is_aborted / is_release_requested answer from a script
    StubAssoc        the Association seen by a service class (is_established, get_handlers, abort ...)
    StubStoreAssoc   the association `AE.associate` returns to `_move_scp`
    StatusDS         a pydicom Dataset whose `in` / iteration are answered from (keyword, value) pairs
    Script           handler behaviour (yield / return sequence, exception point, abort point)
    scp_env()        context manager: dsutils.encode stub + IntervalDict status tables, restored on exit
    KERNELS          table of (service class, request primitive) pairs = SCP entry points
    FakeDUL, Checkpoint, Stop   single-step environment of the real Association._run_reactor (C07)
"""
import contextlib
import copy
import queue
from io import BytesIO

from vlib.shim import IntervalDict, has_sentinel, silence_loggers, untraced

from pydicom.dataset import Dataset  # noqa: E402
from pydicom.uid import UID  # noqa: E402

import pynetdicom.service_class as sc  # noqa: E402
import pynetdicom.service_class_n as scn  # noqa: E402
from pynetdicom import evt  # noqa: E402
from pynetdicom import dimse_primitives as dp  # noqa: E402
from pynetdicom.presentation import build_context  # noqa: E402

silence_loggers()


class Boom(Exception):
    """The exception a scripted handler raises."""


class Stop(Exception):
    """Raised by a single-step stub to leave a real loop after n iterations."""


# ---------------------------------------------------------------------------------------------
# dsutils.encode stand-in (DESIGN C20: "returns fixed bytes for a Dataset, None otherwise - the
# real contract of dsutils.encode"; an empty Dataset encodes to b"" exactly like the real one)
class EncodeLog:
    def __init__(self):
        self.calls = []          # dataset objects in call order
        self.flags = []          # (is_implicit_vr, is_little_endian, deflated) of every call
        self.unencodable = []    # Dataset objects the script declared unencodable

    def encode(self, ds, is_implicit_vr=True, is_little_endian=True, deflated=False):
        self.calls.append(ds)
        self.flags.append((is_implicit_vr, is_little_endian, deflated))
        if not isinstance(ds, Dataset):
            return None
        for u in self.unencodable:
            if u is ds:
                return None
        if len(ds) == 0 and not isinstance(ds, StatusDS):
            return b""
        return b"ENC" + bytes([len(self.calls) - 1])

    def dataset_of(self, data):
        """The object that was passed to encode() for the bytes now sitting in a response."""
        if data is None:
            return None
        raw = data.getvalue() if hasattr(data, "getvalue") else data
        if len(raw) == 4 and raw[:3] == b"ENC":
            return self.calls[raw[3]]
        return ("?", raw)


_TABLE_NAMES = [
    "GENERAL_STATUS", "QR_FIND_SERVICE_CLASS_STATUS", "QR_GET_SERVICE_CLASS_STATUS", "QR_MOVE_SERVICE_CLASS_STATUS",
    "NON_PATIENT_SERVICE_CLASS_STATUS", "RELEVANT_PATIENT_SERVICE_CLASS_STATUS",
    "SUBSTANCE_ADMINISTRATION_SERVICE_CLASS_STATUS", "STORAGE_SERVICE_CLASS_STATUS",
    "VERIFICATION_SERVICE_CLASS_STATUS",
]


def _service_classes():
    out = []
    for mod in (sc, scn):
        for name in dir(mod):
            c = getattr(mod, name)
            if isinstance(c, type) and issubclass(c, sc.ServiceClass) and "statuses" in c.__dict__:
                if c not in out:
                    out.append(c)
    return out


_SERVICE_CLASSES = _service_classes()


class BisectIntervalDict:
    """Same contract as shim.IntervalDict (exact stand-in for a dict with int keys, built from the
    live table) but the interval is found by bisection: ~2*log2(#intervals) comparisons of a
    symbolic key per lookup instead of 2*#intervals.  The set of paths is the same (one per
    interval and one per gap)."""

    def __init__(self, d):
        self._iv = IntervalDict(d).intervals()

    def _find(self, key):
        iv = self._iv
        lo, hi = 0, len(iv)
        while lo < hi:
            mid = (lo + hi) // 2
            if key < iv[mid][0]:
                hi = mid
            else:
                lo = mid + 1
        if lo == 0:
            return None
        c = iv[lo - 1]
        if key <= c[1]:
            return c
        return None

    def __contains__(self, key):
        return self._find(key) is not None

    def __getitem__(self, key):
        c = self._find(key)
        if c is None:
            # (the message is only ever logged; a symbolic key inside the exception breaks str(exc))
            raise KeyError("status not in table")
        return c[2]

    def get(self, key, default=None):
        c = self._find(key)
        return default if c is None else c[2]

    def intervals(self):
        return list(self._iv)

    # The tables are shared module-level state: kernels only read them.  Writes are not applied (the stand-in is
    # cached per process) but counted, so that a harness can assert "using the tables does not change them".
    def __setitem__(self, key, value):
        TABLE_WRITES[0] += 1

    def __delitem__(self, key):
        TABLE_WRITES[0] += 1

    def setdefault(self, key, default=None):
        c = self._find(key)
        if c is None:
            TABLE_WRITES[0] += 1
            return default
        return c[2]

    def pop(self, key, *default):
        TABLE_WRITES[0] += 1
        c = self._find(key)
        if c is None:
            if default:
                return default[0]
            raise KeyError("status not in table")
        return c[2]

    def update(self, *a, **k):
        TABLE_WRITES[0] += 1


TABLE_WRITES = [0]
_IV_CACHE = {}


def _iv(d):
    """Interval stand-in of a live table, built once per process (the tables are never mutated)."""
    if isinstance(d, (IntervalDict, BisectIntervalDict)):
        return d
    hit = _IV_CACHE.get(id(d))
    if hit is None or hit[0] is not d:
        hit = (d, BisectIntervalDict(d))
        _IV_CACHE[id(d)] = hit
    return hit[1]


@contextlib.contextmanager
def scp_env():
    """Patch (and restore) what makes the SCP kernels symbolically executable:
    * service_class.encode -> EncodeLog.encode
    * every status table reachable from a service class -> IntervalDict of the *live* table
      (exact same membership / values; a symbolic status forks per interval, not per value)
    * _config.LOG_REQUEST_IDENTIFIERS / LOG_RESPONSE_IDENTIFIERS off (they only decode and
      pretty-print datasets for the log; logging is not a subject of any property)."""
    log = EncodeLog()
    with untraced():
        saved_mod = {n: getattr(sc, n) for n in _TABLE_NAMES}
        saved_cls = [(c, c.__dict__["statuses"]) for c in _SERVICE_CLASSES]
        saved_encode = sc.encode
        saved_cfg = (sc._config.LOG_REQUEST_IDENTIFIERS, sc._config.LOG_RESPONSE_IDENTIFIERS)
        for n, d in saved_mod.items():
            setattr(sc, n, _iv(d))
        for c, d in saved_cls:
            c.statuses = _iv(d)
        sc.encode = log.encode
        sc._config.LOG_REQUEST_IDENTIFIERS = False
        sc._config.LOG_RESPONSE_IDENTIFIERS = False
    try:
        yield log
    finally:
        with untraced():
            sc.encode = saved_encode
            sc._config.LOG_REQUEST_IDENTIFIERS, sc._config.LOG_RESPONSE_IDENTIFIERS = saved_cfg
            for n, d in saved_mod.items():
                setattr(sc, n, d)
            for c, d in saved_cls:
                c.statuses = d


# ---------------------------------------------------------------------------------------------
class Rec:
    """Snapshot of one response primitive at the moment it is handed to dimse.send_msg (the
    kernels reuse and mutate one primitive object)."""

    DATA_ATTRS = ("Identifier", "DataSet", "ActionReply", "AttributeList", "EventReply", "EventInformation")
    OPT_ATTRS = ("ErrorComment", "OffendingElement", "ErrorID", "AttributeIdentifierList")

    def __init__(self, rsp, cx_id):
        self.type = type(rsp).__name__
        self.cx_id = cx_id
        self.status = rsp.Status
        self.msg_id_rsp = rsp.MessageIDBeingRespondedTo
        self.data = None
        self.data_attr = None
        for a in self.DATA_ATTRS:
            if a in type(rsp).__dict__ or a in rsp.__dict__:
                v = getattr(rsp, a, None)
                if v is not None:
                    self.data, self.data_attr = v, a
        self.opt = {a: getattr(rsp, a, None) for a in self.OPT_ATTRS}
        self.remaining = getattr(rsp, "NumberOfRemainingSuboperations", None)
        self.completed = getattr(rsp, "NumberOfCompletedSuboperations", None)
        self.failed = getattr(rsp, "NumberOfFailedSuboperations", None)
        self.warning = getattr(rsp, "NumberOfWarningSuboperations", None)
        self.sop_instance = getattr(rsp, "AffectedSOPInstanceUID", None)
        # the formatted-number sentinel of the shim must never reach anything that is sent
        self.sentinel = any(has_sentinel(v) for v in self.opt.values() if isinstance(v, (str, bytes, list, tuple)))


class RecordingDimse:
    def __init__(self, assoc=None):
        self.sent = []
        self.cancel_req = {}
        self.assoc = assoc

    def send_msg(self, rsp, cx_id):
        r = Rec(rsp, cx_id)
        # was the association already ended (by the handler) when this was sent?
        r.after_end = self.assoc is not None and not self.assoc.is_established
        self.sent.append(r)


class StubACSE:
    """is_aborted / is_release_requested as _wrap_handler sees them: the peer's A-ABORT or
    A-RELEASE-RQ is noticed at the `peer_end_at`-th check (0-based), never when -1."""

    def __init__(self, peer_end_at=-1, peer_end_release=False):
        self.checks = 0
        self.peer_end_at = peer_end_at
        self.peer_end_release = peer_end_release
        self.peer_ended = False

    def is_aborted(self, abort_type="both"):
        hit = self.peer_end_at == self.checks and not self.peer_end_release
        if hit:
            self.peer_ended = True
        return hit

    def is_release_requested(self, consume=True):
        hit = self.peer_end_at == self.checks and self.peer_end_release
        self.checks += 1
        if hit:
            self.peer_ended = True
        return hit


class _NoStatus:
    """What send_c_store returns on a timeout / invalid response: a result without Status."""


class _StoreRsp:
    def __init__(self, code):
        self.Status = code


# sub-operation outcome kinds (C22): what the C-STORE sub-operation reports
SUB_SUCCESS, SUB_WARNING, SUB_FAILURE, SUB_EXCEPTION, SUB_UNKNOWN_CODE, SUB_NO_STATUS, SUB_SYMBOLIC = range(7)
_SUB_CODE = {SUB_SUCCESS: 0x0000, SUB_WARNING: 0xB000, SUB_FAILURE: 0xA700, SUB_UNKNOWN_CODE: 0xFFF0}


class SubOps:
    """Scripted C-STORE sub-operation results; records the datasets it was asked to send."""

    def __init__(self, outcomes=(), codes=()):
        self.outcomes = outcomes     # indexable (list or LazyMap), consumed per sub-operation performed
        self.codes = codes           # used by SUB_SYMBOLIC
        self.calls = []              # (dataset, msg_id)
        self.hook = None             # optional callable(k) run at the start of the k-th sub-operation

    def send_c_store(self, dataset, msg_id=1, originator_aet=None, originator_id=None, **kw):
        k = len(self.calls)
        self.calls.append((dataset, msg_id))
        if self.hook is not None:
            self.hook(k)
        o = self.outcomes[k] if k < len(self.outcomes) else SUB_SUCCESS
        if o == SUB_EXCEPTION:
            raise RuntimeError("scripted C-STORE sub-operation exception")
        if o == SUB_NO_STATUS:
            return _NoStatus()
        if o == SUB_SYMBOLIC:
            return _StoreRsp(self.codes[k])
        for kind, code in _SUB_CODE.items():
            if o == kind:
                return _StoreRsp(code)
        raise AssertionError("bad sub-operation outcome kind")


class _Sock:
    def close(self):
        pass


class _Dul:
    socket = _Sock()


class StubStoreAssoc:
    """What AE.associate() returns to _move_scp."""

    def __init__(self, subops, established=True):
        self.is_established = established
        self.subops = subops
        self.released = 0
        self.dul = _Dul()

    def send_c_store(self, *a, **k):
        return self.subops.send_c_store(*a, **k)

    def release(self):
        self.released += 1


class StubAE:
    ae_title = "VERIF_SCP"

    def __init__(self, store_assoc=None, associate_raises=False):
        self.store_assoc = store_assoc
        self.associate_raises = associate_raises
        self.associate_calls = []

    def associate(self, addr, port, **kwargs):
        self.associate_calls.append((addr, port, kwargs))
        if self.associate_raises:
            raise Boom("associate failed")
        return self.store_assoc


class StubAssoc:
    """The Association as the service classes see it."""

    def __init__(self, handler, subops=None, ae=None, acse=None):
        self.is_established = True
        self.is_aborted = False
        self.is_released = False
        self.acse = acse or StubACSE()
        self.dimse = RecordingDimse(self)
        self.ae = ae or StubAE()
        self._handler = handler
        self.subops = subops or SubOps()
        self.ended_by_handler = False

    def get_handlers(self, event):
        return (self._handler, None)

    def _abort_nonblocking(self, *a):
        self.is_aborted = True
        self.is_established = False
        self.ended_by_handler = True

    _abort_blocking = _abort_nonblocking
    abort = _abort_nonblocking

    def release(self):
        self.is_released = True
        self.is_established = False
        self.ended_by_handler = True

    def send_c_store(self, *a, **k):
        return self.subops.send_c_store(*a, **k)


# ---------------------------------------------------------------------------------------------
class _Elem:
    def __init__(self, keyword, value):
        self.keyword, self.value = keyword, value


class StatusDS(Dataset):
    """A pydicom Dataset used as a *status dataset* whose element values may be symbolic.

    The kernels only ever do `"Status" in ds` and `for elem in ds: elem.keyword / elem.value`
    (ServiceClass.validate_status, VerificationServiceClass.SCP); both are answered from a list of
    (keyword, value) pairs, so pydicom's element storage (which would realise a symbolic value) is
    not involved.  `isinstance(x, Dataset)` is true as for a real dataset.  The fidelity of this
    stand-in is checked by the `*_real_status_ds` harnesses that use genuine pydicom datasets."""

    def __init__(self):
        super().__init__()
        object.__setattr__(self, "_pairs", [])

    def __contains__(self, name):
        for k, v in self._pairs:
            if k == name:
                return True
        return False

    def __iter__(self):
        return iter([_Elem(k, v) for k, v in self._pairs])

    def __len__(self):
        return len(self._pairs)

    def __bool__(self):
        return True


def status_ds(pairs):
    with untraced():
        d = StatusDS()
    d._pairs.extend(pairs)
    return d


# status-object kinds
SK_INT, SK_DS_STATUS, SK_DS_NOSTATUS, SK_OTHER, SK_REAL_DS = range(5)
SK_NAME = {SK_INT: "int", SK_DS_STATUS: "ds_status", SK_DS_NOSTATUS: "ds_nostatus", SK_OTHER: "other",
           SK_REAL_DS: "ds_status"}
# dataset kinds
DK_NONE, DK_VALID, DK_EMPTY, DK_JUNK, DK_UNENCODABLE = range(5)


class LazyPool:
    """statuses[i] = pool[index[i]], looked up only when result i really needs a status value (so an
    unused symbolic index is never enumerated)."""

    def __init__(self, index, pool):
        self.index, self.pool = index, pool

    def __getitem__(self, i):
        return self.pool[self.index[i]]

    def __len__(self):
        return len(self.index)


class LazyMap:
    """xs[i] -> f(xs[i]) evaluated when asked for (a symbolic element that is never used is never forked on)."""

    def __init__(self, xs, f):
        self.xs, self.f = xs, f

    def __getitem__(self, i):
        return self.f(self.xs[i])

    def __len__(self):
        return len(self.xs)


class Script:
    """Behaviour of a handler = the symbolic input of C20 / C21 / C22.

    skinds[i], statuses[i]  the status object of result i (kind + value)
    dkinds[i]               the dataset object of result i
    raise_at                -1 never; i < n: raise instead of producing result i; n: raise after the last
    end_at / end_release    like raise_at, but the handler calls assoc.abort() / assoc.release() and goes on
    comment[i], offending[i]  (SK_DS_STATUS) include ErrorComment / OffendingElement in the status dataset
    """

    def __init__(self, skinds, statuses, dkinds, raise_at=-1, end_at=-1, end_release=False, comment=None,
                 offending=None, exc_type=Boom, shape=None):
        self.skinds, self.statuses, self.dkinds = skinds, statuses, dkinds
        self.n = len(skinds)
        self.raise_at, self.end_at, self.end_release = raise_at, end_at, end_release
        self.comment = comment or [False] * self.n
        self.offending = offending or [False] * self.n
        self.exc_type = exc_type
        self.shape = shape or [0] * self.n   # 0 = (status, dataset) pair, 1 = bare status object, 2 = 3-tuple, 3 = None
        self.produced = 0            # results handed to the kernel so far
        self.exhausted = False       # the kernel asked for more than the handler had
        self.raised = False
        self.status_objs = [None] * self.n
        self.data_objs = [None] * self.n
        self._valid = [None] * self.n
        self._unenc = [None] * self.n

    def valid_ds(self, i):
        """A valid composite instance (distinct object and SOP Instance UID per result)."""
        if self._valid[i] is None:
            with untraced():
                d = Dataset()
                d.SOPClassUID = "1.2.840.10008.5.1.4.1.1.2"
                d.SOPInstanceUID = "1.2.3.%d" % (i + 1)
                self._valid[i] = d
        return self._valid[i]

    def unenc_ds(self, i):
        if self._unenc[i] is None:
            with untraced():
                d = Dataset()
                d.PatientID = "U%d" % i
                self._unenc[i] = d
        return self._unenc[i]

    def status_obj(self, i):
        k = self.skinds[i]
        if k == SK_INT:
            o = self.statuses[i]
        elif k == SK_DS_STATUS:
            pairs = [("Status", self.statuses[i])]
            if self.comment[i]:
                pairs.append(("ErrorComment", "comment %d" % i))
            if self.offending[i]:
                pairs.append(("OffendingElement", [0x00100020]))
            pairs.append(("PatientID", "not a status element"))
            o = status_ds(pairs)
        elif k == SK_DS_NOSTATUS:
            o = status_ds([("ErrorComment", "no status here")])
        elif k == SK_REAL_DS:
            s = self.statuses[i]          # must be concrete for this kind
            with untraced():
                o = Dataset()
                o.Status = s
                if self.comment[i]:
                    o.ErrorComment = "comment %d" % i
                if self.offending[i]:
                    o.OffendingElement = [0x00100020]
        else:
            o = "not a status"
        self.status_objs[i] = o
        return o

    def data_obj(self, i, log):
        k = self.dkinds[i]
        if k == DK_NONE:
            o = None
        elif k == DK_VALID:
            o = self.valid_ds(i)
        elif k == DK_EMPTY:
            with untraced():
                o = Dataset()
        elif k == DK_JUNK:
            o = ["not", "a", "dataset", i]
        else:
            o = self.unenc_ds(i)
            log.unencodable.append(o)
        self.data_objs[i] = o
        return o

    def result(self, i, log, status_only=False):
        s = self.status_obj(i)
        if status_only:
            return s
        d = self.data_obj(i, log)
        if self.shape[i] == 1:
            return s
        if self.shape[i] == 2:
            return (s, d, None)
        if self.shape[i] == 3:
            return None
        return (s, d)

    def _point(self, i, event):
        if self.end_at == i:
            if self.end_release:
                event.assoc.release()
            else:
                event.assoc.abort()
        if self.raise_at == i:
            self.raised = True
            raise self.exc_type("scripted handler exception")

    def generator_handler(self, log, first=()):
        """A handler that yields `first` (C-GET: N; C-MOVE: destination, N) and then the results."""
        def handler(event):
            for item in first:
                yield item
            for i in range(self.n):
                self._point(i, event)
                self.produced = i + 1
                yield self.result(i, log)
            self._point(self.n, event)
            self.exhausted = True
        return handler

    def return_handler(self, log, status_only=False):
        """A handler that returns result 0 (DIMSE-N, C-STORE, C-ECHO)."""
        def handler(event):
            self._point(0, event)
            self.produced = 1
            return self.result(0, log, status_only)
        return handler


# ---------------------------------------------------------------------------------------------
# SCP entry points: (service class, request primitive)
TS = "1.2.840.10008.1.2"


class Kernel:
    def __init__(self, name, cls, prim, service, event, style, uid, find_model=None):
        self.name, self.cls, self.prim, self.service, self.event = name, cls, prim, service, event
        self.style = style          # 'find' | 'get' | 'move' | 'pair' | 'status'
        self.uid = uid
        self.find_model = find_model
        self._cx = None
        self._req = None

    def context(self, cx_id):
        with untraced():
            if self._cx is None:
                self._cx = build_context(self.uid, TS)
                self._cx.result = 0
            cx = copy.copy(self._cx)
        cx.context_id = cx_id
        return cx

    def request(self, msg_id):
        with untraced():
            if self._req is None:
                self._req = self._build_request()
            r = copy.copy(self._req)
        r.MessageID = msg_id
        return r

    def _build_request(self):
        r = self.prim()
        p = self.prim
        if p in (dp.C_ECHO, dp.C_STORE, dp.C_FIND, dp.C_GET, dp.C_MOVE, dp.N_EVENT_REPORT, dp.N_CREATE):
            r.AffectedSOPClassUID = self.uid
        else:
            r.RequestedSOPClassUID = self.uid
        if p in (dp.C_FIND, dp.C_GET, dp.C_MOVE):
            r.Priority = 2
            r.Identifier = BytesIO(b"\x08\x00\x52\x00\x08\x00\x00\x00PATIENT ")
        if p is dp.C_MOVE:
            r.MoveDestination = "DEST"
        if p is dp.C_STORE:
            r.Priority = 2
            r.AffectedSOPInstanceUID = "1.2.3.99"
            r.DataSet = BytesIO(b"\x08\x00\x52\x00\x08\x00\x00\x00PATIENT ")
        if p is dp.N_EVENT_REPORT:
            r.AffectedSOPInstanceUID = "1.2.3.99"
            r.EventTypeID = 1
        if p is dp.N_CREATE:
            r.AffectedSOPInstanceUID = "1.2.3.99"
        if p in (dp.N_GET, dp.N_SET, dp.N_ACTION, dp.N_DELETE):
            r.RequestedSOPInstanceUID = "1.2.3.99"
        if p is dp.N_ACTION:
            r.ActionTypeID = 1
        if p is dp.N_SET:
            r.ModificationList = BytesIO(b"\x08\x00\x52\x00\x08\x00\x00\x00PATIENT ")
        return r


def _k(name, cls, prim, uid, find_model=None):
    service = prim.__name__.replace("_", "-")
    event = getattr(evt, "EVT_" + prim.__name__)
    style = {"C_FIND": "find", "C_GET": "get", "C_MOVE": "move", "C_ECHO": "status", "C_STORE": "status",
             "N_DELETE": "status"}.get(prim.__name__, "pair")
    return Kernel(name, cls, prim, service, event, style, uid, find_model)


_N_ALL = (dp.N_CREATE, dp.N_EVENT_REPORT, dp.N_GET, dp.N_SET, dp.N_ACTION, dp.N_DELETE)
KERNELS = {}


def _add(k):
    KERNELS[k.name] = k


_add(_k("echo", sc.VerificationServiceClass, dp.C_ECHO, "1.2.840.10008.1.1"))
_add(_k("store", sc.StorageServiceClass, dp.C_STORE, "1.2.840.10008.5.1.4.1.1.2"))
_add(_k("store_nonpatient", sc.NonPatientObjectStorageServiceClass, dp.C_STORE, "1.2.840.10008.5.1.4.39.1"))
_add(_k("find_qr", sc.QueryRetrieveServiceClass, dp.C_FIND, "1.2.840.10008.5.1.4.1.2.1.1", "qr"))
_add(_k("find_repo", sc.QueryRetrieveServiceClass, dp.C_FIND, "1.2.840.10008.5.1.4.1.1.201.6", "qr"))
_add(_k("find_worklist", sc.BasicWorklistManagementServiceClass, dp.C_FIND, "1.2.840.10008.5.1.4.31", "worklist"))
_add(_k("find_substance", sc.SubstanceAdministrationQueryServiceClass, dp.C_FIND, "1.2.840.10008.5.1.4.41", "substance"))
_add(_k("find_ups", scn.UnifiedProcedureStepServiceClass, dp.C_FIND, "1.2.840.10008.5.1.4.34.6.3", "ups"))
_add(_k("find_relevant", sc.RelevantPatientInformationQueryServiceClass, dp.C_FIND, "1.2.840.10008.5.1.4.37.1",
        "relevant_patient"))
_add(_k("find_palette", sc.ColorPaletteQueryRetrieveServiceClass, dp.C_FIND, "1.2.840.10008.5.1.4.39.2", "qr"))
_add(_k("get_qr", sc.QueryRetrieveServiceClass, dp.C_GET, "1.2.840.10008.5.1.4.1.2.1.3"))
_add(_k("get_nobulk", sc.QueryRetrieveServiceClass, dp.C_GET, "1.2.840.10008.5.1.4.1.2.5.3"))
_add(_k("move_qr", sc.QueryRetrieveServiceClass, dp.C_MOVE, "1.2.840.10008.5.1.4.1.2.1.2"))
for _cls, _uid, _prims in (
    (scn.ApplicationEventLoggingServiceClass, "1.2.840.10008.1.40", (dp.N_ACTION,)),
    (scn.DisplaySystemManagementServiceClass, "1.2.840.10008.5.1.1.40", (dp.N_GET,)),
    (scn.InstanceAvailabilityNotificationServiceClass, "1.2.840.10008.5.1.4.33", (dp.N_CREATE,)),
    (scn.MediaCreationManagementServiceClass, "1.2.840.10008.5.1.1.33", (dp.N_CREATE, dp.N_GET, dp.N_ACTION)),
    (scn.PrintManagementServiceClass, "1.2.840.10008.5.1.1.1", _N_ALL),
    (scn.ProcedureStepServiceClass, "1.2.840.10008.3.1.2.3.3", (dp.N_CREATE, dp.N_EVENT_REPORT, dp.N_GET, dp.N_SET)),
    (scn.RTMachineVerificationServiceClass, "1.2.840.10008.5.1.4.34.8", _N_ALL),
    (scn.StorageCommitmentServiceClass, "1.2.840.10008.1.20.1", (dp.N_EVENT_REPORT, dp.N_ACTION)),
    (scn.StorageManagementServiceClass, "1.2.840.10008.1.20.1.1", (dp.N_EVENT_REPORT, dp.N_ACTION)),
    (scn.UnifiedProcedureStepServiceClass, "1.2.840.10008.5.1.4.34.6.1",
     (dp.N_CREATE, dp.N_EVENT_REPORT, dp.N_GET, dp.N_SET, dp.N_ACTION)),
):
    for _p in _prims:
        _short = _cls.__name__.replace("ServiceClass", "")
        _add(_k("%s.%s" % (_short, _p.__name__), _cls, _p, _uid))

FIND_KERNELS = [k for k in KERNELS if KERNELS[k].style == "find"]
PAIR_KERNELS = [k for k in KERNELS if KERNELS[k].style == "pair"]
STATUS_KERNELS = [k for k in KERNELS if KERNELS[k].style == "status"]


class Run:
    """Everything observed from one execution of a kernel."""


def run_kernel(kname, msg_id, cx_id, script, log, n_sub=None, outcomes=(), codes=(), peer_end_at=-1,
               peer_end_release=False, destination=("127.0.0.1", 11112), dest_established=True,
               associate_raises=False, first_override=None, req_edit=None, ts=None):
    """Execute the REAL `<ServiceClass>.SCP(req, context)` of kernel `kname` against the stubs with
    the scripted handler; returns what was observed.  Must be called inside `with scp_env() as log`."""
    k = KERNELS[kname]
    subops = SubOps(outcomes, codes)
    store_assoc = StubStoreAssoc(subops, dest_established)
    ae = StubAE(store_assoc, associate_raises)
    if k.style == "find":
        handler = script.generator_handler(log)
    elif k.style == "get":
        handler = script.generator_handler(log, first=(n_sub,) if first_override is None else first_override)
    elif k.style == "move":
        handler = script.generator_handler(log, first=(destination, n_sub) if first_override is None else first_override)
    elif k.style == "pair":
        handler = script.return_handler(log)
    else:
        handler = script.return_handler(log, status_only=True)
    assoc = StubAssoc(handler, subops, ae, StubACSE(peer_end_at, peer_end_release))
    req = k.request(msg_id)
    if req_edit is not None:
        req_edit(req)
    cx = k.context(cx_id)
    if ts is not None:
        cx.transfer_syntax = [ts]
    svc = k.cls(assoc)
    out = Run()
    out.escaped = None
    try:
        svc.SCP(req, cx)
    except Exception as e:           # in the real reactor: _serve_request logs it and ABORTS the association
        out.escaped = e
    out.kernel, out.assoc, out.sent, out.subops, out.store_assoc, out.ae = k, assoc, assoc.dimse.sent, subops, store_assoc, ae
    out.ended = assoc.ended_by_handler or assoc.acse.peer_ended
    out.req, out.cx = req, cx
    if any(x.sentinel for x in out.sent) and out.escaped is None:
        out.escaped = AssertionError("formatted-number sentinel leaked into a response")
    return out


# ---------------------------------------------------------------------------------------------
# C07: single-step environment of the real Association._run_reactor
class FakeDUL:
    """assoc.dul without threads: a queue of primitives for the user, a record of what was sent."""

    def __init__(self):
        self.sent = []
        self.to_user_queue = queue.Queue()
        self.alive = True
        self.socket = None

    def send_pdu(self, p):
        self.sent.append(p)

    def peek_next_pdu(self):
        try:
            return self.to_user_queue.queue[0]
        except IndexError:
            return None

    def receive_pdu(self, wait=False, timeout=None):
        try:
            return self.to_user_queue.get(block=False)
        except queue.Empty:
            return None

    def is_alive(self):
        return self.alive

    def stop_dul(self):
        self.alive = False
        return True

    def kill_dul(self):
        self.alive = False

    def idle_timer_expired(self):
        return False


class Checkpoint:
    """Stand-in for Association._reactor_checkpoint: wait() is called once per iteration of the
    real _run_reactor loop; the (budget+1)-th call leaves the loop with Stop."""

    def __init__(self, budget):
        self.n = 0
        self.budget = budget

    def wait(self, timeout=None):
        self.n += 1
        if self.n > self.budget:
            raise Stop()
        return True

    def set(self):
        pass

    def clear(self):
        pass

    def is_set(self):
        return True
