"""Integer stand-ins for sizes and buffers (DESIGN.md section 4.5), used by C15.

* ``Num``  - an int stand-in whose true division is exact: ``Num / x`` gives ``Frac(n, d)`` instead of a
  float (CrossHair forks symbolic floats into a real and an IEEE model and z3 does not finish on them).
* ``Frac`` - the exact rational n/d (d > 0) produced by that division.
* ``exact_ceil(K)`` - stand-in for ``math.ceil``: the exact ceiling of a ``Frac`` found by the case
  split k = 0..K with the *linear* constraints (k-1)*d < n <= k*d (k is a concrete int on every
  path, so there is no symbolic * symbolic); a quotient above K leaves the stated unwinding bound and
  aborts the path (not a pass, not a failure).  Everything that is not a ``Frac`` goes to ``math.ceil``.
* ``Seg(src, lo, hi)`` - a bytes-like that denotes the half-open range [lo, hi) of an abstract buffer
  ``src``; ``len`` is a ``Num``, slices are clamped exactly like ``bytes`` slices but stay symbolic
  (slicing real symbolic bytes with symbolic bounds realises the bounds: fatal for 2^32 ranges).
* ``Cat(head, seg)`` - ``b"\\x03" + Seg``: concrete head bytes followed by a ``Seg`` (a PDV value).
* ``SegFile`` - a read-only binary file object over a ``Seg`` (``seek``/``read``/``tell``), for the
  file-backed branch of ``encode_msg``.
* ``SegSink`` - a write-only buffer that records the ``Seg``s written to it (stand-in for the two
  ``BytesIO`` buffers of a ``DIMSEMessage`` when the payload is a ``Seg``).
* ``seg_len`` - ``len`` that hands a ``Num`` through unchanged (the builtin converts the result of
  ``__len__`` with ``__index__`` to a plain int, which would bring float division back).

The float step that is replaced (Python's ``ceil(a / b)`` on ints) is justified separately by lemma
L-ceil, see tools/lceil_lemma.py.
"""
import builtins
import math


def _v(o):
    return o.v if isinstance(o, Num) else o


class Frac:
    """exact n/d, produced by Num / x instead of a float"""

    __slots__ = ("n", "d")

    def __init__(self, n, d):
        self.n, self.d = n, d

    def __repr__(self):
        return "Frac(%r, %r)" % (self.n, self.d)


class Num:
    """int stand-in that keeps true division exact (no float)"""

    __slots__ = ("v",)

    def __init__(self, v):
        self.v = _v(v)

    def __truediv__(self, o):
        return Frac(self.v, _v(o))

    def __rtruediv__(self, o):
        return Frac(_v(o), self.v)

    def __sub__(self, o):
        return Num(self.v - _v(o))

    def __rsub__(self, o):
        return Num(_v(o) - self.v)

    def __add__(self, o):
        return Num(self.v + _v(o))

    __radd__ = __add__

    def __neg__(self):
        return Num(-self.v)

    def __eq__(self, o):
        return self.v == _v(o)

    def __ne__(self, o):
        return self.v != _v(o)

    def __lt__(self, o):
        return self.v < _v(o)

    def __le__(self, o):
        return self.v <= _v(o)

    def __gt__(self, o):
        return self.v > _v(o)

    def __ge__(self, o):
        return self.v >= _v(o)

    def __bool__(self):
        return True if self.v != 0 else False

    def __int__(self):
        return self.v

    def __index__(self):
        return self.v

    def __hash__(self):
        return hash(self.v)

    def __repr__(self):
        return "Num(%r)" % (self.v,)


def _outside(msg):
    """leave the stated bound: abort the path (CrossHair's IgnoreAttempt; the replay driver recognises
    it by name as 'out of bounds', neither pass nor failure)"""
    from crosshair.util import IgnoreAttempt

    raise IgnoreAttempt(msg)


def exact_ceil(K):
    """math.ceil stand-in: exact ceiling of a Frac by case split k = 0..K (linear constraints only)."""

    def _ceil(x):
        if isinstance(x, Frac):
            n, d = x.n, x.d
            if not (d > 0 and n >= 0):
                _outside("ceil of a negative or undefined quotient: outside the claim")
            for k in range(0, K + 1):
                if (k - 1) * d < n and n <= k * d:
                    return k
            _outside("more than K=%d fragments: outside the unwinding bound" % K)
        return math.ceil(x)

    _ceil.K = K
    return _ceil


def seg_len(x):
    """len() that does not squeeze a Num through __index__"""
    if isinstance(x, (Seg, Cat)):
        return x.__len__()
    return builtins.len(x)


def num_len(x):
    """len() that always answers with a Num (for real bytes whose length must divide exactly)"""
    if isinstance(x, (Seg, Cat)):
        return x.__len__()
    return Num(builtins.len(x))


def _clamp_slice(sl, n):
    """start/stop of a step-less slice with non-negative bounds, clamped like bytes slicing"""
    if sl.step is not None:
        raise NotImplementedError("Seg: stepped slice")
    a = 0 if sl.start is None else _v(sl.start)
    b = n if sl.stop is None else _v(sl.stop)
    if a < 0 or b < 0:
        raise NotImplementedError("Seg: negative slice bound")
    a = a if a < n else n
    b = b if b < n else n
    if b < a:
        b = a
    return a, b


class Seg:
    """the range [lo, hi) of the abstract buffer `src`"""

    __slots__ = ("src", "lo", "hi")

    def __init__(self, src, lo, hi):
        self.src, self.lo, self.hi = src, _v(lo), _v(hi)

    def size(self):
        return self.hi - self.lo

    def __len__(self):
        return Num(self.hi - self.lo)

    def __bool__(self):
        return True if self.hi - self.lo > 0 else False

    def __getitem__(self, sl):
        if not isinstance(sl, slice):
            raise NotImplementedError("Seg: content is abstract")
        a, b = _clamp_slice(sl, self.hi - self.lo)
        return Seg(self.src, self.lo + a, self.lo + b)

    def __radd__(self, head):
        if isinstance(head, (bytes, bytearray)):
            return Cat(bytes(head), self)
        return NotImplemented

    def __repr__(self):
        return "Seg(%r, %r, %r)" % (self.src, self.lo, self.hi)


class Cat:
    """concrete head bytes followed by a Seg (what `b"\\x03" + fragment` denotes)"""

    __slots__ = ("head", "seg")

    def __init__(self, head, seg):
        self.head, self.seg = head, seg

    def __len__(self):
        return Num(builtins.len(self.head) + self.seg.size())

    def __bool__(self):
        return True if builtins.len(self.head) + self.seg.size() > 0 else False

    def __getitem__(self, i):
        h = builtins.len(self.head)
        if isinstance(i, slice):
            if i.step is None and i.stop is None and isinstance(i.start, int) and 0 <= i.start <= h:
                if i.start == h:
                    return self.seg
                return Cat(self.head[i.start:], self.seg)
            if i.step is None and i.start in (None, 0) and isinstance(i.stop, int) and 0 <= i.stop <= h:
                return self.head[: i.stop]
            raise NotImplementedError("Cat: slice across the head/segment border")
        if isinstance(i, int) and 0 <= i < h:
            return self.head[i]
        raise NotImplementedError("Cat: content of the segment is abstract")

    def __repr__(self):
        return "Cat(%r, %r)" % (self.head, self.seg)


class SegFile:
    """read-only binary file over the abstract buffer `src` of `total` bytes (seek/tell/read)"""

    def __init__(self, src, total):
        self.src, self.total, self.pos = src, _v(total), 0
        self.closed = False
        self.reads = []

    def __enter__(self):
        return self

    def __exit__(self, *a):
        self.closed = True
        return False

    def close(self):
        self.closed = True

    def tell(self):
        return Num(self.pos)

    def seek(self, off, whence=0):
        off = _v(off)
        if whence == 0:
            p = off
        elif whence == 1:
            p = self.pos + off
        elif whence == 2:
            p = self.total + off
        else:
            raise ValueError("whence")
        if p < 0:
            raise OSError(22, "Invalid argument")
        self.pos = p
        return Num(p)

    def read(self, size=-1):
        size = _v(size)
        if size is None or size < 0:
            end = self.total
        else:
            end = self.pos + size
            if end > self.total:
                end = self.total
        if end < self.pos:  # position beyond the end of the file
            end = self.pos
        s = Seg(self.src, self.pos, end)
        self.pos = end
        self.reads.append(s)
        return s


class SegSink:
    """write-only buffer recording the Segs written to it, in order"""

    def __init__(self):
        self.parts = []

    def write(self, seg):
        if not isinstance(seg, Seg):
            raise TypeError("SegSink takes Segs")
        self.parts.append(seg)
        return seg.size()

    def covers(self, src, total):
        """True iff the recorded writes are exactly [0, total) of `src`, contiguous and in order"""
        pos = 0
        for s in self.parts:
            if s.src != src or s.lo != pos or s.hi < s.lo:
                return False
            pos = s.hi
        return pos == total
