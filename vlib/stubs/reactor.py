"""Single-thread environment for the DICOM upper-layer provider (C04, C05, C27; DESIGN 4.2, 4.7).

What is REAL here: `Association` (constructor, bind/get_handlers), `DULServiceProvider` (constructor,
`run_reactor`, `_process_recv_primitive`, `_is_transport_event`, `_read_pdu_data`, `_decode_pdu`, `_send`,
`kill_dul`), `StateMachine` and all action functions, `AssociationSocket` (`ready/recv/send/close/
_shutdown_socket/connect`), `Timer`, `queue.Queue`, the PDU classes and primitives, `evt.trigger`.

What is a STAND-IN (each is listed in the evidence of the harnesses that use it):
  * `FakeRaw`      the OS socket under `AssociationSocket` (whole PDUs are delivered; FIN; RST)
  * `FakeSelect`   `select.select` = "readable iff bytes pending, or the peer closed / reset"
  * `FakeSocketMod` constants + pure `getaddrinfo` (no name resolution, no OS)
  * `TickClock`    `time` inside pynetdicom.timer / pynetdicom.dul: integer ticks, `sleep` is a no-op
  * `RecDimse`     the DIMSE provider: records P-DATA indications instead of decoding messages
  * `StepStub`     the object behind `assoc._dul_ready`: `is_set()` is called at the top of every
                   `run_reactor` iteration, so it is the single-step point (no hook in the repo)
  * `UserView`     the local-user contract automaton of DESIGN C05 (a model of acse.py/association.py,
                   the one part that is not the code under test)
"""
import queue

from vlib.shim import untraced, out_of_bounds  # noqa: F401

import pynetdicom.dul as dulmod
import pynetdicom.events as evmod
import pynetdicom.timer as timermod
import pynetdicom.transport as trmod
from pynetdicom import AE
from pynetdicom._globals import MODE_ACCEPTOR, MODE_REQUESTOR
from pynetdicom.association import Association
from pynetdicom.fsm import InvalidEventError  # noqa: F401
from pynetdicom.pdu import (
    A_ABORT_RQ,
    A_ASSOCIATE_AC,
    A_ASSOCIATE_RJ,
    A_ASSOCIATE_RQ,
    A_RELEASE_RP,
    A_RELEASE_RQ,
    P_DATA_TF,
)
from pynetdicom.pdu_primitives import (
    A_ABORT,
    A_ASSOCIATE,
    A_P_ABORT,
    A_RELEASE,
    P_DATA,
    ImplementationClassUIDNotification,
    MaximumLengthNotification,
)
from pynetdicom.presentation import build_context
from pynetdicom.timer import Timer
from pynetdicom.transport import AddressInformation, AssociationSocket, T_CONNECT

STUBS = [
    "FakeRaw: the OS socket under the real AssociationSocket; the peer's PDUs arrive whole (segmentation is C03), "
    "FIN makes recv return b'' and RST makes recv/send raise ConnectionResetError",
    "FakeSelect: select.select reports readable iff bytes are pending or the peer closed/reset",
    "TickClock: pynetdicom.timer.time / pynetdicom.dul.time replaced by an integer tick clock (sleep is a no-op); "
    "ARTIM timeout = 10 ticks, 'expiry' = the clock jumps by 1000 ticks",
    "RecDimse: P-DATA indications are recorded, not decoded (DIMSE decoding is C15-C17)",
    "the real PDU decoder (_decode_pdu) and encoder (_send) run on the environment's fixed concrete PDUs without CrossHair's "
    "tracing (all their inputs are concrete; codec properties are C01-C03)",
    "pynetdicom's default logging handlers (standard_pdu_*/dimse_* handlers) are unbound",
    "StepStub behind assoc._dul_ready: one environment action at the top of every reactor iteration; a reactor "
    "iteration is atomic with respect to the environment (no pre-emption inside an iteration)",
]


class Stop(Exception):
    """Raised by the single-step stub when the schedule and the idle budget are used up."""


class Hang(Exception):
    """A blocking OS call that would never return (recv on a socket with no data and no timeout)."""


# --------------------------------------------------------------------------------------------
# time
class TickClock:
    """Stand-in for the `time` module.  `jump_after = k` makes the clock jump by `BIG` ticks after k more
    readings (k = 0: before the next reading) - this is how "the ARTIM timer expires" is scheduled, also
    in the middle of a reactor iteration."""

    BIG = 1000

    def __init__(self):
        self.now = 0
        self.jump_after = None
        self.reads = 0

    def monotonic(self):
        if self.jump_after is not None:
            if self.jump_after <= 0:
                self.now += self.BIG
                self.jump_after = None
            else:
                self.jump_after -= 1
        self.reads += 1
        return self.now

    time = monotonic
    perf_counter = monotonic

    def sleep(self, s):
        return None


ARTIM_TICKS = 10


# --------------------------------------------------------------------------------------------
# transport
class FakeRaw:
    """The OS-level socket.  `buf` = bytes the peer has sent and the local side has not read yet."""

    def __init__(self, log):
        self.buf = b""
        self.peer_closed = False   # FIN received
        self.reset = False         # RST received
        self.closed_local = False  # close() called locally
        self.shutdown_local = False
        self.connected_to = None
        self.timeout = None
        self.sent = []             # one entry per successful send() call
        self.consumed = b""        # every byte handed to the local side by recv()
        self.log = log

    # the peer's side -------------------------------------------------------------------
    def deliver(self, data):
        if not (self.peer_closed or self.reset or self.closed_local):
            self.buf += data
            return True
        return False

    # the local side --------------------------------------------------------------------
    def recv(self, n):
        if self.closed_local:
            raise OSError(9, "Bad file descriptor")
        if self.reset:
            raise ConnectionResetError(104, "Connection reset by peer")
        out = self.buf[:n]
        self.buf = self.buf[n:]
        if not out and not self.peer_closed:
            if self.timeout is None:
                raise Hang("recv() with nothing to read on a socket without timeout")
            raise TimeoutError("timed out")
        self.consumed += out
        return out

    def send(self, b):
        if self.closed_local:
            raise OSError(9, "Bad file descriptor")
        if self.reset:
            raise ConnectionResetError(104, "Connection reset by peer")
        b = bytes(b)
        self.sent.append(b)
        self.log.append(("tx", b))
        return len(b)

    def shutdown(self, how):
        if self.closed_local:
            raise OSError(9, "Bad file descriptor")
        self.shutdown_local = True

    def close(self):
        if not self.closed_local:
            self.log.append(("raw.close",))
        self.closed_local = True

    def settimeout(self, t):
        self.timeout = t

    def gettimeout(self):
        return self.timeout

    def connect(self, address):
        if self.connected_to is not None:
            raise OSError(106, "Transport endpoint is already connected")
        self.connected_to = address
        self.log.append(("raw.connect", address))

    def getsockname(self):
        return ("10.0.0.1", 40000)

    def fileno(self):
        return -1 if self.closed_local else 7


class FakeSelect:
    @staticmethod
    def select(r, w, x, t=None):
        s = r[0]
        if s.closed_local:
            raise ValueError("file descriptor cannot be a negative integer (-1)")
        if s.buf or s.peer_closed or s.reset:
            return ([s], [], [])
        return ([], [], [])


class _GaiError(OSError):
    pass


class FakeSocketMod:
    """`socket` as seen by pynetdicom.transport: constants and a pure getaddrinfo (numeric hosts only)."""

    AF_INET, AF_INET6, SOCK_STREAM, SOL_SOCKET, SO_REUSEADDR, SHUT_RDWR, AI_PASSIVE = 2, 10, 1, 1, 2, 2, 1
    gaierror = _GaiError
    error = OSError
    timeout = TimeoutError

    @staticmethod
    def getaddrinfo(host, port, family=0, type=0, proto=0, flags=0):
        host = host or "0.0.0.0"
        fam = FakeSocketMod.AF_INET6 if ":" in host else FakeSocketMod.AF_INET
        return [(fam, 1, 6, "", (host, port))]

    class socket:  # only so that `socket.socket` type hints / isinstance keep working
        pass


def address(host, port):
    a = AddressInformation.__new__(AddressInformation)
    a._addr, a.port, a.scope_id, a.flowinfo = host, port, 0, 0
    return a


REQ_ADDR = ("10.0.0.1", 40000)
ACC_ADDR = ("10.0.0.2", 104)


class FixedDatetime:
    """Event.timestamp: the wall clock is not the subject of any property here."""

    import datetime as _dt
    _T = _dt.datetime(2024, 1, 1)

    @classmethod
    def now(cls):
        return cls._T


class patched_modules:
    """Replace the OS-facing module references inside pynetdicom for the duration of a harness run."""

    def __init__(self, clock):
        self.clock = clock

    def __enter__(self):
        self.saved = (trmod.select, trmod.socket, dulmod.time, timermod.time, evmod.datetime)
        trmod.select = FakeSelect
        trmod.socket = FakeSocketMod
        dulmod.time = self.clock
        timermod.time = self.clock
        evmod.datetime = FixedDatetime
        return self

    def __exit__(self, *exc):
        trmod.select, trmod.socket, dulmod.time, timermod.time, evmod.datetime = self.saved
        return False


# --------------------------------------------------------------------------------------------
# primitives and the peer's PDUs (all concrete, built once with the real classes)
_UID_VERIF = "1.2.840.10008.1.1"
_UID_IVRLE = "1.2.840.10008.1.2"


def _user_info():
    ml = MaximumLengthNotification()
    ml.maximum_length_received = 16382
    ic = ImplementationClassUIDNotification()
    ic.implementation_class_uid = "1.2.3.4"
    return [ml, ic]


def assoc_request_primitive():
    p = A_ASSOCIATE()
    p.application_context_name = "1.2.840.10008.3.1.1.1"
    p.calling_ae_title, p.called_ae_title = "REQ", "ACC"
    p.calling_presentation_address = address(*REQ_ADDR)
    p.called_presentation_address = address(*ACC_ADDR)
    cx = build_context(_UID_VERIF, _UID_IVRLE)
    cx.context_id = 1
    p.presentation_context_definition_list = [cx]
    p.user_information = _user_info()
    return p


def assoc_accept_primitive():
    p = A_ASSOCIATE()
    p.application_context_name = "1.2.840.10008.3.1.1.1"
    p.calling_ae_title, p.called_ae_title = "REQ", "ACC"
    p.result, p.result_source = 0, 1
    cx = build_context(_UID_VERIF, _UID_IVRLE)
    cx.context_id, cx.result = 1, 0
    p.presentation_context_definition_results_list = [cx]
    p.user_information = _user_info()
    return p


def assoc_reject_primitive(result=1, source=1, diagnostic=1):
    p = A_ASSOCIATE()
    p.result, p.result_source, p.diagnostic = result, source, diagnostic
    return p


def release_primitive(response=False):
    p = A_RELEASE()
    if response:
        p.result = "affirmative"
    return p


def abort_primitive(source=0):
    p = A_ABORT()
    p.abort_source = source
    return p


def p_abort_primitive(reason=0):
    p = A_P_ABORT()
    p.provider_reason = reason
    return p


def pdata_primitive():
    p = P_DATA()
    p.presentation_data_value_list = [[1, b"\x03\x00"]]
    return p


def _abort_bytes(source, reason):
    return b"\x07\x00\x00\x00\x00\x04\x00\x00" + bytes([source, reason])


RQ_BYTES = A_ASSOCIATE_RQ(assoc_request_primitive()).encode()
RQ_BAD_VERSION_BYTES = RQ_BYTES[:6] + b"\x00\x02" + RQ_BYTES[8:]   # protocol-version: bit 0 not set
AC_BYTES = A_ASSOCIATE_AC(assoc_accept_primitive()).encode()
RJ_BYTES = A_ASSOCIATE_RJ(assoc_reject_primitive()).encode()
PDATA_BYTES = P_DATA_TF(pdata_primitive()).encode()
RELRQ_BYTES = A_RELEASE_RQ(release_primitive()).encode()
RELRP_BYTES = A_RELEASE_RP(release_primitive(True)).encode()
ABORT_BYTES = _abort_bytes(0, 0)
P_ABORT_BYTES = _abort_bytes(2, 0)
JUNK_BYTES = b"\x09\x00\x00\x00\x00\x00"              # unrecognised PDU type -> Evt19
BAD_AC_BYTES = b"\x02\x00\x00\x00\x00\x02\x00\x01"    # recognised type, undecodable body -> Evt19
TRUNC_BYTES = RELRQ_BYTES[:4]                          # fewer than 6 header bytes, followed by FIN -> Evt17


def decoded(cls, data):
    pdu = cls()
    pdu.decode(data)
    return pdu


# --------------------------------------------------------------------------------------------
# neighbours
class RecDimse:
    def __init__(self, log):
        self.log = log
        self.msg_queue = queue.Queue()

    def receive_primitive(self, primitive):
        self.log.append(("ind", "P-DATA indication"))


class RecQueue(queue.Queue):
    """to_user_queue: a real queue.Queue that also logs what the provider issues to the user."""

    def __init__(self, log):
        super().__init__()
        self.log = log

    def put(self, item, block=True, timeout=None):
        self.log.append(("ind", indication_kind(item)))
        return super().put(item, block, timeout)


class RecTimer(Timer):
    """The real Timer; start/stop calls are also logged (restart() calls start())."""

    def __init__(self, timeout, log):
        super().__init__(timeout)
        self.log = log

    def start(self):
        self.log.append(("artim", "start"))
        return Timer.start(self)

    def stop(self):
        self.log.append(("artim", "stop"))
        return Timer.stop(self)

    @property
    def running(self):
        return self._start_time is not None and self._end_time is None


def indication_kind(item):
    """Classify a primitive issued to the user (PS3.8 section 7 vocabulary)."""
    if isinstance(item, A_ASSOCIATE):
        if item.result is None:
            return "A-ASSOCIATE indication"
        return "A-ASSOCIATE confirmation (accept)" if item.result == 0 else "A-ASSOCIATE confirmation (reject)"
    if isinstance(item, A_RELEASE):
        return "A-RELEASE indication" if item.result is None else "A-RELEASE confirmation"
    if isinstance(item, A_ABORT):
        return "A-ABORT indication"
    if isinstance(item, A_P_ABORT):
        return "A-P-ABORT indication"
    if isinstance(item, P_DATA):
        return "P-DATA indication"
    return "unknown:" + type(item).__name__


class StepStub:
    """Stands in for `assoc._dul_ready` (a threading.Event).  `is_set()` is the first statement of every
    reactor iteration; `on_step(i)` performs the i-th environment action and may raise Stop."""

    def __init__(self, on_step):
        self.on_step = on_step
        self.calls = 0

    def is_set(self):
        i = self.calls
        self.calls += 1
        self.on_step(i)
        return True

    def set(self):
        return None

    def wait(self, *a):
        return True

    def clear(self):
        return None


# --------------------------------------------------------------------------------------------
# the provider under test
_AE = AE()


class Provider:
    """A real Association + DULServiceProvider + StateMachine + AssociationSocket put directly into
    `state` (no threads are started).  Build it inside `with untraced():`."""

    def __init__(self, state, requestor, clock, connected=True, adopt=None):
        self.clock = clock
        if adopt is None:
            self.log = log = []
            self.assoc = assoc = Association(_AE, MODE_REQUESTOR if requestor else MODE_ACCEPTOR)
            assoc.requestor.address_info = address(*REQ_ADDR)
            assoc.acceptor.address_info = address(*ACC_ADDR)
            drop_log_handlers(assoc)
            self.raw = raw = FakeRaw(log)
            sock = AssociationSocket.__new__(AssociationSocket)
            sock._assoc = assoc
            sock.socket = raw
            sock._is_connected = connected
            sock._tls_args = None
            sock.select_timeout = 0.5
            assoc.dul.socket = sock
        else:
            # an association that the real RequestHandler.handle() created around `raw`
            assoc, raw, log = adopt
            self.log, self.assoc, self.raw = log, assoc, raw
            sock = assoc.dul.socket
        assoc.dimse = RecDimse(log)
        self.dul = dul = assoc.dul
        sock._ready = StepStub(lambda i: None)
        self.sock = sock
        dul.to_user_queue = RecQueue(log)
        dul.artim_timer = RecTimer(ARTIM_TICKS, log)
        dul._idle_timer = Timer(None)
        dul._run_loop_delay = 0
        dul.state_machine.current_state = state
        if state in ("Sta2", "Sta13"):
            # PS3.8: the ARTIM timer is running in exactly these two states
            dul.artim_timer._start_time, dul.artim_timer._end_time = clock.now, None

    def concrete_codec(self):
        """The PDUs in this environment are fixed concrete byte strings / primitives: let the real PDU decoder
        (`_decode_pdu`) and the real encoder + socket write (`_send`) run untraced.  Same functions, same values -
        only CrossHair's per-opcode interception is switched off for them (it dominated the path cost)."""
        dul = self.dul
        real_decode, real_send = dul._decode_pdu, dul._send

        def _decode_pdu(bytestream):
            with untraced():
                return real_decode(bytestream)

        def _send(pdu):
            with untraced():
                return real_send(pdu)
        dul._decode_pdu, dul._send = _decode_pdu, _send

    @property
    def state(self):
        return self.dul.state_machine.current_state

    @property
    def transport_closed(self):
        """The local end of the transport connection has been closed (or was never opened)."""
        return self.raw.closed_local or self.raw.connected_to is None and not self.sock._is_connected

    def run(self, on_step):
        """Run the real reactor in this thread; `on_step(i)` is called at the top of iteration i.
        Returns "returned" if run_reactor came back by itself, "stopped" if the stub stopped it."""
        self.assoc._dul_ready = StepStub(on_step)
        try:
            self.dul.run_reactor()
        except Stop:
            return "stopped"
        return "returned"


# --------------------------------------------------------------------------------------------
# notification recording (C27)
from pynetdicom import evt as _evt  # noqa: E402

WIRE_EVENTS = [_evt.EVT_FSM_TRANSITION, _evt.EVT_CONN_OPEN, _evt.EVT_CONN_CLOSE, _evt.EVT_PDU_SENT, _evt.EVT_PDU_RECV,
               _evt.EVT_DATA_SENT, _evt.EVT_DATA_RECV, _evt.EVT_ACSE_SENT, _evt.EVT_ACSE_RECV]
ASSOC_EVENTS = [_evt.EVT_REQUESTED, _evt.EVT_ACCEPTED, _evt.EVT_REJECTED, _evt.EVT_ESTABLISHED, _evt.EVT_RELEASED,
                _evt.EVT_ABORTED]


def recorder(log):
    """A notification handler that appends ("evt", name, payload) to `log` - the same list the fake OS socket
    writes ("tx", bytes) / ("raw.close",) / ("raw.connect", addr) to, so the relative order is observable."""

    def handler(event):
        name = event.event.name
        if name == "EVT_FSM_TRANSITION":
            payload = (event.current_state, event.fsm_event, event.action, event.next_state)
        elif name in ("EVT_PDU_SENT", "EVT_PDU_RECV"):
            payload = bytes(event.pdu.encode())
        elif name in ("EVT_DATA_SENT", "EVT_DATA_RECV"):
            payload = bytes(event.data)
        elif name in ("EVT_CONN_OPEN", "EVT_CONN_CLOSE"):
            payload = tuple(event.address)
        else:
            payload = None
        log.append(("evt", name, payload))

    return handler


def drop_log_handlers(assoc):
    """Unbind pynetdicom's default logging handlers (logging is not a subject of any property here; an exception
    in one of them would also keep later handlers from running - that interplay is C26's subject)."""
    from pynetdicom import _handlers as hm

    for e, f in ((_evt.EVT_DIMSE_RECV, hm.standard_dimse_recv_handler), (_evt.EVT_DIMSE_SENT, hm.standard_dimse_sent_handler),
                 (_evt.EVT_PDU_RECV, hm.standard_pdu_recv_handler), (_evt.EVT_PDU_SENT, hm.standard_pdu_sent_handler)):
        assoc.unbind(e, f)


def bind_recorder(assoc, log, events):
    drop_log_handlers(assoc)
    h_ = recorder(log)
    for e in events:
        assoc.bind(e, h_)      # the real Association.bind / evt._add_handler
    return h_


class _FakeServer:
    """What RequestHandler reads from its server."""

    def __init__(self, ae, handlers):
        self.ae = ae
        self.ae_title = "ACC"
        self.server_address = ACC_ADDR
        self.contexts = []
        self._handlers = handlers

    def shutdown_request(self, request):
        return None


def accept_connection(clock, events):
    """The acceptor's side of "a TCP connection arrives": the real RequestHandler.handle() creates the
    Association and its AssociationSocket around the accepted OS socket (which queues Evt5), binds the server's
    handlers and triggers EVT_CONN_OPEN.  Only `Association.start` (thread start) is suppressed.
    Returns a Provider in Sta1 with Evt5 pending."""
    from pynetdicom.transport import RequestHandler

    log = []
    raw = FakeRaw(log)
    raw.connected_to = REQ_ADDR
    h_ = recorder(log)
    server = _FakeServer(_AE, {e: [(h_, None)] for e in events})
    rh = RequestHandler.__new__(RequestHandler)
    rh.request, rh.client_address, rh.server = raw, REQ_ADDR, server
    made = []
    real_create = RequestHandler._create_association

    def create(self):
        a = real_create(self)
        # no thread: the harness thread runs the reactors; the moment the thread WOULD start is recorded, because
        # from then on the association / provider threads can emit notifications concurrently
        a.start = lambda: log.append(("thread.start",))
        made.append(a)
        return a

    RequestHandler._create_association = create
    try:
        rh.handle()
    finally:
        RequestHandler._create_association = real_create
    drop_log_handlers(made[0])
    return Provider("Sta1", False, clock, adopt=(made[0], raw, log))


# --------------------------------------------------------------------------------------------
# a DUL stand-in for association-level kernels (C27 established / released / aborted ordering)
class FakeDUL:
    """Records what the association layer sends and hands out a scripted sequence of indications.
    `script` is a list of primitives (None = the wait timed out).  No protocol logic."""

    def __init__(self, assoc, script, log):
        self.assoc, self.script, self.log = assoc, list(script), log
        self.sent = []
        self.killed = False
        self.socket = None
        self.state_machine = type("SM", (), {"current_state": "Sta6"})()
        self._idle_timer = Timer(None)
        self.artim_timer = Timer(None)
        self._run_loop_delay = 0

    def send_pdu(self, primitive):
        if isinstance(primitive, (A_ASSOCIATE, A_RELEASE, A_ABORT, A_P_ABORT)):
            _evt.trigger(self.assoc, _evt.EVT_ACSE_SENT, {"primitive": primitive})
        self.sent.append(primitive)
        self.log.append(("sent", indication_kind(primitive)))

    def peek_next_pdu(self):
        return self.script[0] if self.script else None

    def receive_pdu(self, wait=False, timeout=None):
        if not self.script:
            return None
        item = self.script.pop(0)
        if item is not None:
            _evt.trigger(self.assoc, _evt.EVT_ACSE_RECV, {"primitive": item})
        return item

    def idle_timer_expired(self):
        return False

    def kill_dul(self):
        self.killed = True

    def stop_dul(self):
        self.killed = True
        return True

    def is_alive(self):
        return not self.killed

    def start(self):
        return None


# --------------------------------------------------------------------------------------------
# the local user (DESIGN C05, "Environment contract for the local user")
#
# The association layer learns of provider events only by consuming indications from to_user_queue;
# which primitives it may issue depends on its VIEW (what it has sent and consumed), not on the
# provider's state.  Call sites the table is derived from:
#   requestor, nothing sent        acse.send_request (acse._negotiate_as_requestor)
#   request sent                   acse._negotiate_as_requestor: receive_pdu(timeout) -> None -> assoc.abort()
#   acceptor, nothing consumed     association.run_reactor: receive_pdu(wait, acse_timeout); assoc.abort() is
#                                  public API (AE.shutdown() aborts every active association)
#   A-ASSOCIATE indication taken   acse._negotiate_as_acceptor: send_accept / send_reject / send_abort
#   established                    dimse.send_msg -> P-DATA; assoc.release() -> acse.negotiate_release;
#                                  assoc.abort(); acse.send_ap_abort (invalid DIMSE message)
#   release indication taken       association._run_reactor: send_release(is_response=True); a Q/R SCP still
#                                  sends its final response after _wrap_handler consumed the indication
#   release request sent           acse.negotiate_release: collision -> requestor answers on the request
#                                  indication, acceptor after the confirmation; timeout -> send_abort
#   done                           nothing (association.kill)
V_REQ_IDLE, V_REQ_SENT, V_ACC_WAIT, V_ACC_IND, V_EST, V_REL_IND, V_REL_SENT, V_COLL, V_COLL_CNF, V_COLL_RP, \
    V_DONE = range(11)

U_ASSOC_RQ, U_ACCEPT, U_REJECT, U_PDATA, U_RELRQ, U_RELRP, U_ABORT, U_ABORT2, U_PABORT = range(9)
USER_EVENT = {U_ASSOC_RQ: "Evt1", U_ACCEPT: "Evt7", U_REJECT: "Evt8", U_PDATA: "Evt9", U_RELRQ: "Evt11",
              U_RELRP: "Evt14", U_ABORT: "Evt15", U_ABORT2: "Evt15", U_PABORT: "Evt15"}
_ABORTS = (U_ABORT, U_ABORT2, U_PABORT)


class UserView:
    def __init__(self, view, requestor):
        self.view = view
        self.requestor = requestor
        self.stale = False   # an indication that would change the view is queued but not yet consumed

    def admissible(self, u):
        v = self.view
        if v == V_DONE:
            return False
        if u == U_ABORT:
            return v != V_REQ_IDLE          # public Association.abort()
        if u in (U_ABORT2, U_PABORT):
            return v == V_EST               # acse.send_abort(0x02) / send_ap_abort from the DIMSE layer
        if u == U_ASSOC_RQ:
            return v == V_REQ_IDLE
        if u in (U_ACCEPT, U_REJECT):
            return v == V_ACC_IND
        if u == U_PDATA:
            return v in (V_EST, V_REL_IND)
        if u == U_RELRQ:
            return v == V_EST
        if u == U_RELRP:
            if v == V_REL_IND:
                return True
            if v == V_COLL:
                return self.requestor       # requestor answers at once
            return v == V_COLL_CNF          # acceptor answers after the peer's response
        return False

    def sent(self, u):
        v = self.view
        if u in _ABORTS or u == U_REJECT:
            self.view = V_DONE
        elif u == U_ASSOC_RQ:
            self.view = V_REQ_SENT
        elif u == U_ACCEPT:
            self.view = V_EST
        elif u == U_RELRQ:
            self.view = V_REL_SENT
        elif u == U_RELRP:
            self.view = V_COLL_RP if v == V_COLL else V_DONE

    def consumed(self, item):
        """The user took `item` off to_user_queue (or peeked at an abort, which tells it the same)."""
        v = self.view
        if isinstance(item, (A_ABORT, A_P_ABORT)):
            self.view = V_DONE
        elif isinstance(item, A_ASSOCIATE):
            if item.result is None:
                self.view = V_ACC_IND if v == V_ACC_WAIT else V_DONE
            elif item.result == 0:
                self.view = V_EST if v == V_REQ_SENT else V_DONE
            else:
                self.view = V_DONE
        elif isinstance(item, A_RELEASE):
            if item.result is None:
                if v == V_EST:
                    self.view = V_REL_IND
                elif v == V_REL_SENT:
                    self.view = V_COLL
                else:
                    self.view = V_DONE      # "received A-RELEASE or some weird object": kill
            else:
                if v == V_COLL and not self.requestor:
                    self.view = V_COLL_CNF
                else:
                    self.view = V_DONE      # released
        else:
            self.view = V_DONE


def user_primitive(u):
    if u == U_ASSOC_RQ:
        return assoc_request_primitive()
    if u == U_ACCEPT:
        return assoc_accept_primitive()
    if u == U_REJECT:
        return assoc_reject_primitive()
    if u == U_PDATA:
        return pdata_primitive()
    if u == U_RELRQ:
        return release_primitive(False)
    if u == U_RELRP:
        return release_primitive(True)
    if u == U_ABORT:
        return abort_primitive(0)
    if u == U_ABORT2:
        return abort_primitive(2)
    if u == U_PABORT:
        return p_abort_primitive(0)
    raise ValueError(u)
