"""Stand-ins for the neighbours of the ACSE kernel (C12, C13).  No protocol logic in here.

* FakeDUL            - records every primitive handed to `send_pdu`; hands out scripted primitives
                       from `receive_pdu` / `peek_next_pdu`; never alive (so `Association.kill()`
                       returns at once and `_run_reactor` leaves after one iteration).
* FakeSock           - what `AE._create_socket` would return (nothing bound, nothing connected).
* FakeSocketModule   - `socket` as seen by `pynetdicom.transport`: `getaddrinfo` answers from a
                       fixed table instead of asking the resolver (CrossHair's audit hook aborts
                       paths that touch the OS); everything else is the real module's constant.
* FakeThreading      - `threading` as seen by `pynetdicom.ae`: `enumerate()` returns a prepared list
                       (used for `AE.active_associations`), the rest is the real module.
* FixedDatetime      - `datetime` as seen by `pynetdicom.ae` (thread name time stamp).
* ScriptedDimse      - the DIMSE provider of an acceptor association: `get_msg` hands out the
                       prepared (context id, request) pairs once, `send_msg` records.
* OneShotCheckpoint  - `assoc._reactor_checkpoint`: lets `_run_reactor` run `n` iterations, then
                       raises `StopReactor` (single-step point, HARNESS_GUIDE).
* HandlerLog         - recording handlers for every intervention event (EVT_C_*, EVT_N_*, ...).
"""
import socket as _real_socket
import threading as _real_threading


class StopReactor(Exception):
    pass


class FakeSock:
    tls_args = None

    def __init__(self):
        self._ready = _real_threading.Event()
        self._ready.set()
        self._is_connected = False
        self.socket = None

    def close(self):
        self._is_connected = False


class FakeDUL:
    def __init__(self, incoming=None):
        self.sent = []
        self.incoming = list(incoming or [])
        self.socket = None
        self.stopped = 0
        self.killed = 0

    # --- towards the peer
    def send_pdu(self, primitive):
        self.sent.append(primitive)

    # --- from the peer
    def receive_pdu(self, wait=False, timeout=None):
        if self.incoming:
            return self.incoming.pop(0)
        return None

    def peek_next_pdu(self):
        if self.incoming:
            return self.incoming[0]
        return None

    # --- life cycle
    def is_alive(self):
        return False

    def stop_dul(self):
        self.stopped += 1
        return True

    def kill_dul(self):
        self.killed += 1

    def start(self):
        raise AssertionError("the DUL thread must never be started in a harness")

    def idle_timer_expired(self):
        return False


class FakeSocketModule:
    """Only `getaddrinfo` differs from the real module."""

    TABLE = {
        None: [(_real_socket.AF_INET, _real_socket.SOCK_STREAM, 6, "", ("0.0.0.0", 0))],
        "": [(_real_socket.AF_INET, _real_socket.SOCK_STREAM, 6, "", ("0.0.0.0", 0))],
        "127.0.0.1": [(_real_socket.AF_INET, _real_socket.SOCK_STREAM, 6, "", ("127.0.0.1", 0))],
        "localhost": [(_real_socket.AF_INET, _real_socket.SOCK_STREAM, 6, "", ("127.0.0.1", 0))],
        "::1": [(_real_socket.AF_INET6, _real_socket.SOCK_STREAM, 6, "", ("::1", 0, 0, 0))],
    }

    def __getattr__(self, name):
        return getattr(_real_socket, name)

    def getaddrinfo(self, host, port, *a, **k):
        try:
            return list(self.TABLE[host])
        except KeyError:
            raise _real_socket.gaierror("fake resolver: unknown host %r" % (host,))


class FakeThreading:
    def __init__(self, threads):
        self._threads = threads

    def __getattr__(self, name):
        return getattr(_real_threading, name)

    def enumerate(self):
        return list(self._threads)


class FixedDatetime:
    """`datetime.now()` / `datetime.strftime(dt, fmt)` as used by AE.associate for the thread name."""

    @staticmethod
    def now():
        return None

    @staticmethod
    def strftime(dt, fmt):
        return "20260101000000"


class ScriptedDimse:
    def __init__(self, msgs=None):
        self.msgs = list(msgs or [])
        self.sent = []
        self.cancel_req = {}
        self.get_calls = 0

    def get_msg(self, block=False):
        self.get_calls += 1
        if self.msgs:
            return self.msgs.pop(0)
        return None, None

    def peek_msg(self):
        if self.msgs:
            return self.msgs[0]
        return None, None

    def send_msg(self, primitive, context_id):
        self.sent.append((context_id, primitive))

    def receive_primitive(self, primitive):
        raise AssertionError("no P-DATA is delivered in this harness")


class OneShotCheckpoint:
    def __init__(self, iterations=1):
        self.left = iterations
        self.cleared = 0

    def wait(self, timeout=None):
        if self.left <= 0:
            raise StopReactor()
        self.left -= 1
        return True

    def set(self):
        return None

    def clear(self):
        self.cleared += 1

    def is_set(self):
        return True


class HandlerLog:
    """One recording handler per intervention event; `calls` lists the names of the events whose
    handler ran.  `user_id` decides what the EVT_USER_ID handler does."""

    def __init__(self):
        self.calls = []

    def make(self, event, result):
        name = event.name

        def handler(evt_obj, *args):
            self.calls.append(name)
            if isinstance(result, BaseException):
                raise result
            if callable(result):
                return result(evt_obj)
            return result

        return handler

    def service_calls(self):
        return [c for c in self.calls if c.startswith("EVT_C_") or c.startswith("EVT_N_")]


# ---------------------------------------------------------------------------------------------
# unicodedata as seen by pynetdicom._validators
# ---------------------------------------------------------------------------------------------
import unicodedata as _real_unicodedata


def _first_letter_intervals():
    """{first letter of the general category: [(lo, hi), ...]} for the ASCII code points, computed
    from the real unicodedata table at import time."""
    out = {}
    for o in range(128):
        letter = _real_unicodedata.category(chr(o))[0]
        runs = out.setdefault(letter, [])
        if runs and runs[-1][1] == o - 1:
            runs[-1][1] = o
        else:
            runs.append([o, o])
    return {k: [tuple(r) for r in v] for k, v in out.items()}


_ASCII_FIRST_LETTER = _first_letter_intervals()


class _LazyLetter:
    """First letter of the category of an ASCII code point `o`; comparing it with a concrete letter
    is decided by interval tests on `o` (exact, forks once per interval of that letter)."""

    def __init__(self, o):
        self.o = o

    def _real(self):
        return _real_unicodedata.category(chr(int(self.o)))[0]

    def __eq__(self, other):
        if type(other) is str and len(other) == 1:
            for lo, hi in _ASCII_FIRST_LETTER.get(other, ()):
                if lo <= self.o and self.o <= hi:
                    return True
            return False
        return self._real() == other

    def __ne__(self, other):
        return not self.__eq__(other)

    def __hash__(self):
        return hash(self._real())

    def __str__(self):
        return self._real()

    __repr__ = __str__


class _LazyCategory:
    """`unicodedata.category(c)` for an ASCII character: only `[0]` stays lazy, every other use
    realises the character and asks the real table."""

    def __init__(self, o):
        self.o = o

    def _real(self):
        return _real_unicodedata.category(chr(int(self.o)))

    def __getitem__(self, i):
        if type(i) is int and i == 0:
            return _LazyLetter(self.o)
        return self._real()[i]

    def __eq__(self, other):
        return self._real() == other

    def __ne__(self, other):
        return self._real() != other

    def __hash__(self):
        return hash(self._real())

    def __str__(self):
        return self._real()

    __repr__ = __str__

    def startswith(self, prefix):
        return self._real().startswith(prefix)


class AsciiUnicodedata:
    """Exact stand-in for the `unicodedata` module inside `pynetdicom._validators`: for an ASCII
    character `category(c)[0] == "<letter>"` is answered by interval tests on `ord(c)` (table taken
    from the real module), so a symbolic character is not enumerated value by value; any other
    use, and every non-ASCII character, goes to the real function."""

    def __getattr__(self, name):
        return getattr(_real_unicodedata, name)

    def category(self, c):
        o = ord(c)
        if o < 128:
            return _LazyCategory(o)
        return _real_unicodedata.category(c)
