"""FakeOrm - the SQLAlchemy / SQLite stand-in of DESIGN C29, plus a minimal Dataset stand-in.

pynetdicom.apps.qrscp.db builds its queries with five column operations only: `==`, `>=`, `<=`,
`.like(pattern[, escape=])`, `.in_(values)` (and, in a proposed repair, `.op("GLOB")(pattern)`), combines them with
`query.filter(...)` (conjunction) and runs `query.all()`.  Here a column operation yields a *predicate over a
row*; a query is a list of rows (<= 3) plus the predicates collected so far.  The predicates follow the documented
SQLite semantics for TEXT columns with the default BINARY collation:

* `=`, `>=`, `<=`  - comparison of the UTF-8 encodings byte by byte = comparison of the code point sequences
  = Python `str` comparison;  NULL (None) on either side is never true;
* `IN (v1, ...)`   - `=` against any member;
* `LIKE`           - `%` any sequence (also empty), `_` exactly one character, every other character itself, ASCII
  letters compared case-insensitively (and only ASCII: SQLite without ICU), optional ESCAPE character making
  the following character literal (https://www.sqlite.org/lang_expr.html#like);
* `GLOB`           - `*` any sequence, `?` one character, `[...]` / `[^...]` character sets with ranges,
  case-sensitive, no escape character (same page);
* binding a Python list to a parameter is an error (sqlite3.ProgrammingError "type ... is not supported").

`selfcheck()` compares the LIKE and GLOB models with the real `sqlite3` module on a fixed corpus; it runs once per
process, outside CrossHair (harnesses call it at import time), and raises on any disagreement.
Rows, patterns and values may be symbolic strings: only operations CrossHair models are used.
"""
import itertools

__all__ = ["like_match", "glob_match", "Col", "FakeQuery", "FakeSession", "FakeOrmError", "make_instance_class",
           "MiniDataset", "Elem", "selfcheck", "VR_OF", "TAG_OF"]


class FakeOrmError(Exception):
    """What SQLAlchemy raises when the statement cannot be executed (stands for sqlalchemy.exc.ProgrammingError)."""


# ------------------------------------------------------------------------------------------------ LIKE / GLOB
def _ascii_lower(c):
    o = ord(c)
    if 65 <= o and o <= 90:
        return chr(o + 32)
    return c


def like_match(pattern, value, escape=None):
    """SQLite `value LIKE pattern [ESCAPE escape]`."""
    if pattern == "":
        return value == ""
    c = pattern[0]
    rest = pattern[1:]
    if escape is not None and c == escape:
        # the next pattern character is literal; a dangling escape never matches
        if rest == "":
            return False
        if value == "":
            return False
        if _ascii_lower(rest[0]) == _ascii_lower(value[0]):
            return like_match(rest[1:], value[1:], escape)
        return False
    if c == "%":
        if like_match(rest, value, escape):
            return True
        return value != "" and like_match(pattern, value[1:], escape)
    if value == "":
        return False
    if c == "_" or _ascii_lower(c) == _ascii_lower(value[0]):
        return like_match(rest, value[1:], escape)
    return False


def _glob_set(pattern, ch):
    """pattern starts just after '['.  Returns (matched, rest after the closing ']') or None if unterminated."""
    i = 0
    n = len(pattern)
    invert = False
    seen = False
    if i < n and pattern[i] == "^":
        invert = True
        i += 1
    if i < n and pattern[i] == "]":
        if ch == "]":
            seen = True
        i += 1
    prior = None
    while True:
        if i >= n:
            return None
        c2 = pattern[i]
        if c2 == "]":
            break
        if c2 == "-" and i + 1 < n and pattern[i + 1] != "]" and prior is not None:
            hi = pattern[i + 1]
            if prior <= ch and ch <= hi:
                seen = True
            prior = None
            i += 2
            continue
        if ch == c2:
            seen = True
        prior = c2
        i += 1
    return (seen != invert), pattern[i + 1:]


def glob_match(pattern, value):
    """SQLite `value GLOB pattern`."""
    if pattern == "":
        return value == ""
    c = pattern[0]
    rest = pattern[1:]
    if c == "*":
        if glob_match(rest, value):
            return True
        return value != "" and glob_match(pattern, value[1:])
    if value == "":
        return False
    if c == "?":
        return glob_match(rest, value[1:])
    if c == "[":
        r = _glob_set(rest, value[0])
        if r is None:
            return False
        ok, after = r
        if not ok:
            return False
        return glob_match(after, value[1:])
    if c == value[0]:
        return glob_match(rest, value[1:])
    return False


# ------------------------------------------------------------------------------------------------ columns / queries
def _is_list(v):
    return isinstance(v, (list, tuple)) or type(v).__name__ == "MultiValue"


class Pred:
    def __init__(self, fn, text):
        self.fn, self.text = fn, text

    def __call__(self, row):
        return self.fn(row)

    def __bool__(self):
        raise TypeError("Boolean value of this clause is not defined")  # as SQLAlchemy


class Col:
    """A mapped TEXT column of the `instance` table."""

    def __init__(self, name):
        self.name = name

    def _val(self, row):
        return getattr(row, self.name)

    def _cmp(self, other, op, text):
        if _is_list(other):
            def bad(row):
                raise FakeOrmError("Error binding parameter: type 'list' is not supported")
            return Pred(bad, "%s %s <list>" % (self.name, text))

        def fn(row):
            v = self._val(row)
            if v is None or other is None:
                return False
            return op(v, other)
        return Pred(fn, "%s %s ?" % (self.name, text))

    def __eq__(self, other):
        return self._cmp(other, lambda a, b: a == b, "=")

    def __ge__(self, other):
        return self._cmp(other, lambda a, b: a >= b, ">=")

    def __le__(self, other):
        return self._cmp(other, lambda a, b: a <= b, "<=")

    __hash__ = None

    def like(self, pattern, escape=None):
        def fn(row):
            v = self._val(row)
            if v is None or pattern is None:
                return False
            return like_match(pattern, v, escape)
        return Pred(fn, "%s LIKE ?" % self.name)

    def in_(self, values):
        vals = list(values)

        def fn(row):
            v = self._val(row)
            if v is None:
                return False
            for x in vals:
                if x is not None and v == x:
                    return True
            return False
        return Pred(fn, "%s IN (...)" % self.name)

    def op(self, opname, **kw):
        if opname.upper() != "GLOB":
            raise FakeOrmError("operator not modelled: " + opname)

        def apply(pattern):
            def fn(row):
                v = self._val(row)
                if v is None or pattern is None:
                    return False
                return glob_match(pattern, v)
            return Pred(fn, "%s GLOB ?" % self.name)
        return apply


class FakeQuery:
    """Always truthy, like sqlalchemy.orm.Query (db.py tests `if not query`)."""

    def __init__(self, rows, preds=()):
        self.rows, self.preds = rows, tuple(preds)

    def filter(self, *preds):
        return FakeQuery(self.rows, self.preds + tuple(preds))

    def all(self):
        out = []
        for row in self.rows:
            ok = True
            for p in self.preds:
                if not p(row):
                    ok = False
                    break
            if ok:
                out.append(row)
        return out


class FakeSession:
    def __init__(self, rows):
        self.rows = rows
        self.rolled_back = 0

    def query(self, cls):
        return FakeQuery(self.rows)

    def add(self, obj):
        if not any(r is obj for r in self.rows):
            self.rows.append(obj)

    def rollback(self):
        self.rolled_back += 1

    def close(self):
        pass

    def commit(self):
        pass


COLUMNS = ("filename", "transfer_syntax_uid", "sop_class_uid", "patient_id", "patient_name", "study_instance_uid",
           "study_date", "study_time", "accession_number", "study_id", "series_instance_uid", "modality",
           "series_number", "sop_instance_uid", "instance_number")


def make_instance_class(real_instance_cls):
    """A stand-in for db.Instance: class attributes are `Col`s (so `getattr(Instance, name)` gives a column);
    objects are rows.  The real `Instance.as_identifier` is re-used unchanged."""
    ns = {c: Col(c) for c in COLUMNS}

    def __init__(self, **kw):
        for c in COLUMNS:
            object.__setattr__(self, c, kw.get(c))

    ns["__init__"] = __init__
    ns["as_identifier"] = real_instance_cls.__dict__["as_identifier"]
    ns["__hash__"] = object.__hash__
    return type("FakeInstance", (), ns)


# ------------------------------------------------------------------------------------------------ Dataset stand-in
VR_OF = {
    "QueryRetrieveLevel": "CS", "RetrieveAETitle": "AE", "PatientID": "LO", "PatientName": "PN",
    "PatientBirthDate": "DA", "StudyInstanceUID": "UI", "StudyDate": "DA", "StudyTime": "TM",
    "AccessionNumber": "SH", "StudyID": "SH", "SeriesInstanceUID": "UI", "Modality": "CS", "SeriesNumber": "IS",
    "SOPInstanceUID": "UI", "InstanceNumber": "IS",
}
TAG_OF = {
    "SOPInstanceUID": 0x00080018, "StudyDate": 0x00080020, "StudyTime": 0x00080030, "AccessionNumber": 0x00080050,
    "QueryRetrieveLevel": 0x00080052, "RetrieveAETitle": 0x00080054, "Modality": 0x00080060,
    "PatientName": 0x00100010, "PatientID": 0x00100020, "PatientBirthDate": 0x00100030,
    "StudyInstanceUID": 0x0020000D, "SeriesInstanceUID": 0x0020000E, "StudyID": 0x00200010,
    "SeriesNumber": 0x00200011, "InstanceNumber": 0x00200013,
}


class Elem:
    def __init__(self, keyword, value):
        self.keyword = keyword
        self.VR = VR_OF[keyword]
        self.tag = TAG_OF[keyword]
        self.value = value

    @property
    def VM(self):
        v = self.value
        if v is None or (isinstance(v, str) and v == ""):
            return 0
        if isinstance(v, (list, tuple)):
            return len(v)
        return 1


class MiniDataset:
    """The part of pydicom.dataset.Dataset that db.py / handle_find use, for the keywords of VR_OF:
    attribute access by keyword, `keyword in ds`, `len`, `delattr`, iteration over elements in tag order
    (over a snapshot, as pydicom does).  Values are kept as given (str, None, list of str), except that ''
    becomes None as under qrscp's pydicom configuration."""

    def __init__(self):
        object.__setattr__(self, "_e", {})

    def __getattr__(self, name):
        e = object.__getattribute__(self, "_e")
        if name in e:
            return e[name].value
        raise AttributeError(name)

    def __setattr__(self, name, value):
        if name not in VR_OF:
            raise AttributeError("keyword outside the modelled set: " + name)
        # qrscp.py sets pydicom.config.use_none_as_empty_text_VR_value = True at import, so inside the
        # application a zero-length text/UI element is always seen as None, never as ''
        if isinstance(value, str) and value == "":
            value = None
        self._e[name] = Elem(name, value)

    def __delattr__(self, name):
        if name not in self._e:
            raise AttributeError(name)
        del self._e[name]

    def __contains__(self, name):
        return name in self._e

    def __len__(self):
        return len(self._e)

    def __iter__(self):
        return iter(sorted(self._e.values(), key=lambda e: e.tag))

    def __getitem__(self, name):
        return self._e[name]

    def keywords(self):
        return [e.keyword for e in self]


# ------------------------------------------------------------------------------------------------ self-check
_CHECKED = False


def selfcheck():
    """Compare like_match / glob_match with the real sqlite3 on a fixed corpus (concrete, untraced)."""
    global _CHECKED
    if _CHECKED:
        return
    import sqlite3

    con = sqlite3.connect(":memory:")
    try:
        cur = con.cursor()
        palpha = ["a", "A", "_", "%", "\\", "b"]
        valpha = ["a", "A", "b", "_", "%", "\\"]
        pats = [""] + ["".join(t) for n in (1, 2, 3) for t in itertools.product(palpha, repeat=n)]
        vals = [""] + ["".join(t) for n in (1, 2) for t in itertools.product(valpha, repeat=n)] + \
               ["aab", "Aba", "a_b", "a%b", "bbb", "ab\\"]
        n = 0
        for p in pats:
            for v in vals:
                for esc in (None, "\\"):
                    if esc is None:
                        got = cur.execute("SELECT ? LIKE ?", (v, p)).fetchone()[0]
                    else:
                        try:
                            got = cur.execute("SELECT ? LIKE ? ESCAPE ?", (v, p, esc)).fetchone()[0]
                        except sqlite3.OperationalError:
                            continue
                    if bool(got) != like_match(p, v, esc):
                        raise AssertionError("FakeOrm LIKE model disagrees with sqlite3 %s on value=%r pattern=%r escape=%r: "
                                             "sqlite %r" % (sqlite3.sqlite_version, v, p, esc, got))
                    n += 1
        # non-ASCII letters are not folded
        for v, p in (("ä", "Ä"), ("Ä", "Ä"), ("z", "Z"), ("[", "{"), ("@", "`")):
            got = cur.execute("SELECT ? LIKE ?", (v, p)).fetchone()[0]
            if bool(got) != like_match(p, v):
                raise AssertionError("FakeOrm LIKE model disagrees with sqlite3 on %r LIKE %r" % (v, p))
        galpha = ["a", "A", "*", "?", "[", "]", "^", "-", "c"]
        gpats = [""] + ["".join(t) for k in (1, 2, 3) for t in itertools.product(galpha, repeat=k)] + \
                ["[[]a", "a[[]", "[[]]", "[^a]", "[^a]c", "[a-c]", "[a-c]c", "[]]", "[^]]", "[a-]", "[-a]", "[]-a]", "*[[]*",
                 "[[][[]", "a[[]c", "[^[]", "[a-c-]", "[^a-c]", "?[[]", "[[]?", "[*]", "[?]", "a[*]c", "[[]*[]]"]
        gvals = ["", "a", "A", "b", "c", "[", "]", "^", "-", "*", "?", "ab", "a[", "[]", "[a", "a]", "^a", "a-c", "abc"]
        for p in gpats:
            for v in gvals:
                got = cur.execute("SELECT ? GLOB ?", (v, p)).fetchone()[0]
                if bool(got) != glob_match(p, v):
                    raise AssertionError("FakeOrm GLOB model disagrees with sqlite3 %s on value=%r pattern=%r: sqlite %r"
                                         % (sqlite3.sqlite_version, v, p, got))
                n += 1
        # ordering / equality of TEXT
        for a, b in (("a", "B"), ("B", "a"), ("10", "9"), ("", "a"), ("a", "a"), ("a", "A"), ("ä", "z")):
            for opn, fn in (("=", lambda x, y: x == y), (">=", lambda x, y: x >= y), ("<=", lambda x, y: x <= y)):
                got = cur.execute("SELECT CAST(? AS TEXT) %s CAST(? AS TEXT)" % opn, (a, b)).fetchone()[0]
                if bool(got) != fn(a, b):
                    raise AssertionError("TEXT comparison model disagrees with sqlite3 on %r %s %r" % (a, opn, b))
    finally:
        con.close()
    _CHECKED = n
    return n
