"""Run ONE harness condition (one shard) through CrossHair in this process and print a JSON
result on the last stdout line.  Also: concrete replay of a counterexample (no tracing).

usage: python -m vlib.chrun check  <module> <fn> <cpu_timeout> [--twin]
       python -m vlib.chrun replay <module> <fn> <args-json>
Shard / tier / exclusions come from VERIF_SHARD / VERIF_TIER / VERIF_EXCLUDE.
"""
import ast
import dataclasses
import importlib
import json
import os
import sys
import time
import traceback

import vlib  # noqa: F401


def _emit(d):
    sys.stdout.flush()
    print("\n@@RESULT@@" + json.dumps(d, default=repr))
    sys.stdout.flush()


def _jsonable(v):
    """Counterexample arguments are primitives / short lists: keep them as Python literals."""
    return repr(v)


def do_check(modname, fnname, cpu_timeout, twin):
    import crosshair.core_and_libs  # noqa: F401
    from crosshair import core, statespace
    from crosshair.condition_parser import POSTCONDITION, ConditionExpr, condition_parser
    from crosshair.core import ConditionCheckable, run_checkables
    from crosshair.fnutil import FunctionInfo
    from crosshair.options import DEFAULT_OPTIONS, AnalysisKind, AnalysisOptionSet
    from crosshair.statespace import MessageType

    stats = {"sat": 0, "unsat": 0, "unknown": 0, "solver_s": 0.0, "paths": 0, "nontrivial_paths": 0,
             "post_evals": 0}
    state = {"q_at_path_start": 0}
    _orig = statespace.solver_is_sat

    def counted(solver, *exprs):
        t = time.perf_counter()
        try:
            r = _orig(solver, *exprs)
            stats["sat" if r else "unsat"] += 1
            return r
        except statespace.UnknownSatisfiability:
            stats["unknown"] += 1
            raise
        finally:
            stats["solver_s"] += time.perf_counter() - t

    statespace.solver_is_sat = counted
    _init = statespace.StateSpace.__init__

    def _queries():
        return stats["sat"] + stats["unsat"] + stats["unknown"]

    def init(self, *a, **k):
        if stats["paths"] and _queries() > state["q_at_path_start"]:
            stats["nontrivial_paths"] += 1
        stats["paths"] += 1
        state["q_at_path_start"] = _queries()
        return _init(self, *a, **k)

    statespace.StateSpace.__init__ = init

    captured = {}
    _mcm = core.make_counterexample_message

    def mcm(conditions, args, return_val=None):
        msg = _mcm(conditions, args, return_val)
        try:
            from crosshair.core import LazyCreationRepr, NoTracing, context_statespace

            reprer = context_statespace().extra(LazyCreationRepr)
            with NoTracing():
                real = reprer.deep_realize(args)
                captured["args"] = {k: _jsonable(v) for k, v in real.arguments.items()}
        except BaseException as e:  # noqa
            captured["args_error"] = repr(e)
        return msg

    core.make_counterexample_message = mcm

    mod = importlib.import_module(modname)
    fn = getattr(mod, fnname)
    fn = getattr(fn, "__wrapped__", fn)
    opts = DEFAULT_OPTIONS.overlay(
        AnalysisOptionSet(
            per_condition_timeout=float(cpu_timeout),
            per_path_timeout=float(os.environ.get("VERIF_PATH_TIMEOUT", max(30.0, float(cpu_timeout) / 4))),
            report_all=True,
            analysis_kind=[AnalysisKind.PEP316],
        )
    )
    ctxfn = FunctionInfo.from_fn(fn)
    with condition_parser(opts.analysis_kind) as parser:
        conditions = parser.get_fn_conditions(ctxfn)
    if conditions is None or not conditions.post:
        _emit({"state": "error", "message": "harness has no conditions"})
        return
    syn = list(conditions.syntax_messages())
    if syn:
        _emit({"state": "error", "message": "syntax: " + "; ".join(m.message for m in syn)})
        return
    (post,) = conditions.post
    if twin:
        def ev(bindings, _e=post.evaluate):
            return bindings["_"] is not True
        post = ConditionExpr(POSTCONDITION, ev, post.filename, post.line, "_ is not True  # reachability twin")
    else:
        _e = post.evaluate

        def ev(bindings, _e=_e):
            stats["post_evals"] += 1
            return _e(bindings)
        post = dataclasses.replace(post, evaluate=ev)
    conditions = dataclasses.replace(conditions, post=[post])
    t0 = time.time()
    c0 = time.process_time()
    try:
        msgs = run_checkables([ConditionCheckable(ctxfn, opts, conditions)])
    except BaseException as e:  # CrossHair internal problems are harness errors
        _emit({"state": "error", "message": "crosshair crashed: " + repr(e), "traceback": traceback.format_exc()[-3000:],
               "stats": stats})
        return
    if stats["paths"] and _queries() > state["q_at_path_start"]:
        stats["nontrivial_paths"] += 1
    stats["solver_s"] = round(stats["solver_s"], 3)
    out = {"stats": stats, "wall_s": round(time.time() - t0, 2), "cpu_s": round(time.process_time() - c0, 2)}
    kinds = {
        MessageType.CONFIRMED: "confirmed",
        MessageType.CANNOT_CONFIRM: "not_confirmed",
        MessageType.PRE_UNSAT: "pre_unsat",
        MessageType.POST_FAIL: "counterexample",
        MessageType.POST_ERR: "counterexample",
        MessageType.EXEC_ERR: "counterexample",
        MessageType.SYNTAX_ERR: "error",
        MessageType.IMPORT_ERR: "error",
    }
    if not msgs:
        out.update(state="error", message="no message from CrossHair")
    else:
        # the most severe message decides
        order = ["error", "counterexample", "pre_unsat", "not_confirmed", "confirmed"]
        msgs = sorted(msgs, key=lambda m: order.index(kinds[m.state]))
        m = msgs[0]
        out.update(state=kinds[m.state], kind=m.state.name, message=m.message[:2000])
        if kinds[m.state] == "counterexample":
            out["args"] = captured.get("args")
            out["args_error"] = captured.get("args_error")
            out["traceback"] = (m.traceback or "")[-1500:]
    _emit(out)


def do_replay(modname, fnname, args_json):
    """Execute the harness on concrete values with plain CPython.  reproduced = it does not
    return True (returns something else or raises)."""
    args = {k: ast.literal_eval(v) for k, v in json.loads(args_json).items()}
    mod = importlib.import_module(modname)
    fn = getattr(mod, fnname)
    from vlib import trace_fns

    called = set()
    out = {}
    try:
        with trace_fns.recording(called):
            r = fn(**args)
        out.update(returned=repr(r), reproduced=(r is not True), holds=(r is True))
    except BaseException as e:
        name = type(e).__name__
        if name == "IgnoreAttempt":
            out.update(returned="IgnoreAttempt", reproduced=False, holds=False, out_of_bounds=True)
        else:
            out.update(returned=None, raised=repr(e), reproduced=True, holds=False,
                       traceback=traceback.format_exc()[-2500:])
    out["functions"] = sorted(called)
    # optional end-to-end reproducer
    try:
        from vlib import h

        hh = h.REGISTRY.get(fnname)
        if hh is not None and hh.e2e is not None and out.get("reproduced"):
            ok, detail = hh.e2e(args, h.SHARD)
            out["e2e"] = {"reproduced": bool(ok), "detail": str(detail)[:1500]}
    except BaseException as e:
        out["e2e"] = {"reproduced": None, "detail": "e2e reproducer crashed: " + repr(e)}
    _emit(out)


def main():
    mode = sys.argv[1]
    if mode == "check":
        do_check(sys.argv[2], sys.argv[3], sys.argv[4], "--twin" in sys.argv[5:])
    elif mode == "replay":
        do_replay(sys.argv[2], sys.argv[3], sys.argv[4])
    else:
        raise SystemExit("bad mode")


if __name__ == "__main__":
    try:
        main()
    except SystemExit:
        raise
    except BaseException as e:
        _emit({"state": "error", "message": "chrun crashed: " + repr(e), "traceback": traceback.format_exc()[-3000:]})
