"""Record which functions of the repository under test a concrete replay executes
(evidence: "functions encoded" is measured, not only declared)."""
import contextlib
import os
import sys

import vlib

_ROOT = os.path.join(os.path.realpath(vlib.REPO), "pynetdicom") + os.sep


@contextlib.contextmanager
def recording(out: set):
    def prof(frame, event, arg):
        if event == "call":
            co = frame.f_code
            fn = co.co_filename
            if fn.startswith(_ROOT) or os.path.realpath(fn).startswith(_ROOT):
                qual = getattr(co, "co_qualname", co.co_name)
                out.add(fn[len(_ROOT):].replace(os.sep, ".").removesuffix(".py") + ":" + qual)

    old = sys.getprofile()
    sys.setprofile(prof)
    try:
        yield
    finally:
        sys.setprofile(old)
