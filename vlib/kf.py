"""Known findings (DESIGN.md section 1).  /verif/known_findings.json is read, never written."""
import json
import os

from vlib import VERIF, h

_PATH = os.environ.get("VERIF_KF") or os.path.join(VERIF, "known_findings.json")


def load():
    if not os.path.exists(_PATH):
        return []
    with open(_PATH) as f:
        return json.load(f)["findings"]


_BY_ID = None


def _by_id():
    global _BY_ID
    if _BY_ID is None:
        _BY_ID = {e["id"]: e for e in load()}
    return _BY_ID


def in_region(finding_id: str, **args) -> bool:
    """Does this input lie in the region of the listed finding?  (evaluates its `match`
    expression over the harness arguments; works on symbolic values)"""
    e = _by_id().get(finding_id)
    if e is None:
        return False
    return bool(eval(e["match"], {"shard": h.SHARD}, dict(args)))


def skip(finding_id: str, **args) -> bool:
    """For `pre: not kf.skip(id, ...)`: true only when the driver excluded this *listed, unrepaired*
    finding for this process and the input lies in its region."""
    if not h.excluded(finding_id):
        return False
    return in_region(finding_id, **args)
