"""Per-property driver: shards harness conditions over the cores, classifies CrossHair's verdicts,
replays counterexamples on the real code, applies the known-findings list, writes evidence.

exit 0: nothing explored violates the property   1: reproduced, unlisted counterexample
exit 3: harness / infrastructure error (never reported as a violation)
"""
import argparse
import ast
import concurrent.futures as cf
import hashlib
import importlib
import json
import os
import random
import subprocess
import sys
import time

import vlib
from vlib import VERIF

PY = sys.executable


def _run_child(argv, env, wall_cap):
    t = time.time()
    try:
        p = subprocess.run([PY, "-m", "vlib.chrun"] + argv, env=env, cwd=VERIF, capture_output=True, text=True,
                           timeout=wall_cap)
    except subprocess.TimeoutExpired as e:
        return {"state": "hard_cap", "message": f"wall-clock cap {wall_cap}s hit", "wall_s": round(time.time() - t, 1),
                "stdout_tail": (e.stdout or b"")[-500:].decode("utf8", "replace") if isinstance(e.stdout, bytes) else str(e.stdout)[-500:]}
    out = p.stdout
    i = out.rfind("@@RESULT@@")
    if i < 0:
        return {"state": "error", "message": "no result from child (rc=%s)" % p.returncode,
                "stderr_tail": p.stderr[-2500:], "stdout_tail": out[-800:]}
    try:
        r = json.loads(out[i + len("@@RESULT@@"):].strip().splitlines()[0])
    except Exception as e:
        return {"state": "error", "message": "unparsable child result: %r" % e, "stdout_tail": out[-800:]}
    if "state" in r and r["state"] == "error":
        r["stderr_tail"] = p.stderr[-1500:]
    return r


def _env(tier, shard, exclude):
    env = dict(os.environ)
    env["VERIF_TIER"] = tier
    env["VERIF_SHARD"] = json.dumps(shard)
    env["VERIF_EXCLUDE"] = json.dumps(exclude)
    env["PYTHONHASHSEED"] = "0"
    env.pop("PYTHONPATH", None)
    return env


def replay(module, fn, args, tier, shard, exclude=()):
    return _run_child(["replay", module, fn, json.dumps(args)], _env(tier, shard, list(exclude)), 300)


def main(argv=None):
    ap = argparse.ArgumentParser()
    ap.add_argument("prop")
    ap.add_argument("--tier", default=os.environ.get("VERIF_TIER", "quick"))
    ap.add_argument("--replay")
    ap.add_argument("--only", action="append")
    ap.add_argument("--jobs", type=int, default=int(os.environ.get("VERIF_JOBS", os.cpu_count() or 4)))
    ap.add_argument("--no-twin", action="store_true")
    ap.add_argument("-v", action="store_true")
    a = ap.parse_args(argv)
    prop = a.prop
    tier = a.tier if a.tier in ("quick", "thorough") else "quick"
    os.environ["VERIF_TIER"] = tier
    try:
        seed = int(os.environ.get("VERIF_SEED", "0"))
    except ValueError:
        seed = 0

    if a.replay:
        with open(a.replay) as f:
            rp = json.load(f)
        r = replay(rp["module"], rp["harness"], rp["args"], rp.get("tier", tier), rp.get("shard", {}))
        print(json.dumps(r, indent=1))
        if r.get("reproduced"):
            print(f"VIOLATION property={rp['property']} replay={a.replay}")
            return 1
        print("counterexample does not reproduce on the current tree")
        return 0

    t0 = time.time()
    from vlib import h, kf  # after VERIF_TIER is set

    importlib.reload(h)
    mod = importlib.import_module("harness." + prop)
    harnesses = [x for x in h.REGISTRY.values() if x.prop == prop]
    if a.only:
        harnesses = [x for x in harnesses if x.name in a.only]
    if not harnesses:
        print("no harness registered for", prop)
        return 3
    findings = [e for e in kf.load() if e["property"] == prop]
    known = [e for e in findings if e.get("status") == "known"]

    tasks = []
    for hh in harnesses:
        excl = [e["id"] for e in known if e.get("harness") in (hh.name, None)]
        for sh in hh.shards:
            tasks.append(("main", hh, sh, excl))
        if hh.twin and not a.no_twin:
            # the reachability twin is run on the first and the last shard
            for sh in ([hh.shards[0]] if len(hh.shards) == 1 else [hh.shards[0], hh.shards[-1]]):
                tasks.append(("twin", hh, sh, excl))
    random.Random(seed).shuffle(tasks)
    # long conditions first
    tasks.sort(key=lambda t: -(t[1].timeout if t[0] == "main" else 1))

    def work(task):
        kind, hh, sh, excl = task
        to = hh.timeout if kind == "main" else min(hh.twin_timeout, hh.timeout)
        argv_ = ["check", hh.module, hh.name, str(to)] + (["--twin"] if kind == "twin" else [])
        r = _run_child(argv_, _env(tier, sh, excl), wall_cap=to * 3 + 120)
        return task, r

    results = []
    with cf.ThreadPoolExecutor(max_workers=max(1, a.jobs)) as ex:
        for task, r in ex.map(work, tasks):
            results.append((task, r))
            if a.v:
                print(task[0], task[1].name, task[2], r.get("state"), (r.get("message") or "")[:300], r.get("stats"), flush=True)

    violations, errors, known_lines = [], [], []
    per_h = {}
    samples = []
    tot = {"paths": 0, "nontrivial_paths": 0, "sat": 0, "unsat": 0, "unknown": 0, "solver_s": 0.0}
    obligations = discharged = inconclusive = 0
    replay_dir = os.path.join(os.environ.get("VERIF_REPLAY_DIR") or os.path.join(VERIF, "replays"), prop)
    os.makedirs(replay_dir, exist_ok=True)

    def hrec(hh):
        return per_h.setdefault(hh.name, {
            "harness": hh.name, "functions_declared": hh.functions, "bounds": hh.bounds, "stubs": hh.stubs,
            "outside": hh.outside, "cpu_timeout_s": hh.timeout, "shards": [], "reachability": [],
            "functions_executed_in_replay": []})

    twin_witness = {}
    warnings = []
    pending = [(t, r, 0) for t, r in results]
    while pending:
        (kind, hh, sh, excl), r, attempt = pending.pop(0)
        rec = hrec(hh)
        # transient trouble (CrossHair nondeterminism, a crashed child): run the condition once more
        if kind == "main" and attempt == 0 and r.get("state") in ("error", "pre_unsat"):
            pending.append(work((kind, hh, sh, excl)) + (1,))
            continue
        st = r.get("state")
        stats = r.get("stats") or {}
        if kind == "twin":
            entry = {"shard": sh, "state": st, "kind": r.get("kind")}
            if st == "counterexample" and r.get("kind") == "POST_FAIL" and r.get("args"):
                entry["witness"] = r["args"]
                twin_witness.setdefault(hh.name, (sh, r["args"], excl))
                samples.append({"harness": hh.name, "shard": sh, "reaches_assertion_with": r["args"]})
            elif st == "confirmed":
                errors.append(f"{hh.name}{sh}: reachability twin confirmed => harness never returns True (vacuous)")
            elif st in ("error", "hard_cap"):
                entry["message"] = r.get("message")
            rec["reachability"].append(entry)
            continue
        obligations += 1
        for k in tot:
            tot[k] += stats.get(k, 0)
        entry = {"shard": sh, "verdict": st, "paths": stats.get("paths", 0), "smt": {k: stats.get(k, 0) for k in ("sat", "unsat", "unknown")},
                 "solver_s": stats.get("solver_s", 0), "wall_s": r.get("wall_s"), "cpu_s": r.get("cpu_s"),
                 "paths_reaching_assertion": stats.get("post_evals", 0)}
        if st == "confirmed":
            if stats.get("post_evals", 0) <= 0:
                errors.append(f"{hh.name}{sh}: confirmed but the assertion was never evaluated (vacuous)")
                entry["verdict"] = "vacuous"
            else:
                discharged += 1
        elif st in ("not_confirmed", "hard_cap"):
            inconclusive += 1
            entry["verdict"] = "inconclusive"
            entry["note"] = r.get("message")
        elif st == "pre_unsat":
            errors.append(f"{hh.name}{sh}: unable to meet precondition")
        elif st == "counterexample":
            args = r.get("args")
            entry["counterexample"] = args
            entry["message"] = r.get("message")
            if not args:
                errors.append(f"{hh.name}{sh}: counterexample without captured arguments: {r.get('message')}")
            else:
                rp = replay(hh.module, hh.name, args, tier, sh, excl)
                entry["replay"] = {k: rp.get(k) for k in ("reproduced", "returned", "raised", "e2e", "out_of_bounds")}
                if rp.get("reproduced"):
                    concrete = {k: ast.literal_eval(v) for k, v in args.items()}
                    listed = None
                    for e in known:
                        if e.get("harness") in (hh.name, None):
                            try:
                                if eval(e["match"], {"shard": sh}, dict(concrete)):
                                    listed = e
                                    break
                            except Exception:
                                pass
                    digest = hashlib.sha1(json.dumps([hh.name, sh, args], sort_keys=True).encode()).hexdigest()[:10]
                    path = os.path.join(replay_dir, f"{hh.name}-{digest}.json")
                    with open(path, "w") as f:
                        json.dump({"property": prop, "module": hh.module, "harness": hh.name, "tier": tier, "shard": sh,
                                   "args": args, "message": r.get("message"), "replay": rp}, f, indent=1)
                    if listed is not None:
                        known_lines.append(f"KNOWN-FINDING: property={prop} {listed['id']}: {listed['what']}")
                        entry["verdict"] = "known_finding"
                    else:
                        violations.append((hh, sh, args, path, r.get("message"), rp))
                        entry["verdict"] = "violation"
                        entry["replay_file"] = path
                elif attempt == 0:
                    obligations -= 1
                    for k in tot:
                        tot[k] -= stats.get(k, 0)
                    pending.append(work((kind, hh, sh, excl)) + (1,))
                    continue
                else:
                    # nothing that violates the property was demonstrated on the real code: inconclusive, and say so
                    warnings.append(f"{hh.name}{sh}: counterexample {args} does not reproduce concretely, twice "
                                    f"(returned {rp.get('returned')}) -- CrossHair nondeterminism or an encoding problem; "
                                    f"obligation counted as inconclusive: {r.get('message')}")
                    inconclusive += 1
                    entry["verdict"] = "inconclusive"
                    entry["note"] = "non-reproducing counterexample (not a violation, not a pass)"
        else:
            errors.append(f"{hh.name}{sh}: {st}: {r.get('message')} {r.get('traceback') or ''} {r.get('stderr_tail') or ''}")
            entry["verdict"] = "harness_error"
            entry["message"] = r.get("message")
        rec["shards"].append(entry)

    # measured function lists: replay each harness once on its twin's witness
    def fnlist(item):
        name, (sh, args, excl) = item
        hh = h.REGISTRY[name]
        return name, replay(hh.module, name, args, tier, sh, excl)

    with cf.ThreadPoolExecutor(max_workers=max(1, a.jobs)) as ex:
        for name, rp in ex.map(fnlist, list(twin_witness.items())):
            per_h[name]["functions_executed_in_replay"] = rp.get("functions", [])
            if rp.get("holds") is not True:
                errors.append(f"{name}: the twin's witness does not satisfy the assertion in a concrete run: {rp}")

    # listed, unrepaired findings: replay the recorded witness on the current tree
    kf_report = []
    for e in known:
        w = e.get("witness")
        if not w:
            continue
        rp = replay(w["module"], w["harness"], w["args"], tier, w.get("shard", {}), [])
        if rp.get("reproduced"):
            line = f"KNOWN-FINDING: property={prop} {e['id']}: {e['what']}"
            if line not in known_lines:
                known_lines.append(line)
            kf_report.append({"id": e["id"], "witness_reproduces": True})
        else:
            kf_report.append({"id": e["id"], "witness_reproduces": False, "detail": rp.get("returned") or rp.get("message")})
            print(f"note: listed finding {e['id']} no longer reproduces on this tree")

    wall = time.time() - t0
    exhaustive = (obligations > 0 and discharged == obligations)
    ev = {
        "property_id": prop,
        "tier": tier,
        "seed": seed,
        "level": "other",
        "coverage": {
            "explanation": (
                "Bounded symbolic execution of the real pynetdicom functions (CrossHair 0.0.110 over CPython byte code, "
                "every branch on a symbolic input decided by z3).  Each obligation is one harness condition (one shard of one "
                "harness): 'discharged' = CrossHair reported 'Confirmed over all paths' (every feasible path inside the stated "
                "bounds executed and the assertion proved on it); 'inconclusive' = budget exhausted or some path unknown - no "
                "counterexample among the explored paths, NOT a proof; counterexamples are replayed concretely on /repo before "
                "being reported.  Nothing is claimed outside the per-harness bounds."),
            "obligations": obligations,
            "discharged": discharged,
            "inconclusive": inconclusive,
            "exhaustive": exhaustive,
            "evaluations": int(tot["paths"]),
            "distinct_nontrivial": int(tot["nontrivial_paths"]),
            "rule": ("one evaluation = one execution path of a harness explored by CrossHair (paths are distinct by construction of "
                     "its search tree); non-trivial = at least one SMT query on a symbolic input was issued on that path"),
            "smt_queries": {"sat": tot["sat"], "unsat": tot["unsat"], "unknown": tot["unknown"]},
            "solver_s": round(tot["solver_s"], 2),
            "samples": samples[:12] or [{"note": "no reachability sample captured"}],
            "harnesses": list(per_h.values()),
            "known_findings": kf_report,
            "checker_cmd": f"./check {prop} --tier {tier}",
            "trusted_base": ["CrossHair 0.0.110 symbolic models of int/bool/bytes/str/list/struct", "z3 5.1.0",
                             "vlib/shim.py (see SHIM_ITEMS)", "per-harness stubs listed under harnesses[].stubs",
                             "oracles under /verif/spec"],
            "repo": vlib.REPO,
        },
        "assumptions": sorted({s for hh in harnesses for s in hh.stubs}),
        "wall_s": round(wall, 2),
        "violations": len(violations),
    }
    if errors:
        ev["coverage"]["harness_errors"] = errors
    if warnings:
        ev["coverage"]["harness_warnings"] = warnings
    evdir = os.environ.get("VERIF_EVIDENCE_DIR") or os.path.join(VERIF, "evidence")
    os.makedirs(evdir, exist_ok=True)
    with open(os.path.join(evdir, prop + ".json"), "w") as f:
        json.dump(ev, f, indent=1, default=repr)

    for line in known_lines:
        print(line)
    print(f"{prop} [{tier}] obligations={obligations} discharged={discharged} inconclusive={inconclusive} "
          f"violations={len(violations)} harness_errors={len(errors)} paths={tot['paths']} "
          f"smt={tot['sat'] + tot['unsat'] + tot['unknown']} solver_s={tot['solver_s']:.1f} wall={wall:.0f}s")
    for e in errors:
        print("HARNESS-ERROR:", e[:1500])
    for e in warnings:
        print("HARNESS-WARNING:", e[:1500])
    for hh, sh, args, path, msg, rp in violations:
        print(f"counterexample: {hh.name} shard={sh} args={args}: {msg}")
        print(f"VIOLATION property={prop} replay={path}")
    if violations:
        return 1
    if errors:
        return 3
    return 0


if __name__ == "__main__":
    sys.exit(main())
