"""Solver-based checking framework for pynetdicom (see /verif/DESIGN.md).

Importing this package puts the repository under test first on sys.path
(`VERIF_REPO`, default /repo) so that `import pynetdicom` always resolves to the
current working tree.
"""
import os
import sys

REPO = os.environ.get("VERIF_REPO", "/repo")
VERIF = os.path.dirname(os.path.dirname(os.path.abspath(__file__)))
if REPO not in sys.path[:1]:
    sys.path.insert(0, REPO)
if VERIF not in sys.path:
    sys.path.insert(1, VERIF)
