"""The harness shim (DESIGN.md section 2): semantically neutral adjustments that let CrossHair
execute pynetdicom's real functions symbolically.  Imported by every harness module.

Everything here is part of the trusted base and is listed in evidence (`SHIM_ITEMS`)."""
import contextlib
import struct
import sys

import vlib  # noqa: F401  (puts VERIF_REPO first on sys.path)

import crosshair.core_and_libs  # noqa: F401  registers CrossHair's patches
from crosshair import core as _chcore
from crosshair.libimpl.builtinslib import SymbolicNumberAble as _SNA
from crosshair.tracers import NoTracing, ResumedTracing, is_tracing

from pynetdicom import dimse_messages, dul, pdu, pdu_items

SHIM_ITEMS = [
    "getattr/setattr/hasattr: CrossHair's NoTracing wrappers removed (attribute names are concrete)",
    "pdu/pdu_items PACK_*/UNPACK_* globals rebound to struct.pack/unpack (same function, modelled spelling)",
    "PDU_ITEM_TYPES/_PDU_TYPES/_MESSAGE_TYPES: dict lookups by symbolic key fork per key (ForkingDict)",
    "every pynetdicom.*.LOGGER replaced by a no-op logger (logging is not a subject of any property)",
    "format() of a symbolic number yields the sentinel string SYMNUM instead of realising the number",
]


# 1. getattr / setattr / hasattr -------------------------------------------------------------
for _b in (getattr, setattr, hasattr):
    _chcore._PATCH_REGISTRATIONS.pop(_b, None)


# 2. pre-bound Struct methods -----------------------------------------------------------------
def _mk_unpack(fmt):
    def f(b):
        return struct.unpack(fmt, b)

    return f


def _mk_pack(fmt):
    def f(v):
        return struct.pack(fmt, v)

    return f


for _m in (pdu, pdu_items):
    _m.UNPACK_UCHAR = _mk_unpack("B")
    _m.UNPACK_UINT2 = _mk_unpack(">H")
    _m.UNPACK_UINT4 = _mk_unpack(">I")
    _m.PACK_UCHAR = _mk_pack("B")
    _m.PACK_UINT2 = _mk_pack(">H")
    _m.PACK_UINT4 = _mk_pack(">I")


# 3. dict lookups with symbolic keys ---------------------------------------------------------
class ForkingDict(dict):
    """dict whose lookup by a (possibly symbolic) key forks per concrete key
    instead of producing a lazily-realised symbolic value."""

    def __getitem__(self, key):
        for k in dict.keys(self):
            if key == k:
                return dict.__getitem__(self, k)
        raise KeyError(key)

    def __contains__(self, key):
        for k in dict.keys(self):
            if key == k:
                return True
        return False

    def get(self, key, default=None):
        for k in dict.keys(self):
            if key == k:
                return dict.__getitem__(self, k)
        return default


_fd = ForkingDict(pdu_items.PDU_ITEM_TYPES)
pdu_items.PDU_ITEM_TYPES = _fd
pdu.PDU_ITEM_TYPES = _fd
dul._PDU_TYPES = ForkingDict(dul._PDU_TYPES)
dimse_messages._MESSAGE_TYPES = ForkingDict(dimse_messages._MESSAGE_TYPES)


class IntervalDict:
    """Exact stand-in for a dict with int keys: maximal runs of consecutive keys with equal
    values become one (lo, hi, value) interval, so a symbolic key costs one fork per interval."""

    def __init__(self, d):
        self._iv = []
        for k in sorted(d):
            if self._iv and self._iv[-1][1] == k - 1 and self._iv[-1][2] == d[k]:
                self._iv[-1][1] = k
            else:
                self._iv.append([k, k, d[k]])

    def __contains__(self, key):
        for lo, hi, v in self._iv:
            if lo <= key and key <= hi:
                return True
        return False

    def __getitem__(self, key):
        for lo, hi, v in self._iv:
            if lo <= key and key <= hi:
                return v
        raise KeyError(key)

    def get(self, key, default=None):
        for lo, hi, v in self._iv:
            if lo <= key and key <= hi:
                return v
        return default

    def keys(self):
        for lo, hi, v in self._iv:
            yield from range(lo, hi + 1)

    def intervals(self):
        return [tuple(t) for t in self._iv]

    # writes are kept (as single-key intervals in front, so they win) and remembered: a status table is shared,
    # module-level state and code that merely *uses* it must not change it
    def __setitem__(self, key, value):
        self._iv.insert(0, [key, key, value])
        self.writes = getattr(self, "writes", 0) + 1

    def setdefault(self, key, default=None):
        for lo, hi, v in self._iv:
            if lo <= key and key <= hi:
                return v
        self[key] = default
        return default


# 4. loggers ----------------------------------------------------------------------------------
class NullLogger:
    """Logging is not the subject of any property: empty bodies (also keeps LogRecord's
    time.time() - symbolic under CrossHair - out of the path)."""

    def _noop(self, *a, **k):
        return None

    debug = info = warning = error = exception = critical = log = _noop

    def isEnabledFor(self, *a):
        return False

    def getEffectiveLevel(self):
        return 100

    def setLevel(self, *a):
        return None

    handlers = []


def silence_loggers():
    for name, mod in list(sys.modules.items()):
        if name.startswith("pynetdicom") and getattr(mod, "LOGGER", None) is not None:
            if not isinstance(mod.LOGGER, NullLogger):
                mod.LOGGER = NullLogger()


silence_loggers()

# 6. formatting symbolic numbers --------------------------------------------------------------
SENTINEL = "⟪SYMNUM⟫"
_orig_format = _chcore._PATCH_REGISTRATIONS[format]


def _format_placeholder(obj, spec=""):
    with NoTracing():
        symnum = isinstance(obj, _SNA)
    if symnum:
        return SENTINEL
    return _orig_format(obj, spec)


_chcore._PATCH_REGISTRATIONS[format] = _format_placeholder


# helpers -------------------------------------------------------------------------------------
@contextlib.contextmanager
def untraced():
    """`with untraced():` = NoTracing under CrossHair, nothing in a concrete replay."""
    if is_tracing():
        with NoTracing():
            yield
    else:
        yield


@contextlib.contextmanager
def retraced():
    if is_tracing():
        yield
    else:
        try:
            with ResumedTracing():
                yield
        except Exception:
            raise


def out_of_bounds():
    """Abort this path: it lies outside the stated bound of the claim (not a pass, not a failure)."""
    from crosshair.util import IgnoreAttempt

    raise IgnoreAttempt("outside the stated bound")


def fresh_int(name, lo, hi):
    """A fresh symbolic int in [lo, hi] created inside a harness (deterministic naming)."""
    from crosshair.core import proxy_for_type
    from crosshair.statespace import context_statespace

    if not is_tracing():
        raise RuntimeError("fresh_int only under tracing")
    v = proxy_for_type(int, name + context_statespace().uniq())
    if not (lo <= v and v <= hi):
        out_of_bounds()
    return v


def has_sentinel(obj) -> bool:
    """True if the formatted-number sentinel leaked into an observed value."""
    if isinstance(obj, str):
        return SENTINEL in obj
    if isinstance(obj, (bytes, bytearray)):
        return SENTINEL.encode("utf-8") in bytes(obj)
    if isinstance(obj, (list, tuple)):
        return any(has_sentinel(o) for o in obj)
    return False
