"""Independent oracle for DIMSE status categories (C28).  No pynetdicom import.

Source: DICOM PS3.7 Annex C, Table C-1 "Status Type Encoding", and the per-service tables of
PS3.4 (which only ever pick codes out of these classes):

    Success   0000
    Warning   0001, Bxxx, 0107 (Attribute list error), 0116 (Attribute value out of range)
    Failure   Axxx, Cxxx, and the general failure codes of PS3.7 Annex C.4 / C.5:
              0105 0106 0110 0111 0112 0113 0114 0115 0117 0118 0119 0120 0121 0122 0123 0124
              0210 0211 0212 0213
    Cancel    FE00
    Pending   FF00, FF01

Editions of PS3.7 differ on whether Table C-1 names the whole 01xx / 02xx blocks ("01xx except
0107 and 0116, 02xx") or only the codes listed in Annex C.4/C.5.  The oracle therefore leaves the
*unlisted* 01xx / 02xx codes open between Failure and Unknown (`allowed()` returns both) so that the
check never asserts more than every edition agrees on.  Every other 16-bit value that no rule
above names is "Unknown" (the sixth category of the property statement).

Finality (PS3.7 9.1.2.1.6 / 9.1.3.1.7 / 9.1.4.1.8, PS3.4 C.4.1.1.4, C.4.2.1.5, C.4.3.1.4): a
C-FIND / C-GET / C-MOVE response is followed by further responses iff its status is Pending.
The one exception is PS3.4 C.6.4.4 (Repository Query): Warning B001 "Matching reached response
limit" ends the Pending responses and is followed by the final response.
"""

SUCCESS = "Success"
WARNING = "Warning"
FAILURE = "Failure"
CANCEL = "Cancel"
PENDING = "Pending"
UNKNOWN = "Unknown"

CATEGORIES = (SUCCESS, WARNING, FAILURE, CANCEL, PENDING, UNKNOWN)

_GENERAL_FAILURES = (
    0x0105, 0x0106, 0x0110, 0x0111, 0x0112, 0x0113, 0x0114, 0x0115, 0x0117, 0x0118, 0x0119,
    0x0120, 0x0121, 0x0122, 0x0123, 0x0124, 0x0210, 0x0211, 0x0212, 0x0213,
)
_GENERAL_WARNINGS = (0x0001, 0x0107, 0x0116)

# (lo, hi, categories allowed) - a partition of 0..65535, written out by hand from the text above
_PARTITION = []


def _build():
    fixed = {0x0000: SUCCESS, 0xFE00: CANCEL, 0xFF00: PENDING, 0xFF01: PENDING}
    for c in _GENERAL_FAILURES:
        fixed[c] = FAILURE
    for c in _GENERAL_WARNINGS:
        fixed[c] = WARNING

    def allowed_concrete(c):
        if c in fixed:
            return (fixed[c],)
        if 0xA000 <= c <= 0xAFFF or 0xC000 <= c <= 0xCFFF:
            return (FAILURE,)
        if 0xB000 <= c <= 0xBFFF:
            return (WARNING,)
        if 0x0100 <= c <= 0x02FF:
            return (FAILURE, UNKNOWN)  # unlisted 01xx / 02xx: edition dependent
        return (UNKNOWN,)

    run = None
    for c in range(0x10000):
        a = allowed_concrete(c)
        if run is not None and run[2] == a:
            run[1] = c
        else:
            if run is not None:
                _PARTITION.append(tuple(run))
            run = [c, c, a]
    _PARTITION.append(tuple(run))


_build()


def partition():
    """[(lo, hi, allowed categories)] covering 0..65535 exactly once."""
    return list(_PARTITION)


def allowed(code):
    """The categories PS3.7 permits for a 16-bit `code` (usable on a symbolic int: one comparison
    pair per interval)."""
    for lo, hi, cats in _PARTITION:
        if lo <= code and code <= hi:
            return cats
    return ()


def more_to_come(category, code, repository_query=False):
    """Is a C-FIND/C-GET/C-MOVE response with this status followed by a further response?"""
    if category == PENDING:
        return True
    if repository_query and code == 0xB001:
        return True
    return False
