"""Independent oracle for DICOM Query/Retrieve attribute matching (C29).  No pynetdicom import.

Transcribed from PS3.4:

* C.2.2.2.1 Single Value Matching - "only entities with values that match exactly the value specified in
  the request shall match.  This matching is case-sensitive, i.e., sensitive to the exact encoding of the key
  Attribute Value in character sets where a letter may have multiple encodings", *except* for PN, where "an
  application may perform literal matching that is either case-sensitive, or that is insensitive to some or
  all aspects of case, position, accent, or other character encoding variants".
* C.2.2.2.2 List of UID Matching - a match against any UID of the list.
* C.2.2.2.3 Universal Matching - a zero-length key value matches every entity.
* C.2.2.2.4 Wild Card Matching - "*" matches any sequence of characters (including a zero length value),
  "?" matches any single character; every other character stands for itself; "This matching is case-sensitive,
  except for Attributes with a PN Value Representation".
* C.2.2.2.5 Range Matching (DA) - "d1-d2" all dates d1 <= d <= d2, "-d2" all d <= d2, "d1-" all d >= d1.
  Dates are 8 digit strings YYYYMMDD, for which chronological order is the order of the digit strings.
* C.4.1.1.3.1 / C.4.1.2.1 / C.4.1.3.1.1 (hierarchical search): the Identifier contains the Query/Retrieve
  Level, keys at that level, the Unique Key of every level above it, and no keys of a level below it.

Results are three-valued where the standard leaves a choice: YES, NO, EITHER.
Every function works on plain `str` values and uses only operations that also work on symbolic strings.
"""

YES = "yes"
NO = "no"
EITHER = "either"


# -------------------------------------------------------------------------------------------- characters
def _fold(c):
    """ASCII case folding of one character (the only folding a PN comparison is allowed to be asked about
    here; other folds - accents, width - lie outside the alphabet the checks use)."""
    o = ord(c)
    if 65 <= o and o <= 90:
        return chr(o + 32)
    return c


def fold(s):
    return "".join([_fold(c) for c in s])


# -------------------------------------------------------------------------------------------- wild card
def wildcard(pattern, value):
    """C.2.2.2.4, exact (case-sensitive): does `value` match `pattern`?  Only "*" and "?" are special."""
    if pattern == "":
        return value == ""
    head = pattern[0]
    if head == "*":
        if wildcard(pattern[1:], value):
            return True
        return value != "" and wildcard(pattern, value[1:])
    if value == "":
        return False
    if head == "?" or head == value[0]:
        return wildcard(pattern[1:], value[1:])
    return False


def wildcard_nocase(pattern, value):
    """C.2.2.2.4 with ASCII-case-insensitive literals (what a PN comparison may additionally accept)."""
    if pattern == "":
        return value == ""
    head = pattern[0]
    if head == "*":
        if wildcard_nocase(pattern[1:], value):
            return True
        return value != "" and wildcard_nocase(pattern, value[1:])
    if value == "":
        return False
    if head == "?" or _fold(head) == _fold(value[0]):
        return wildcard_nocase(pattern[1:], value[1:])
    return False


def is_wildcard(text):
    return "*" in text or "?" in text


def match_wildcard(pattern, value, vr):
    if wildcard(pattern, value):
        return YES
    if vr == "PN" and wildcard_nocase(pattern, value):
        return EITHER
    return NO


def case_only(pattern, value):
    """`pattern` is a wild card pattern that `value` fails only because of the case of ASCII letters."""
    return is_wildcard(pattern) and (not wildcard(pattern, value)) and wildcard_nocase(pattern, value)


# -------------------------------------------------------------------------------------------- single value
def match_single(key, value, vr):
    if key == value:
        return YES
    if vr == "PN" and _fold_eq(key, value):
        return EITHER
    return NO


def _fold_eq(a, b):
    if len(a) != len(b):
        return False
    for i in range(len(a)):
        if _fold(a[i]) != _fold(b[i]):
            return False
    return True


# -------------------------------------------------------------------------------------------- UID list
def match_uid_list(uids, value):
    for u in uids:
        if u == value:
            return YES
    return NO


# -------------------------------------------------------------------------------------------- range (DA)
def is_range(text):
    return "-" in text


def match_range(key, value):
    """C.2.2.2.5 for DA values: `key` is "d1-d2", "d1-" or "-d2"; `value`, d1, d2 digit strings of one common
    length (8 for a real DA), compared as dates = compared as digit strings."""
    i = key.find("-")
    lo, hi = key[:i], key[i + 1:]
    if lo == "" and hi == "":
        return EITHER  # "-" alone is not a legal range
    if lo != "" and value < lo:
        return NO
    if hi != "" and value > hi:
        return NO
    return YES


# -------------------------------------------------------------------------------------------- one key
TEXT_VRS = ("AE", "CS", "LO", "LT", "PN", "SH", "ST", "UC", "UR", "UT")


def match_key(vr, key, value):
    """Which matching type applies to a key value of this VR (C.2.2.2) and what it answers for `value`.
    `key` is None or "" (universal), a str, or a list of str (UI with several values)."""
    if key is None or key == "" or key == []:
        return YES
    if vr == "UI":
        if isinstance(key, list):
            return match_uid_list(key, value)
        return match_uid_list([key], value)
    if vr in TEXT_VRS and is_wildcard(key):
        return match_wildcard(key, value, vr)
    if vr == "DA" and is_range(key):
        return match_range(key, value)
    return match_single(key, value, vr)


def conj(a, b):
    """three-valued AND"""
    if a == NO or b == NO:
        return NO
    if a == EITHER or b == EITHER:
        return EITHER
    return YES


# -------------------------------------------------------------------------------------------- hierarchy
# level -> (unique key, other keys the checks use); PS3.4 Tables C.6-1 .. C.6-4 (Patient Root) and
# C.6-5 (Study Root: the patient attributes are study-level attributes)
PATIENT_ROOT = (
    ("PATIENT", "PatientID", ("PatientName",)),
    ("STUDY", "StudyInstanceUID", ("StudyDate", "StudyTime", "AccessionNumber", "StudyID")),
    ("SERIES", "SeriesInstanceUID", ("Modality", "SeriesNumber")),
    ("IMAGE", "SOPInstanceUID", ("InstanceNumber",)),
)
STUDY_ROOT = (
    ("STUDY", "StudyInstanceUID", ("StudyDate", "StudyTime", "AccessionNumber", "StudyID", "PatientID", "PatientName")),
    ("SERIES", "SeriesInstanceUID", ("Modality", "SeriesNumber")),
    ("IMAGE", "SOPInstanceUID", ("InstanceNumber",)),
)
MODELS = {"P": PATIENT_ROOT, "S": STUDY_ROOT}

VR = {
    "PatientID": "LO", "PatientName": "PN", "StudyInstanceUID": "UI", "StudyDate": "DA", "StudyTime": "TM",
    "AccessionNumber": "SH", "StudyID": "SH", "SeriesInstanceUID": "UI", "Modality": "CS", "SeriesNumber": "IS",
    "SOPInstanceUID": "UI", "InstanceNumber": "IS",
}


def level_names(model):
    return [lv[0] for lv in MODELS[model]]


def keys_of_level(model, level):
    for name, unique, others in MODELS[model]:
        if name == level:
            return (unique,) + tuple(others)
    return ()


def unique_key(model, level):
    for name, unique, others in MODELS[model]:
        if name == level:
            return unique
    return None


def identifier_validity(model, level, present):
    """C.4.1.1.3.1 + hierarchical search rules.  `level`: the Query/Retrieve Level value or None if the element
    is absent; `present`: set/dict of key keywords contained in the Identifier.
    NO  = definitely invalid (must be refused); YES = definitely valid (must be served);
    EITHER = the text leaves it open (an Identifier without any key)."""
    if level is None:
        return NO
    names = level_names(model)
    if level not in names:
        return NO
    idx = names.index(level)
    for name, unique, others in MODELS[model][:idx]:
        if unique not in present:
            return NO
    for name, unique, others in MODELS[model][idx + 1:]:
        if unique in present:
            return NO
        for k in others:
            if k in present:
                return NO
    n = 0
    for name, unique, others in MODELS[model][:idx + 1]:
        if unique in present:
            n += 1
        for k in others:
            if k in present:
                n += 1
    if n == 0:
        return EITHER
    return YES


def entity_path(model, level):
    """The unique keys that identify an entity at `level`, top down."""
    out = []
    for name, unique, others in MODELS[model]:
        out.append(unique)
        if name == level:
            break
    return out
