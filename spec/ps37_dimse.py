"""Independent oracle for the DIMSE messages, transcribed from DICOM PS3.7 (2024 edition wording).

NO import of pynetdicom (and none of pydicom): this file is what the code is compared against.

Sources
  * Command Field values ......... PS3.7 Annex E.1, Table E.1-1, element (0000,0100):
        "0001H C-STORE-RQ  8001H C-STORE-RSP  0010H C-GET-RQ  8010H C-GET-RSP  0020H C-FIND-RQ  8020H C-FIND-RSP
         0021H C-MOVE-RQ  8021H C-MOVE-RSP  0030H C-ECHO-RQ  8030H C-ECHO-RSP  0100H N-EVENT-REPORT-RQ
         8100H N-EVENT-REPORT-RSP  0110H N-GET-RQ  8110H N-GET-RSP  0120H N-SET-RQ  8120H N-SET-RSP
         0130H N-ACTION-RQ  8130H N-ACTION-RSP  0140H N-CREATE-RQ  8140H N-CREATE-RSP  0150H N-DELETE-RQ
         8150H N-DELETE-RSP  0FFFH C-CANCEL-RQ"
  * Message fields ............... PS3.7 Section 9.3 (Tables 9.3-1 .. 9.3-13, DIMSE-C) and Section 10.3
        (Tables 10.3-1 .. 10.3-12, DIMSE-N): the fields of every request/response message.
  * Status related fields ........ PS3.7 Annex C: depending on the status a response may also carry
        (0000,0901) Offending Element, (0000,0902) Error Comment, (0000,0903) Error ID,
        (0000,1000) Affected SOP Instance UID, (0000,1005) Attribute Identifier List,
        (0000,1002) Event Type ID, (0000,1008) Action Type ID.
  * Command Data Set Type ........ Table E.1-1 (0000,0800): "This field indicates that a Data Set is present in the
        Message. This field shall be set to the value of 0101H if no Data Set is present; any other value indicates a
        Data Set is included in the Message."
  * Encoding ..................... PS3.7 6.3.1: "The encoding of the Command Set shall be Little Endian Implicit VR";
        elements in increasing tag order; (0000,0000) Command Group Length = "the even number of bytes from the end of
        the value field to the beginning of the next group".
  * Request / response ........... a request carries (0000,0110) Message ID, a response (and C-CANCEL-RQ) carries
        (0000,0120) Message ID Being Responded To; bit 15 of the Command Field is set exactly for responses.
"""
import struct

NO_DATA_SET = 0x0101      # Command Data Set Type value meaning "no Data Set present"

# keyword -> (tag, VR, multi-valued allowed)            PS3.7 Table E.1-1
ELEMENTS = {
    "CommandGroupLength": (0x00000000, "UL", False),
    "AffectedSOPClassUID": (0x00000002, "UI", False),
    "RequestedSOPClassUID": (0x00000003, "UI", False),
    "CommandField": (0x00000100, "US", False),
    "MessageID": (0x00000110, "US", False),
    "MessageIDBeingRespondedTo": (0x00000120, "US", False),
    "MoveDestination": (0x00000600, "AE", False),
    "Priority": (0x00000700, "US", False),
    "CommandDataSetType": (0x00000800, "US", False),
    "Status": (0x00000900, "US", False),
    "OffendingElement": (0x00000901, "AT", True),          # VM 1-n
    "ErrorComment": (0x00000902, "LO", False),
    "ErrorID": (0x00000903, "US", False),
    "AffectedSOPInstanceUID": (0x00001000, "UI", False),
    "RequestedSOPInstanceUID": (0x00001001, "UI", False),
    "EventTypeID": (0x00001002, "US", False),
    "AttributeIdentifierList": (0x00001005, "AT", True),   # VM 1-n
    "ActionTypeID": (0x00001008, "US", False),
    "NumberOfRemainingSuboperations": (0x00001020, "US", False),
    "NumberOfCompletedSuboperations": (0x00001021, "US", False),
    "NumberOfFailedSuboperations": (0x00001022, "US", False),
    "NumberOfWarningSuboperations": (0x00001023, "US", False),
    "MoveOriginatorApplicationEntityTitle": (0x00001030, "AE", False),
    "MoveOriginatorMessageID": (0x00001031, "US", False),
}
TAG_TO_KEYWORD = {v[0]: k for k, v in ELEMENTS.items()}

_ALWAYS = ("CommandGroupLength", "CommandField", "CommandDataSetType")


class Msg:
    """one DIMSE message of PS3.7: its table fields, split the way the tables do"""

    def __init__(self, name, code, table, service, fields, data_set=None, status_related=()):
        self.name = name                    # "C-STORE-RQ"
        self.code = code                    # Command Field value
        self.table = table                  # PS3.7 table number
        self.service = service              # "C-STORE": the DIMSE service (primitive) the message belongs to
        self.fields = tuple(fields)         # command-set fields listed in the message's table (besides the three always there)
        self.data_set = data_set            # name of the primitive parameter carried as the Data Set, or None
        self.status_related = tuple(status_related)   # Annex C fields a response of this service may carry in addition
        self.is_response = name.endswith("-RSP")
        # C-CANCEL-RQ is a request that identifies its target by Message ID Being Responded To (Table 9.3-5 etc.)
        self.id_field = "MessageIDBeingRespondedTo" if (self.is_response or name == "C-CANCEL-RQ") else "MessageID"

    @property
    def keywords(self):
        """every command-set keyword the message may carry"""
        return _ALWAYS + self.fields + self.status_related


_RQ, _RSP = "MessageID", "MessageIDBeingRespondedTo"
_SUBOPS = ("NumberOfRemainingSuboperations", "NumberOfCompletedSuboperations", "NumberOfFailedSuboperations",
           "NumberOfWarningSuboperations")

MESSAGES = [
    # ---- DIMSE-C, PS3.7 9.3 -------------------------------------------------------------------------------------
    Msg("C-STORE-RQ", 0x0001, "9.3-1", "C-STORE",
        ("AffectedSOPClassUID", _RQ, "Priority", "AffectedSOPInstanceUID", "MoveOriginatorApplicationEntityTitle",
         "MoveOriginatorMessageID"), data_set="DataSet"),
    Msg("C-STORE-RSP", 0x8001, "9.3-2", "C-STORE",
        ("AffectedSOPClassUID", _RSP, "Status", "AffectedSOPInstanceUID"),
        status_related=("OffendingElement", "ErrorComment")),                              # Annex C.4.1 (B000/A7xx/A9xx/Cxxx)
    Msg("C-FIND-RQ", 0x0020, "9.3-3", "C-FIND", ("AffectedSOPClassUID", _RQ, "Priority"), data_set="Identifier"),
    Msg("C-FIND-RSP", 0x8020, "9.3-4", "C-FIND", ("AffectedSOPClassUID", _RSP, "Status"), data_set="Identifier",
        status_related=("OffendingElement", "ErrorComment")),                              # Annex C.4.2
    Msg("C-CANCEL-RQ", 0x0FFF, "9.3-5/8/11", "C-CANCEL", (_RSP,)),
    Msg("C-GET-RQ", 0x0010, "9.3-6", "C-GET", ("AffectedSOPClassUID", _RQ, "Priority"), data_set="Identifier"),
    Msg("C-GET-RSP", 0x8010, "9.3-7", "C-GET", ("AffectedSOPClassUID", _RSP, "Status") + _SUBOPS, data_set="Identifier",
        status_related=("OffendingElement", "ErrorComment")),                              # Annex C.4.3
    Msg("C-MOVE-RQ", 0x0021, "9.3-9", "C-MOVE", ("AffectedSOPClassUID", _RQ, "Priority", "MoveDestination"),
        data_set="Identifier"),
    Msg("C-MOVE-RSP", 0x8021, "9.3-10", "C-MOVE", ("AffectedSOPClassUID", _RSP, "Status") + _SUBOPS,
        data_set="Identifier", status_related=("OffendingElement", "ErrorComment")),       # Annex C.4.4
    Msg("C-ECHO-RQ", 0x0030, "9.3-12", "C-ECHO", ("AffectedSOPClassUID", _RQ)),
    Msg("C-ECHO-RSP", 0x8030, "9.3-13", "C-ECHO", ("AffectedSOPClassUID", _RSP, "Status"),
        status_related=("ErrorComment",)),                                                 # Annex C.5 general statuses
    # ---- DIMSE-N, PS3.7 10.3 ------------------------------------------------------------------------------------
    Msg("N-EVENT-REPORT-RQ", 0x0100, "10.3-1", "N-EVENT-REPORT",
        ("AffectedSOPClassUID", _RQ, "AffectedSOPInstanceUID", "EventTypeID"), data_set="EventInformation"),
    Msg("N-EVENT-REPORT-RSP", 0x8100, "10.3-2", "N-EVENT-REPORT",
        ("AffectedSOPClassUID", _RSP, "Status", "AffectedSOPInstanceUID", "EventTypeID"), data_set="EventReply",
        status_related=("ErrorID", "ErrorComment")),
    Msg("N-GET-RQ", 0x0110, "10.3-3", "N-GET",
        ("RequestedSOPClassUID", _RQ, "RequestedSOPInstanceUID", "AttributeIdentifierList")),
    Msg("N-GET-RSP", 0x8110, "10.3-4", "N-GET", ("AffectedSOPClassUID", _RSP, "Status", "AffectedSOPInstanceUID"),
        data_set="AttributeList", status_related=("AttributeIdentifierList", "ErrorComment", "ErrorID")),
    Msg("N-SET-RQ", 0x0120, "10.3-5", "N-SET", ("RequestedSOPClassUID", _RQ, "RequestedSOPInstanceUID"),
        data_set="ModificationList"),
    Msg("N-SET-RSP", 0x8120, "10.3-6", "N-SET", ("AffectedSOPClassUID", _RSP, "Status", "AffectedSOPInstanceUID"),
        data_set="AttributeList", status_related=("AttributeIdentifierList", "ErrorComment", "ErrorID")),
    Msg("N-ACTION-RQ", 0x0130, "10.3-7", "N-ACTION",
        ("RequestedSOPClassUID", _RQ, "RequestedSOPInstanceUID", "ActionTypeID"), data_set="ActionInformation"),
    Msg("N-ACTION-RSP", 0x8130, "10.3-8", "N-ACTION",
        ("AffectedSOPClassUID", _RSP, "Status", "AffectedSOPInstanceUID", "ActionTypeID"), data_set="ActionReply",
        status_related=("ErrorID", "ErrorComment")),
    Msg("N-CREATE-RQ", 0x0140, "10.3-9", "N-CREATE", ("AffectedSOPClassUID", _RQ, "AffectedSOPInstanceUID"),
        data_set="AttributeList"),
    Msg("N-CREATE-RSP", 0x8140, "10.3-10", "N-CREATE", ("AffectedSOPClassUID", _RSP, "Status", "AffectedSOPInstanceUID"),
        data_set="AttributeList", status_related=("ErrorID", "ErrorComment")),
    Msg("N-DELETE-RQ", 0x0150, "10.3-11", "N-DELETE", ("RequestedSOPClassUID", _RQ, "RequestedSOPInstanceUID")),
    Msg("N-DELETE-RSP", 0x8150, "10.3-12", "N-DELETE", ("AffectedSOPClassUID", _RSP, "Status", "AffectedSOPInstanceUID"),
        status_related=("ErrorComment", "ErrorID")),
]
assert len(MESSAGES) == 23
BY_NAME = {m.name: m for m in MESSAGES}
BY_CODE = {m.code: m for m in MESSAGES}
assert len(BY_CODE) == 23
# Table E.1-1: responses are exactly the codes with bit 15 set
assert all(bool(m.code & 0x8000) == m.is_response for m in MESSAGES)


def parse_command_set(b):
    """Decode an Implicit VR Little Endian command set (PS3.7 6.3.1 / PS3.5 7.1.3) into {tag: value bytes}.
    Raises ValueError when the bytes are not a well-formed group-0000 element sequence in increasing tag order."""
    out = {}
    pos, last = 0, -1
    n = len(b)
    while pos < n:
        if n - pos < 8:
            raise ValueError("truncated element header at %d" % pos)
        group, elem, length = struct.unpack("<HHL", b[pos:pos + 8])
        tag = (group << 16) | elem
        if group != 0x0000:
            raise ValueError("element %08X outside group 0000" % tag)
        if tag <= last:
            raise ValueError("elements not in increasing tag order at %08X" % tag)
        if length % 2 or pos + 8 + length > n:
            raise ValueError("bad length %d for %08X" % (length, tag))
        out[tag] = b[pos + 8:pos + 8 + length]
        last = tag
        pos += 8 + length
    return out


def us(value_bytes):
    """value of a single-valued US element"""
    if len(value_bytes) != 2:
        raise ValueError("US element of length %d" % len(value_bytes))
    return struct.unpack("<H", value_bytes)[0]


def ul(value_bytes):
    if len(value_bytes) != 4:
        raise ValueError("UL element of length %d" % len(value_bytes))
    return struct.unpack("<L", value_bytes)[0]


def text(value_bytes):
    """UI / AE / LO value without the padding (UI: trailing NUL, AE/LO: trailing spaces)"""
    return value_bytes.decode("ascii").rstrip("\x00").rstrip(" ")


def at_list(value_bytes):
    """AT value(s) as a list of 32-bit tags"""
    if len(value_bytes) % 4:
        raise ValueError("AT element of length %d" % len(value_bytes))
    return [(g << 16) | e for g, e in (struct.unpack("<HH", value_bytes[i:i + 4]) for i in range(0, len(value_bytes), 4))]


def command_group_length_ok(b):
    """(0000,0000) holds the number of bytes that follow its own value field"""
    els = parse_command_set(b)
    if 0 not in els:
        return False
    return ul(els[0]) == len(b) - 12


def says_data_set_follows(b):
    """True iff the command set announces a Data Set (Command Data Set Type != 0101H)"""
    els = parse_command_set(b)
    tag = ELEMENTS["CommandDataSetType"][0]
    if tag not in els:
        raise ValueError("no Command Data Set Type")
    return us(els[tag]) != NO_DATA_SET
