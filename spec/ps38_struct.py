"""Independent structural parser and rule checker for A-ASSOCIATE-RQ / A-ASSOCIATE-AC byte strings.

Transcribed from DICOM PS3.8 section 9.3.2 / 9.3.3 (Tables 9-11 ... 9-18), PS3.7 Annex D.3.3 (user
information sub-items) and PS3.5 section 6.2 (value representation AE) / section 9.1 (UID syntax).
This module NEVER imports pynetdicom; it only looks at bytes.  It is written with plain indexing and
integer arithmetic so that it also runs on (partially) symbolic byte strings under CrossHair.

Layout used (all lengths big-endian, "length" = number of bytes that FOLLOW the length field):

  A-ASSOCIATE-RQ / -AC PDU (Tables 9-11 / 9-17)
     0      PDU type 01H (RQ) / 02H (AC)          1      reserved
     2-5    PDU length                            6-7    protocol version
     8-9    reserved                              10-25  called AE title  (16 bytes, space padded)
     26-41  calling AE title (16 bytes)           42-73  reserved (32 bytes)
     74-    variable items: type(1) reserved(1) length(2) value
  variable items
     10H application context: value = UID
     20H presentation context (RQ): id(1) reserved(3) then sub-items 30H abstract syntax (1),
         40H transfer syntax (1..n); each sub-item type(1) reserved(1) length(2) UID
     21H presentation context (AC): id(1) reserved(1) result(1) reserved(1) then one 40H sub-item
     50H user information: sub-items 51H maximum length (value = 4-byte unsigned), 52H implementation
         class UID, 53H asynchronous operations window, 54H SCP/SCU role selection
         (uid-length(2) uid scu(1) scp(1)), 55H implementation version name, 56H SOP class extended
         negotiation (uid-length(2) uid info), 57H SOP class common extended negotiation
         (uid-length(2) uid  service-class-uid-length(2) uid  related-general-length(2)
         {uid-length(2) uid}*), 58H/59H user identity (no UID)
"""

RQ = 0x01
AC = 0x02


class StructError(Exception):
    """The byte string cannot even be cut into PDU header / items / sub-items."""


def _u16(b, i):
    return b[i] * 256 + b[i + 1]


def _u32(b, i):
    return ((b[i] * 256 + b[i + 1]) * 256 + b[i + 2]) * 256 + b[i + 3]


def split_items(b, start, end):
    """Cut b[start:end] into (type, value_start, value_end) triples."""
    out = []
    i = start
    while i < end:
        if i + 4 > end:
            raise StructError("truncated item header")
        ln = _u16(b, i + 2)
        if i + 4 + ln > end:
            raise StructError("item overruns its container")
        out.append((b[i], i + 4, i + 4 + ln))
        i = i + 4 + ln
    return out


# ---------------------------------------------------------------------------------------------
# value legality (PS3.5)
# ---------------------------------------------------------------------------------------------
def ae_field_legal(f):
    """A 16-byte AE title field: Default Character Repertoire without control characters
    (00H-1FH, 7FH) and without backslash (5CH); not entirely spaces (PS3.5 6.2, VR AE)."""
    if len(f) != 16:
        return False
    nonspace = False
    for c in f:
        if c < 0x20 or c > 0x7E or c == 0x5C:
            return False
        if c != 0x20:
            nonspace = True
    return nonspace


def uid_legal(u):
    """PS3.5 9.1: 1..64 characters from '0'-'9' and '.', components separated by '.', no empty
    component, no leading zero in a component of more than one digit.  No padding inside a PDU
    (PS3.8 Annex F)."""
    n = len(u)
    if n < 1 or n > 64:
        return False
    comp_len = 0
    comp_first = 0
    for c in u:
        if c == 0x2E:
            if comp_len == 0:
                return False
            if comp_len > 1 and comp_first == 0x30:
                return False
            comp_len = 0
        elif 0x30 <= c <= 0x39:
            if comp_len == 0:
                comp_first = c
            comp_len += 1
        else:
            return False
    if comp_len == 0:
        return False
    if comp_len > 1 and comp_first == 0x30:
        return False
    return True


# ---------------------------------------------------------------------------------------------
# parser
# ---------------------------------------------------------------------------------------------
class Parsed:
    """Result of parse(): plain attributes, no behaviour."""

    def __init__(self):
        self.pdu_type = None
        self.declared_length = None
        self.actual_length = None
        self.protocol_version = None
        self.called = b""
        self.calling = b""
        self.item_types = []          # top level item types in order
        self.app_contexts = []        # list of UID byte strings
        self.pcs = []                 # list of dicts (see _parse_pc_*)
        self.user_infos = []          # list of lists of (type, value bytes)
        self.unknown_items = []       # top level types that are not 10H/20H/21H/50H


def parse(b):
    """Cut an A-ASSOCIATE-RQ/AC byte string into its parts.  Raises StructError when it cannot."""
    if len(b) < 74:
        raise StructError("shorter than the fixed 74 byte header")
    p = Parsed()
    p.pdu_type = b[0]
    if p.pdu_type != RQ and p.pdu_type != AC:
        raise StructError("not an A-ASSOCIATE-RQ/AC PDU type")
    p.declared_length = _u32(b, 2)
    p.actual_length = len(b) - 6
    p.protocol_version = _u16(b, 6)
    p.called = b[10:26]
    p.calling = b[26:42]
    for t, s, e in split_items(b, 74, len(b)):
        p.item_types.append(t)
        if t == 0x10:
            p.app_contexts.append(b[s:e])
        elif t == 0x20:
            p.pcs.append(_parse_pc_rq(b, s, e))
        elif t == 0x21:
            p.pcs.append(_parse_pc_ac(b, s, e))
        elif t == 0x50:
            p.user_infos.append([(st, b[ss:se]) for st, ss, se in split_items(b, s, e)])
        else:
            p.unknown_items.append(t)
    return p


def _parse_pc_rq(b, s, e):
    if e - s < 4:
        raise StructError("presentation context item (RQ) shorter than 4 bytes")
    pc = {"kind": 0x20, "id": b[s], "result": None, "abstract": [], "transfer": [], "other": []}
    for t, ss, se in split_items(b, s + 4, e):
        if t == 0x30:
            pc["abstract"].append(b[ss:se])
        elif t == 0x40:
            pc["transfer"].append(b[ss:se])
        else:
            pc["other"].append(t)
    return pc


def _parse_pc_ac(b, s, e):
    if e - s < 4:
        raise StructError("presentation context item (AC) shorter than 4 bytes")
    pc = {"kind": 0x21, "id": b[s], "result": b[s + 2], "abstract": [], "transfer": [], "other": []}
    for t, ss, se in split_items(b, s + 4, e):
        if t == 0x40:
            pc["transfer"].append(b[ss:se])
        else:
            pc["other"].append(t)
    return pc


def user_info_uids(sub):
    """UID byte strings carried by one user-information sub-item (type, value); StructError if the
    sub-item's inner length fields are inconsistent."""
    t, v = sub
    n = len(v)
    if t == 0x52:
        return [v]
    if t == 0x54:
        if n < 2:
            raise StructError("role selection sub-item too short")
        ul = _u16(v, 0)
        if 2 + ul + 2 != n:
            raise StructError("role selection sub-item: inconsistent UID length")
        return [v[2:2 + ul]]
    if t == 0x56:
        if n < 2:
            raise StructError("SOP class extended sub-item too short")
        ul = _u16(v, 0)
        if 2 + ul > n:
            raise StructError("SOP class extended sub-item: inconsistent UID length")
        return [v[2:2 + ul]]
    if t == 0x57:
        out = []
        if n < 2:
            raise StructError("common extended sub-item too short")
        ul = _u16(v, 0)
        i = 2 + ul
        if i + 2 > n:
            raise StructError("common extended sub-item: SOP class UID overruns")
        out.append(v[2:i])
        sl = _u16(v, i)
        if i + 2 + sl + 2 > n:
            raise StructError("common extended sub-item: service class UID overruns")
        out.append(v[i + 2:i + 2 + sl])
        i = i + 2 + sl
        rl = _u16(v, i)
        i += 2
        if i + rl > n:
            raise StructError("common extended sub-item: related general list overruns")
        end = i + rl
        while i < end:
            if i + 2 > end:
                raise StructError("common extended sub-item: truncated related general entry")
            gl = _u16(v, i)
            if i + 2 + gl > end:
                raise StructError("common extended sub-item: related general UID overruns")
            out.append(v[i + 2:i + 2 + gl])
            i = i + 2 + gl
        return out
    return []


# ---------------------------------------------------------------------------------------------
# the structural rules of the C12 statement
# ---------------------------------------------------------------------------------------------
def _common_rules(p, errs):
    if p.declared_length != p.actual_length:
        errs.append("PDU length field does not equal the number of bytes that follow")
    if not ae_field_legal(p.called):
        errs.append("called AE title field is not a legal, non-blank AE value")
    if not ae_field_legal(p.calling):
        errs.append("calling AE title field is not a legal, non-blank AE value")
    if len(p.app_contexts) != 1:
        errs.append("not exactly one application context item")
    for u in p.app_contexts:
        if not uid_legal(u):
            errs.append("application context name is not a legal UID")
    if p.unknown_items:
        errs.append("unknown top-level item type")
    if len(p.user_infos) != 1:
        errs.append("not exactly one user information item")
    for ui in p.user_infos:
        n51 = 0
        n52 = 0
        for sub in ui:
            t, v = sub
            if t == 0x51:
                n51 += 1
                if len(v) != 4:
                    errs.append("maximum length sub-item value is not 4 bytes")
            elif t == 0x52:
                n52 += 1
            for u in user_info_uids(sub):
                if not uid_legal(u):
                    errs.append("a user information sub-item carries an illegal UID")
        if n51 != 1:
            errs.append("not exactly one maximum length sub-item")
        if n52 != 1:
            errs.append("not exactly one implementation class UID sub-item")


def check_rq(b):
    """All violations of the C12 statement's rules for an A-ASSOCIATE-RQ (empty list = conformant)."""
    errs = []
    try:
        p = parse(b)
        if p.pdu_type != RQ:
            errs.append("PDU type is not 01H")
            return errs
        _common_rules(p, errs)
        if not (1 <= len(p.pcs) <= 128):
            errs.append("number of presentation context items not in 1..128")
        seen = []
        for pc in p.pcs:
            if pc["kind"] != 0x20:
                errs.append("A-ASSOCIATE-RQ carries a presentation context item of type 21H")
                continue
            cid = pc["id"]
            if cid < 1 or cid > 255 or cid - 2 * (cid // 2) != 1:
                errs.append("presentation context id is not an odd number in 1..255")
            if cid in seen:
                errs.append("presentation context id used twice")
            seen.append(cid)
            if len(pc["abstract"]) != 1:
                errs.append("presentation context without exactly one abstract syntax")
            if len(pc["transfer"]) < 1:
                errs.append("presentation context without a transfer syntax")
            if pc["other"]:
                errs.append("presentation context with an unknown sub-item")
            for u in pc["abstract"] + pc["transfer"]:
                if not uid_legal(u):
                    errs.append("presentation context carries an illegal UID")
    except StructError as e:
        errs.append("unparsable: %s" % (e,))
    return errs


def check_ac(b, proposed_ids):
    """All violations of the C12 statement's rules for an A-ASSOCIATE-AC answering a request that
    proposed the presentation context ids `proposed_ids` (empty list = conformant)."""
    errs = []
    try:
        p = parse(b)
        if p.pdu_type != AC:
            errs.append("PDU type is not 02H")
            return errs
        _common_rules(p, errs)
        got = []
        for pc in p.pcs:
            if pc["kind"] != 0x21:
                errs.append("A-ASSOCIATE-AC carries a presentation context item of type 20H")
                continue
            got.append(pc["id"])
            if pc["other"]:
                errs.append("presentation context result with an unknown sub-item")
            if pc["result"] == 0:
                if len(pc["transfer"]) != 1:
                    errs.append("accepted presentation context without exactly one transfer syntax")
                for u in pc["transfer"]:
                    if not uid_legal(u):
                        errs.append("accepted presentation context carries an illegal transfer syntax UID")
            elif pc["result"] > 4:
                errs.append("presentation context result/reason outside 0..4")
        # exactly one result item per proposed context
        for cid in proposed_ids:
            n = 0
            for g in got:
                if g == cid:
                    n += 1
            if n != 1:
                errs.append("proposed presentation context does not have exactly one result item")
        for g in got:
            if g not in proposed_ids:
                errs.append("result item for a presentation context that was not proposed")
    except StructError as e:
        errs.append("unparsable: %s" % (e,))
    return errs
