"""Independent oracles for C18 (context selection), C23 (C-CANCEL routing) and C24 (SCU response
streams).  Written from the DICOM standard and the property statements; NO pynetdicom import.
Everything works on plain tuples / ints so that it can be evaluated on symbolic values.
"""

# ---------------------------------------------------------------------------------------------
# Transfer syntaxes (PS3.5 section 10 and Annex A): what the property calls "uncompressed syntaxes
# of the same byte order".
#   name                      UID                      little endian   pixel data encapsulated
IMPLICIT_LE = "1.2.840.10008.1.2"
EXPLICIT_LE = "1.2.840.10008.1.2.1"
DEFLATED_LE = "1.2.840.10008.1.2.1.99"     # PS3.5 A.5: the *whole data set* is deflated, pixel data native
EXPLICIT_BE = "1.2.840.10008.1.2.2"
JPEG_BASELINE = "1.2.840.10008.1.2.4.50"   # PS3.5 A.4: encapsulated (compressed) pixel data

TS_POOL = (IMPLICIT_LE, EXPLICIT_LE, EXPLICIT_BE, DEFLATED_LE, JPEG_BASELINE)
#             uid            (little_endian, compressed_pixel_data, implicit_vr, deflated)
TS_TABLE = {
    IMPLICIT_LE: (True, False, True, False),
    EXPLICIT_LE: (True, False, False, False),
    EXPLICIT_BE: (False, False, False, False),
    DEFLATED_LE: (True, False, False, True),
    JPEG_BASELINE: (True, True, False, False),
}


def ts_little(ts):
    return TS_TABLE[ts][0]


def ts_compressed(ts):
    return TS_TABLE[ts][1]


def ts_flags(ts):
    """(is_implicit_VR, is_little_endian, is_deflated) - the arguments a data set encoder needs."""
    t = TS_TABLE[ts]
    return (t[2], t[0], t[3])


def convertible(a, b):
    """May a data set encoded in `a` be re-encoded for a context with transfer syntax `b`?
    Property C18: 'only converted between uncompressed syntaxes of the same byte order'."""
    if a == b:
        return True
    return (not ts_compressed(a)) and (not ts_compressed(b)) and ts_little(a) == ts_little(b)


# Abstract syntaxes -----------------------------------------------------------------------------
VERIFICATION = "1.2.840.10008.1.1"
CT_STORAGE = "1.2.840.10008.5.1.4.1.1.2"
MR_STORAGE = "1.2.840.10008.5.1.4.1.1.4"
UPS_PUSH = "1.2.840.10008.5.1.4.34.6.1"
UPS_WATCH = "1.2.840.10008.5.1.4.34.6.2"
UPS_PULL = "1.2.840.10008.5.1.4.34.6.3"
UPS_EVENT = "1.2.840.10008.5.1.4.34.6.4"
UPS_QUERY = "1.2.840.10008.5.1.4.34.6.5"
# PS3.4 CC.3.1 (SOP Class UIDs of the UPS service): the four/five UPS SOP classes denote the same
# service; a message may name the Push SOP class while travelling on a context negotiated for one
# of the others.  This is the "documented substitution" of the property statement
# (pynetdicom documents exactly this set in Association._get_valid_context).
UPS_SUBSTITUTES = (UPS_PULL, UPS_WATCH, UPS_EVENT, UPS_QUERY)

AS_POOL = (VERIFICATION, CT_STORAGE, MR_STORAGE, UPS_PUSH, UPS_PULL, UPS_WATCH)


def eligible(cx, accepted, ab, ts, role, allow_conversion):
    """Is the accepted context `cx` a legal carrier for a message of SOP class `ab`, data set
    transfer syntax `ts` ('' = no data set / any) and required local `role` ('scu'/'scp'/None)?

    cx and the members of `accepted` are tuples (cid, abstract, transfer, as_scu, as_scp).
    """
    cid, cab, cts, scu, scp = cx
    if cab != ab:
        # substitution only for UPS Push and only when no accepted context has the exact SOP class
        if ab != UPS_PUSH or cab not in UPS_SUBSTITUTES:
            return False
        if any(a[1] == ab for a in accepted):
            return False
    if role == "scu" and scu is not True:
        return False
    if role == "scp" and scp is not True:
        return False
    if ts != "":
        if cts == ts:
            return True
        if not allow_conversion:
            return False
        return convertible(ts, cts)
    return True


def exact(cx, ts):
    return ts == "" or cx[2] == ts


# ---------------------------------------------------------------------------------------------
# C24: status finality (PS3.7 9.1.2.1.6, 9.1.3.1.7, 9.1.4.1.8 / Annex C): a C-FIND / C-GET / C-MOVE
# response is followed by another one iff its status is Pending (FF00, FF01).
def is_pending(code):
    return code == 0xFF00 or code == 0xFF01


EITHER = "either"
EMPTY = "empty"         # the documented "empty Dataset" status
NONE = "none"
DATASET = "dataset"


def final_identifier_expectation(code):
    """C-GET / C-MOVE final responses: PS3.4 C.4.2.1.4.2 / C.4.3.1.4.2 - a response of class Cancel,
    Warning or Failure may carry an Identifier (Failed SOP Instance UID List); Success carries none.
    Codes whose class differs between editions of PS3.7 Annex C (unlisted 01xx/02xx) or that belong to
    no class are left open so that the check never asserts more than the standard."""
    if code == 0x0000:
        return NONE
    if code == 0xFE00:
        return DATASET
    if 0xA000 <= code and code <= 0xCFFF:
        return DATASET
    if code == 0x0107 or code == 0x0116:
        return DATASET
    return EITHER


# Element shapes of a peer response stream (C24 harnesses).  Whether a response is Pending or
# final is decided by its (symbolic) status alone.
K_RSP_IDENT_OK = 0      # valid response with a decodable identifier
K_RSP_IDENT_BAD = 1     # valid response whose identifier cannot be decoded
K_RSP_NO_IDENT = 2      # valid response without identifier
K_NO_STATUS = 3         # a response primitive of the right type without Status (invalid)
K_WRONG_TYPE = 4        # a primitive of a type that cannot occur in this exchange
K_STORE_RQ = 5          # (C-GET / C-MOVE only) an interleaved C-STORE sub-operation request


def expected_stream(kinds, statuses, getmove, repository_query=False):
    """What the caller of send_c_find (getmove=False) / send_c_get / send_c_move (getmove=True) must
    see for a peer stream.  `statuses[i]` is the Status of element i.

    Returns (yields, aborted, n_store_served): `yields` is a list of (status_marker, identifier_marker)
    where status_marker is EMPTY or the index of the stream element whose status is surfaced and
    identifier_marker is NONE, DATASET or EITHER.  One pair per response, in order, up to and
    including the first non-Pending one; the stream ending without a final response is the DIMSE
    timeout.  Elements after the terminating one are never looked at.

    Identifiers: a C-FIND Pending response carries the match (PS3.7 9.1.2.1.5) -> DATASET, or NONE
    when absent / undecodable; C-FIND final responses and C-GET/C-MOVE Pending responses surface
    none; C-GET/C-MOVE final responses: see final_identifier_expectation.

    repository_query: PS3.4 C.6.4.4 (Repository Query) - the Warning B001 "matching reached response
    limit" ends the Pending responses and is itself followed by the final response, i.e. it is the one
    non-Pending status that does not end the exchange; it carries no identifier.
    """
    out = []
    stores = 0
    for i, k in enumerate(kinds):
        if k == K_STORE_RQ:
            stores += 1
            continue
        if k == K_NO_STATUS or k == K_WRONG_TYPE:
            # invalid or unexpected message: documented empty result, association aborted
            out.append((EMPTY, NONE))
            return out, True, stores
        if repository_query and statuses[i] == 0xB001:
            out.append((i, NONE))
            continue
        if is_pending(statuses[i]):
            if getmove:
                out.append((i, NONE))
            else:
                out.append((i, DATASET if k == K_RSP_IDENT_OK else NONE))
            continue
        if getmove and k == K_RSP_IDENT_OK:
            out.append((i, final_identifier_expectation(statuses[i])))
        else:
            out.append((i, NONE))
        return out, False, stores
    # nothing (more) within the DIMSE timeout
    out.append((EMPTY, NONE))
    return out, True, stores


# ---------------------------------------------------------------------------------------------
# C23: C-CANCEL routing (PS3.7 9.3.2.3 / 9.3.3.3 / 9.3.4.3: a C-CANCEL names the operation to cancel by
# Message ID Being Responded To; it refers to the operation *in progress*).  Time is a sequence of
# slots; operation j is in progress from the slot in which its request has been received (QUEUED)
# to the end of its TAIL slot.
def slots(K):
    """Slot numbers for two consecutive operations with K handler check points each."""
    return {
        "BEFORE1": 0, "QUEUED1": 1, "CHECK1": 2, "TAIL1": 2 + K, "BETWEEN": 3 + K, "QUEUED2": 4 + K,
        "CHECK2": 5 + K, "TAIL2": 5 + 2 * K, "AFTER": 6 + 2 * K, "N": 7 + 2 * K,
    }


def expected_cancel_reports(K, m, cancels, op):
    """What operation `op` (1 or 2, message id m) must see at its K check points.

    cancels = [(slot, id)].  A cancel is *outstanding* for the operation once it has been received
    while the operation is in progress with the operation's message id; a check point reports it
    (True) exactly once.  Cancels with another id, or received before the operation's request or after
    its end, are never reported to it.
    """
    S = slots(K)
    queued = S["QUEUED1"] if op == 1 else S["QUEUED2"]
    check0 = S["CHECK1"] if op == 1 else S["CHECK2"]
    out = []
    outstanding = False
    for s, x in cancels:
        if s == queued and x == m:
            outstanding = True
    for i in range(K):
        for s, x in cancels:
            if s == check0 + i and x == m:
                outstanding = True
        out.append(outstanding)
        outstanding = False
    return out
