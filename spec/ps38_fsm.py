"""PS3.8 (DICOM Part 8) section 9.2 - the DICOM Upper Layer state machine, transcribed from the
standard's text: Table 9-10 (state transition table, all 19 x 13 cells) and Tables 9-6 ... 9-9
(the actions) as *effect sets*.

This module is an independent oracle: it never imports pynetdicom and was written from the
standard, not from pynetdicom/fsm.py.

Vocabulary
----------
States (Tables 9-1 ... 9-5):  Sta1 idle; Sta2 transport connection open, awaiting A-ASSOCIATE-RQ PDU;
Sta3 awaiting local A-ASSOCIATE response primitive; Sta4 awaiting transport connection opening to
complete; Sta5 awaiting A-ASSOCIATE-AC or -RJ PDU; Sta6 association established, ready for data
transfer; Sta7 awaiting A-RELEASE-RP PDU; Sta8 awaiting local A-RELEASE response primitive; Sta9 release
collision requestor side, awaiting A-RELEASE response primitive; Sta10 release collision acceptor side,
awaiting A-RELEASE-RP PDU; Sta11 release collision requestor side, awaiting A-RELEASE-RP PDU; Sta12
release collision acceptor side, awaiting A-RELEASE response primitive; Sta13 awaiting transport
connection close indication (association no longer exists).

Events (first column of Table 9-10): Evt1 A-ASSOCIATE request (local user); Evt2 transport connect
confirmation; Evt3 A-ASSOCIATE-AC PDU; Evt4 A-ASSOCIATE-RJ PDU; Evt5 transport connection indication;
Evt6 A-ASSOCIATE-RQ PDU; Evt7 A-ASSOCIATE response primitive (accept); Evt8 A-ASSOCIATE response
primitive (reject); Evt9 P-DATA request primitive; Evt10 P-DATA-TF PDU; Evt11 A-RELEASE request
primitive; Evt12 A-RELEASE-RQ PDU; Evt13 A-RELEASE-RP PDU; Evt14 A-RELEASE response primitive; Evt15
A-ABORT request primitive; Evt16 A-ABORT PDU; Evt17 transport connection closed indication; Evt18 ARTIM
timer expired; Evt19 unrecognized or invalid PDU received.
"""

STATES = ["Sta%d" % i for i in range(1, 14)]
EVENTS = ["Evt%d" % i for i in range(1, 20)]

# PDU type codes, PS3.8 section 9.3 (first byte of every PDU)
PDU_ASSOCIATE_RQ, PDU_ASSOCIATE_AC, PDU_ASSOCIATE_RJ, PDU_P_DATA_TF = 1, 2, 3, 4
PDU_RELEASE_RQ, PDU_RELEASE_RP, PDU_ABORT = 5, 6, 7

_ = None  # a blank cell of Table 9-10: the event is not defined in that state

# ---------------------------------------------------------------------------------------------
# Table 9-10.  One row per event; the 13 columns are Sta1 ... Sta13.  Every cell is written out.
#            Sta1     Sta2     Sta3     Sta4     Sta5     Sta6     Sta7     Sta8     Sta9     Sta10    Sta11    Sta12    Sta13
TABLE_9_10 = {
    "Evt1":  ["AE-1",  _,       _,       _,       _,       _,       _,       _,       _,       _,       _,       _,       _],
    "Evt2":  [_,       _,       _,       "AE-2",  _,       _,       _,       _,       _,       _,       _,       _,       _],
    "Evt3":  [_,       "AA-1",  "AA-8",  _,       "AE-3",  "AA-8",  "AA-8",  "AA-8",  "AA-8",  "AA-8",  "AA-8",  "AA-8",  "AA-6"],
    "Evt4":  [_,       "AA-1",  "AA-8",  _,       "AE-4",  "AA-8",  "AA-8",  "AA-8",  "AA-8",  "AA-8",  "AA-8",  "AA-8",  "AA-6"],
    "Evt5":  ["AE-5",  _,       _,       _,       _,       _,       _,       _,       _,       _,       _,       _,       _],
    "Evt6":  [_,       "AE-6",  "AA-8",  _,       "AA-8",  "AA-8",  "AA-8",  "AA-8",  "AA-8",  "AA-8",  "AA-8",  "AA-8",  "AA-7"],
    "Evt7":  [_,       _,       "AE-7",  _,       _,       _,       _,       _,       _,       _,       _,       _,       _],
    "Evt8":  [_,       _,       "AE-8",  _,       _,       _,       _,       _,       _,       _,       _,       _,       _],
    "Evt9":  [_,       _,       _,       _,       _,       "DT-1",  _,       "AR-7",  _,       _,       _,       _,       _],
    "Evt10": [_,       "AA-1",  "AA-8",  _,       "AA-8",  "DT-2",  "AR-6",  "AA-8",  "AA-8",  "AA-8",  "AA-8",  "AA-8",  "AA-6"],
    "Evt11": [_,       _,       _,       _,       _,       "AR-1",  _,       _,       _,       _,       _,       _,       _],
    "Evt12": [_,       "AA-1",  "AA-8",  _,       "AA-8",  "AR-2",  "AR-8",  "AA-8",  "AA-8",  "AA-8",  "AA-8",  "AA-8",  "AA-6"],
    "Evt13": [_,       "AA-1",  "AA-8",  _,       "AA-8",  "AA-8",  "AR-3",  "AA-8",  "AA-8",  "AR-10", "AR-3",  "AA-8",  "AA-6"],
    "Evt14": [_,       _,       _,       _,       _,       _,       _,       "AR-4",  "AR-9",  _,       _,       "AR-4",  _],
    "Evt15": [_,       _,       "AA-1",  "AA-2",  "AA-1",  "AA-1",  "AA-1",  "AA-1",  "AA-1",  "AA-1",  "AA-1",  "AA-1",  _],
    "Evt16": [_,       "AA-2",  "AA-3",  _,       "AA-3",  "AA-3",  "AA-3",  "AA-3",  "AA-3",  "AA-3",  "AA-3",  "AA-3",  "AA-2"],
    "Evt17": [_,       "AA-5",  "AA-4",  "AA-4",  "AA-4",  "AA-4",  "AA-4",  "AA-4",  "AA-4",  "AA-4",  "AA-4",  "AA-4",  "AR-5"],
    "Evt18": [_,       "AA-2",  _,       _,       _,       _,       _,       _,       _,       _,       _,       _,       "AA-2"],
    "Evt19": [_,       "AA-1",  "AA-8",  _,       "AA-8",  "AA-8",  "AA-8",  "AA-8",  "AA-8",  "AA-8",  "AA-8",  "AA-8",  "AA-7"],
}
del _

assert sorted(TABLE_9_10) == sorted(EVENTS) and all(len(r) == 13 for r in TABLE_9_10.values())


def cell(state, event):
    """The action name Table 9-10 assigns to (state, event), or None for a blank cell."""
    return TABLE_9_10[event][STATES.index(state)]


# ---------------------------------------------------------------------------------------------
# Indication / confirmation kinds a service user can receive from the provider
IND_ASSOC = "A-ASSOCIATE indication"
CNF_ASSOC_AC = "A-ASSOCIATE confirmation (accept)"
CNF_ASSOC_RJ = "A-ASSOCIATE confirmation (reject)"
IND_PDATA = "P-DATA indication"
IND_RELEASE = "A-RELEASE indication"
CNF_RELEASE = "A-RELEASE confirmation"
IND_ABORT = "A-ABORT indication"
IND_P_ABORT = "A-P-ABORT indication"

# A-ABORT PDU, PS3.8 section 9.3.8 / Table 9-26:
#   source 0 = DICOM UL service-user (initiated abort), 1 = reserved, 2 = DICOM UL service-provider;
#   reason/diag: "if the Source field has the value (2) ... 0 reason-not-specified, 1 unrecognized-PDU,
#   2 unexpected-PDU, 3 reserved, 4 unrecognized-PDU-parameter, 5 unexpected-PDU-parameter,
#   6 invalid-PDU-parameter-value"; "if the Source field has the value (0) ... this field shall not be
#   significant. It shall be sent with a value 00H".
ABORT_SRC_USER, ABORT_SRC_PROVIDER = 0, 2
PROVIDER_ABORT_REASONS = (0, 1, 2, 4, 5, 6)

# A-ASSOCIATE-RJ PDU, PS3.8 section 9.3.4 / Table 9-21: result 1 rejected-permanent, 2 rejected-transient;
#   source 1 UL service-user, 2 UL service-provider (ACSE related function), 3 UL service-provider
#   (presentation related function); for source 2: reason 1 no-reason-given, 2 protocol-version-not-supported.
RJ_RESULTS = (1, 2)
RJ_SRC_PROVIDER_ACSE = 2
RJ_REASON_PROTOCOL_VERSION = 2


class Effects:
    """What one action of Tables 9-6 ... 9-9 does, as a set of observable effects.

    pdu         PDU type sent on the transport connection (None: nothing is sent)
    abort       for an A-ABORT PDU: (allowed sources, allowed reasons)
    reject      for the A-ASSOCIATE-RJ PDU that AE-6 itself generates: (allowed results, source, reason);
                None for AE-8, whose result/source/reason are the response primitive's
    indication  primitive issued to the service user (None: none)
    artim       ordered ARTIM timer operations, each "start" or "stop"
                ("start (or restart if already started)" is written "start")
    transport   None, "connect" (TRANSPORT CONNECT request) or "close" (close transport connection)
    next_state  the state the action prescribes
    """

    def __init__(self, action, next_state, pdu=None, abort=None, reject=None, indication=None, artim=(),
                 transport=None):
        self.action, self.next_state, self.pdu, self.abort, self.reject = action, next_state, pdu, abort, reject
        self.indication, self.artim, self.transport = indication, tuple(artim), transport

    def __repr__(self):
        return "Effects(%s)" % ", ".join("%s=%r" % kv for kv in sorted(vars(self).items()))


def effects(action, is_requestor=True, rq_acceptable=True, abort_request=None, abort_pdu_source=0):
    """Tables 9-6 ... 9-9.

    is_requestor      needed by AR-8 ("if association-requestor, next state is Sta9, if not ... Sta10")
    rq_acceptable     needed by AE-6 ("if A-ASSOCIATE-RQ acceptable by service-provider")
    abort_request     needed by AA-1 when it is triggered by Evt15: the (source, reason) carried by the
                      abort request primitive the local user issued; None when AA-1 is triggered by a PDU
    abort_pdu_source  needed by AA-3: the Source field of the received A-ABORT PDU
    """
    E = Effects
    # --- Table 9-6 association establishment -------------------------------------------------
    if action == "AE-1":  # Issue TRANSPORT CONNECT request primitive to local transport service
        return E(action, "Sta4", transport="connect")
    if action == "AE-2":  # Send A-ASSOCIATE-RQ-PDU
        return E(action, "Sta5", pdu=PDU_ASSOCIATE_RQ)
    if action == "AE-3":  # Issue A-ASSOCIATE confirmation (accept) primitive
        return E(action, "Sta6", indication=CNF_ASSOC_AC)
    if action == "AE-4":  # Issue A-ASSOCIATE confirmation (reject) primitive and close transport connection
        return E(action, "Sta1", indication=CNF_ASSOC_RJ, transport="close")
    if action == "AE-5":  # Issue Transport connection response primitive; start ARTIM timer
        return E(action, "Sta2", artim=["start"])
    if action == "AE-6":
        # Stop ARTIM timer and if A-ASSOCIATE-RQ acceptable by service-provider: issue A-ASSOCIATE
        # indication primitive, next state Sta3; otherwise: issue A-ASSOCIATE-RJ-PDU and start ARTIM
        # timer, next state Sta13
        if rq_acceptable:
            return E(action, "Sta3", indication=IND_ASSOC, artim=["stop"])
        return E(action, "Sta13", pdu=PDU_ASSOCIATE_RJ, artim=["stop", "start"],
                 reject=(RJ_RESULTS, RJ_SRC_PROVIDER_ACSE, RJ_REASON_PROTOCOL_VERSION))
    if action == "AE-7":  # Send A-ASSOCIATE-AC PDU
        return E(action, "Sta6", pdu=PDU_ASSOCIATE_AC)
    if action == "AE-8":  # Send A-ASSOCIATE-RJ PDU and start ARTIM timer
        return E(action, "Sta13", pdu=PDU_ASSOCIATE_RJ, artim=["start"])
    # --- Table 9-7 data transfer --------------------------------------------------------------
    if action == "DT-1":  # Send P-DATA-TF PDU
        return E(action, "Sta6", pdu=PDU_P_DATA_TF)
    if action == "DT-2":  # Send P-DATA indication primitive
        return E(action, "Sta6", indication=IND_PDATA)
    # --- Table 9-8 association release --------------------------------------------------------
    if action == "AR-1":  # Send A-RELEASE-RQ PDU
        return E(action, "Sta7", pdu=PDU_RELEASE_RQ)
    if action == "AR-2":  # Issue A-RELEASE indication primitive
        return E(action, "Sta8", indication=IND_RELEASE)
    if action == "AR-3":  # Issue A-RELEASE confirmation primitive, and close transport connection
        return E(action, "Sta1", indication=CNF_RELEASE, transport="close")
    if action == "AR-4":  # Issue A-RELEASE-RP PDU and start ARTIM timer
        return E(action, "Sta13", pdu=PDU_RELEASE_RP, artim=["start"])
    if action == "AR-5":  # Stop ARTIM timer
        return E(action, "Sta1", artim=["stop"])
    if action == "AR-6":  # Issue P-DATA indication
        return E(action, "Sta7", indication=IND_PDATA)
    if action == "AR-7":  # Issue P-DATA-TF PDU
        return E(action, "Sta8", pdu=PDU_P_DATA_TF)
    if action == "AR-8":
        # Issue A-RELEASE indication (release collision): if association-requestor, next state is
        # Sta9, if not next state is Sta10
        return E(action, "Sta9" if is_requestor else "Sta10", indication=IND_RELEASE)
    if action == "AR-9":  # Send A-RELEASE-RP PDU
        return E(action, "Sta11", pdu=PDU_RELEASE_RP)
    if action == "AR-10":  # Issue A-RELEASE confirmation primitive
        return E(action, "Sta12", indication=CNF_RELEASE)
    # --- Table 9-9 association abort ----------------------------------------------------------
    if action == "AA-1":
        # Send A-ABORT PDU (service-user source) and start (or restart if already started) ARTIM timer.
        # Triggered by a PDU (Sta2): source 0 and therefore reason 0.  Triggered by Evt15: the PDU
        # carries what the request primitive carries (an A-ABORT request is service-user source, reason 0;
        # implementations whose upper layers also issue provider aborts pass source 2 + reason through).
        if abort_request is None:
            ab = ((ABORT_SRC_USER,), (0,))
        else:
            ab = ((abort_request[0],), (abort_request[1],))
        return E(action, "Sta13", pdu=PDU_ABORT, abort=ab, artim=["start"])
    if action == "AA-2":  # Stop ARTIM timer if running. Close transport connection
        return E(action, "Sta1", artim=["stop"], transport="close")
    if action == "AA-3":
        # If (service-user initiated abort): issue A-ABORT indication and close transport connection;
        # otherwise (service-provider initiated abort): issue A-P-ABORT indication and close transport
        # connection
        ind = IND_ABORT if abort_pdu_source == ABORT_SRC_USER else IND_P_ABORT
        return E(action, "Sta1", indication=ind, transport="close")
    if action == "AA-4":  # Issue A-P-ABORT indication primitive
        return E(action, "Sta1", indication=IND_P_ABORT)
    if action == "AA-5":  # Stop ARTIM timer
        return E(action, "Sta1", artim=["stop"])
    if action == "AA-6":  # Ignore PDU
        return E(action, "Sta13")
    if action == "AA-7":  # Send A-ABORT PDU  (generated by the provider itself: no user asked for it)
        return E(action, "Sta13", pdu=PDU_ABORT, abort=((ABORT_SRC_PROVIDER,), PROVIDER_ABORT_REASONS))
    if action == "AA-8":
        # Send A-ABORT PDU (service-provider source-), issue an A-P-ABORT indication, and start ARTIM timer
        return E(action, "Sta13", pdu=PDU_ABORT, abort=((ABORT_SRC_PROVIDER,), PROVIDER_ABORT_REASONS),
                 indication=IND_P_ABORT, artim=["start"])
    raise KeyError(action)


ACTION_NAMES = (["AE-%d" % i for i in range(1, 9)] + ["DT-1", "DT-2"] + ["AR-%d" % i for i in range(1, 11)]
                + ["AA-%d" % i for i in range(1, 9)])
assert {a for row in TABLE_9_10.values() for a in row if a} == set(ACTION_NAMES)


def expect(state, event, is_requestor=True, rq_acceptable=True, abort_request=None, abort_pdu_source=0):
    """None if Table 9-10 leaves (state, event) blank, otherwise the Effects of the assigned action."""
    a = cell(state, event)
    if a is None:
        return None
    if a == "AA-1" and event != "Evt15":
        abort_request = None
    return effects(a, is_requestor, rq_acceptable, abort_request, abort_pdu_source)


def next_state(state, event, is_requestor=True, rq_acceptable=True):
    e = expect(state, event, is_requestor, rq_acceptable)
    return None if e is None else e.next_state


# Events that are caused by the local service user (primitives), by the peer (PDUs), by the transport
# service and by the timer - used by the schedule harnesses to say who is responsible for an event.
USER_EVENTS = ("Evt1", "Evt7", "Evt8", "Evt9", "Evt11", "Evt14", "Evt15")
PDU_EVENTS = ("Evt3", "Evt4", "Evt6", "Evt10", "Evt12", "Evt13", "Evt16", "Evt19")
TRANSPORT_EVENTS = ("Evt2", "Evt5", "Evt17")
TIMER_EVENTS = ("Evt18",)
