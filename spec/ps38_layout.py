"""Reference encoder AND parser for the seven DICOM upper-layer PDUs and every item / sub-item kind.

Written from the standard, not from the implementation under test; it never imports pynetdicom.

Sources (DICOM PS3.8 "Network Communication Support for Message Exchange", section 9.3, and PS3.7
Annex D.3.3 "Association negotiation - user information sub-item structure"):

  PS3.8 9.3.1  "PDUs are constructed by mandatory fixed fields followed by optional variable fields that
               contain one or more items and/or sub-items. [...] Each PDU / item: byte 1 = type, byte 2
               reserved (sent 00H, NOT tested on receipt), then a length field = number of bytes from the
               first byte of the following field to the last byte of the PDU / item."  Lengths are
               unsigned binary, most significant byte first (big endian): 4 bytes for PDUs and PDV
               items, 2 bytes for every other item.
  Table 9-11   A-ASSOCIATE-RQ : 01H, 00H, length(4), protocol-version(2, bit 0 = version 1), 00H 00H,
               called-AE-title(16), calling-AE-title(16), 32 x 00H, variable items
               (one Application Context, one or more Presentation Context, one User Information).
               AE titles: 16 characters of the ISO 646 basic G0 set, space (20H) padded, leading and
               trailing spaces non-significant.
  Table 9-12   Application Context item : 10H, 00H, length(2), application-context-name (UID)
  Table 9-13   Presentation Context item (RQ): 20H, 00H, length(2), context-ID(1), 00H, 00H, 00H,
               one Abstract Syntax sub-item, one or more Transfer Syntax sub-items
  Table 9-14   Abstract Syntax sub-item : 30H, 00H, length(2), abstract-syntax-name
  Table 9-15   Transfer Syntax sub-item : 40H, 00H, length(2), transfer-syntax-name
  Table 9-16   User Information item    : 50H, 00H, length(2), user-data sub-items (PS3.7 Annex D)
  Table 9-17   A-ASSOCIATE-AC : 02H, ... same fixed part; bytes 11-26 and 27-42 are "reserved" (sent with
               the values received in the RQ, not tested)
  Table 9-18   Presentation Context item (AC): 21H, 00H, length(2), context-ID(1), 00H,
               result/reason(1), 00H, one Transfer Syntax sub-item (not significant unless result = 0)
  Table 9-21   A-ASSOCIATE-RJ : 03H, 00H, length(4) = 4, 00H, result, source, reason/diag
  Table 9-22   P-DATA-TF      : 04H, 00H, length(4), one or more PDV items
  Table 9-23   PDV item       : item-length(4), context-ID(1), presentation-data-value
               (message control header + fragment); item-length counts the context-ID byte
  Table 9-24   A-RELEASE-RQ   : 05H, 00H, length(4) = 4, 00H 00H 00H 00H
  Table 9-25   A-RELEASE-RP   : 06H, 00H, length(4) = 4, 00H 00H 00H 00H
  Table 9-26   A-ABORT        : 07H, 00H, length(4) = 4, 00H, 00H, source, reason/diag
  Annex F      UIDs are ISO 646 strings of digits and '.', at most 64 characters, NOT padded.

  PS3.7 D.1       Maximum Length            : 51H, 00H, length(2) = 4, maximum-length-received(4)
  PS3.7 D.3.3.2.1 Implementation Class UID  : 52H, 00H, length(2), UID
  PS3.7 D.3.3.2.3 Implementation Version Name: 55H, 00H, length(2), name (1-16 ISO 646 characters)
  PS3.7 D.3.3.3.1 Asynchronous Operations Window: 53H, 00H, length(2) = 4, max-invoked(2), max-performed(2)
  PS3.7 D.3.3.4.1 SCP/SCU Role Selection    : 54H, 00H, length(2), UID-length(2), SOP-class-UID,
                                              SCU-role(1), SCP-role(1)
  PS3.7 D.3.3.5.1 SOP Class Extended Negotiation: 56H, 00H, length(2), SOP-class-UID-length(2),
                                              SOP-class-UID, service-class-application-information
  PS3.7 D.3.3.6.1 SOP Class Common Extended Negotiation: 57H, sub-item-version (00H), length(2),
                                              SOP-class-UID-length(2), SOP-class-UID,
                                              service-class-UID-length(2), service-class-UID,
                                              related-general-SOP-class-identification-length(2),
                                              { related-general-SOP-class-UID-length(2), UID } *
  PS3.7 D.3.3.7.1 User Identity (RQ)        : 58H, 00H, length(2), user-identity-type(1),
                                              positive-response-requested(1), primary-field-length(2),
                                              primary-field, secondary-field-length(2), secondary-field
  PS3.7 D.3.3.7.2 User Identity (AC)        : 59H, 00H, length(2), server-response-length(2), server-response

Value model (plain Python data, so that it can hold CrossHair's symbolic ints / bytes):

  PDUs  ("RQ", protocol_version, called, calling, [item, ...])
        ("AC", protocol_version, reserved_called, reserved_calling, [item, ...])
        ("RJ", result, source, reason)
        ("PDATA", [(context_id, data), ...])
        ("RELRQ",)   ("RELRP",)   ("ABORT", source, reason)
  items ("app", uid)                       ("pcrq", context_id, [("abs", uid) | ("ts", uid), ...])
        ("pcac", context_id, result, [("ts", uid), ...])          ("ui", [sub-item, ...])
  user-information sub-items
        ("maxlen", n) ("impl_uid", uid) ("impl_ver", name) ("async", invoked, performed)
        ("role", uid, scu, scp) ("ext", uid, app_info) ("cext", uid, service_uid, [related uid, ...])
        ("uid_rq", id_type, response_requested, primary, secondary) ("uid_ac", server_response)
  strings are `str` (ASCII), payloads are `bytes`, numbers are `int`.
"""
import struct


class LayoutError(ValueError):
    """The byte string does not follow the PS3.8 layout."""


# ------------------------------------------------------------------------------------------------
# elementary fields
# ------------------------------------------------------------------------------------------------
def u8(v):
    return struct.pack("B", v)


def u16(v):
    return struct.pack(">H", v)


def u32(v):
    return struct.pack(">I", v)


def txt(s):
    """ISO 646 string field without padding (UIDs, version names)."""
    return s.encode("ascii")


def ae16(title):
    """16-byte AE title field, padded with trailing spaces."""
    raw = title.encode("ascii")
    if len(raw) > 16:
        raise LayoutError("AE title longer than 16 characters")
    return raw + b" " * (16 - len(raw))


def _item(item_type, body, second=0):
    """type(1), reserved/version(1), length(2) = len(body), body."""
    return u8(item_type) + u8(second) + u16(len(body)) + body


# ------------------------------------------------------------------------------------------------
# encoder
# ------------------------------------------------------------------------------------------------
def encode_subitem(si):
    k = si[0]
    if k == "abs":
        return _item(0x30, txt(si[1]))
    if k == "ts":
        return _item(0x40, txt(si[1]))
    if k == "maxlen":
        return _item(0x51, u32(si[1]))
    if k == "impl_uid":
        return _item(0x52, txt(si[1]))
    if k == "async":
        return _item(0x53, u16(si[1]) + u16(si[2]))
    if k == "role":
        uid = txt(si[1])
        return _item(0x54, u16(len(uid)) + uid + u8(si[2]) + u8(si[3]))
    if k == "impl_ver":
        return _item(0x55, txt(si[1]))
    if k == "ext":
        uid = txt(si[1])
        return _item(0x56, u16(len(uid)) + uid + si[2])
    if k == "cext":
        uid, svc = txt(si[1]), txt(si[2])
        rel = b""
        for r in si[3]:
            rr = txt(r)
            rel += u16(len(rr)) + rr
        return _item(0x57, u16(len(uid)) + uid + u16(len(svc)) + svc + u16(len(rel)) + rel, second=0)
    if k == "uid_rq":
        return _item(0x58, u8(si[1]) + u8(si[2]) + u16(len(si[3])) + si[3] + u16(len(si[4])) + si[4])
    if k == "uid_ac":
        return _item(0x59, u16(len(si[1])) + si[1])
    raise LayoutError("unknown sub-item kind %r" % (k,))


def encode_item(it):
    k = it[0]
    if k == "app":
        return _item(0x10, txt(it[1]))
    if k == "pcrq":
        body = u8(it[1]) + b"\x00\x00\x00"
        for si in it[2]:
            body += encode_subitem(si)
        return _item(0x20, body)
    if k == "pcac":
        body = u8(it[1]) + b"\x00" + u8(it[2]) + b"\x00"
        for si in it[3]:
            body += encode_subitem(si)
        return _item(0x21, body)
    if k == "ui":
        body = b""
        for si in it[1]:
            body += encode_subitem(si)
        return _item(0x50, body)
    return encode_subitem(it)


def _pdu(pdu_type, body):
    return u8(pdu_type) + b"\x00" + u32(len(body)) + body


def encode_pdu(v):
    k = v[0]
    if k in ("RQ", "AC"):
        body = u16(v[1]) + b"\x00\x00" + ae16(v[2]) + ae16(v[3]) + b"\x00" * 32
        for it in v[4]:
            body += encode_item(it)
        return _pdu(0x01 if k == "RQ" else 0x02, body)
    if k == "RJ":
        return _pdu(0x03, b"\x00" + u8(v[1]) + u8(v[2]) + u8(v[3]))
    if k == "PDATA":
        body = b""
        for cid, data in v[1]:
            body += u32(1 + len(data)) + u8(cid) + data
        return _pdu(0x04, body)
    if k == "RELRQ":
        return _pdu(0x05, b"\x00\x00\x00\x00")
    if k == "RELRP":
        return _pdu(0x06, b"\x00\x00\x00\x00")
    if k == "ABORT":
        return _pdu(0x07, b"\x00\x00" + u8(v[1]) + u8(v[2]))
    raise LayoutError("unknown PDU kind %r" % (k,))


# ------------------------------------------------------------------------------------------------
# parser (strict about every length field; reserved bytes are "not tested" as the standard says)
# ------------------------------------------------------------------------------------------------
def _need(b, n, what):
    if len(b) < n:
        raise LayoutError("truncated " + what)


def _g8(b, o):
    return b[o]


def _g16(b, o):
    # (plain arithmetic rather than shifts: stays linear for the solver when b is symbolic)
    return b[o] * 256 + b[o + 1]


def _g32(b, o):
    return ((b[o] * 256 + b[o + 1]) * 256 + b[o + 2]) * 256 + b[o + 3]


def _str(b, what):
    try:
        return bytes(b).decode("ascii")
    except UnicodeDecodeError:
        raise LayoutError(what + " is not ISO 646")


def split_items(b, what="item"):
    """[(type, second byte, body)] for a sequence of type/reserved/length(2)/body items that must
    fill `b` exactly."""
    out, o = [], 0
    while o < len(b):
        _need(b[o:], 4, what + " header")
        ln = _g16(b, o + 2)
        _need(b[o + 4:], ln, what + " body")
        out.append((b[o], b[o + 1], b[o + 4:o + 4 + ln]))
        o += 4 + ln
    return out


def parse_subitem(t, second, body):
    if t == 0x30:
        return ("abs", _str(body, "abstract syntax"))
    if t == 0x40:
        return ("ts", _str(body, "transfer syntax"))
    if t == 0x51:
        if len(body) != 4:
            raise LayoutError("maximum length sub-item length != 4")
        return ("maxlen", _g32(body, 0))
    if t == 0x52:
        return ("impl_uid", _str(body, "implementation class uid"))
    if t == 0x53:
        if len(body) != 4:
            raise LayoutError("asynchronous operations window length != 4")
        return ("async", _g16(body, 0), _g16(body, 2))
    if t == 0x54:
        _need(body, 2, "role selection")
        n = _g16(body, 0)
        if len(body) != 2 + n + 2:
            raise LayoutError("role selection: item length != 4 + uid length")
        return ("role", _str(body[2:2 + n], "sop class uid"), body[2 + n], body[3 + n])
    if t == 0x55:
        return ("impl_ver", _str(body, "implementation version name"))
    if t == 0x56:
        _need(body, 2, "extended negotiation")
        n = _g16(body, 0)
        _need(body[2:], n, "extended negotiation uid")
        return ("ext", _str(body[2:2 + n], "sop class uid"), bytes(body[2 + n:]))
    if t == 0x57:
        _need(body, 2, "common extended negotiation")
        n = _g16(body, 0)
        _need(body[2:], n + 2, "common extended negotiation sop class uid")
        uid = _str(body[2:2 + n], "sop class uid")
        o = 2 + n
        m = _g16(body, o)
        _need(body[o + 2:], m + 2, "common extended negotiation service class uid")
        svc = _str(body[o + 2:o + 2 + m], "service class uid")
        o = o + 2 + m
        r = _g16(body, o)
        rel_b = body[o + 2:o + 2 + r]
        if len(rel_b) != r:
            raise LayoutError("related general identification truncated")
        # bytes after the related-general field are "reserved" in version 0 (none are defined)
        if len(body) != o + 2 + r:
            raise LayoutError("common extended negotiation: trailing bytes")
        rel, p = [], 0
        while p < len(rel_b):
            _need(rel_b[p:], 2, "related general uid length")
            q = _g16(rel_b, p)
            _need(rel_b[p + 2:], q, "related general uid")
            rel.append(_str(rel_b[p + 2:p + 2 + q], "related general uid"))
            p += 2 + q
        return ("cext", uid, svc, rel)
    if t == 0x58:
        _need(body, 4, "user identity rq")
        n = _g16(body, 2)
        _need(body[4:], n + 2, "user identity primary field")
        prim = bytes(body[4:4 + n])
        m = _g16(body, 4 + n)
        if len(body) != 4 + n + 2 + m:
            raise LayoutError("user identity rq: lengths do not add up")
        return ("uid_rq", body[0], body[1], prim, bytes(body[6 + n:]))
    if t == 0x59:
        _need(body, 2, "user identity ac")
        n = _g16(body, 0)
        if len(body) != 2 + n:
            raise LayoutError("user identity ac: lengths do not add up")
        return ("uid_ac", bytes(body[2:]))
    raise LayoutError("unknown sub-item type 0x%02x" % t)


def parse_item(t, second, body):
    if t == 0x10:
        return ("app", _str(body, "application context name"))
    if t == 0x20:
        _need(body, 4, "presentation context (rq)")
        subs = [parse_subitem(*x) for x in split_items(body[4:], "sub-item")]
        for s in subs:
            if s[0] not in ("abs", "ts"):
                raise LayoutError("unexpected sub-item in presentation context (rq)")
        return ("pcrq", body[0], subs)
    if t == 0x21:
        _need(body, 4, "presentation context (ac)")
        subs = [parse_subitem(*x) for x in split_items(body[4:], "sub-item")]
        for s in subs:
            if s[0] != "ts":
                raise LayoutError("unexpected sub-item in presentation context (ac)")
        return ("pcac", body[0], body[2], subs)
    if t == 0x50:
        subs = [parse_subitem(*x) for x in split_items(body, "user data sub-item")]
        for s in subs:
            if s[0] in ("abs", "ts"):
                raise LayoutError("syntax sub-item inside user information")
        return ("ui", subs)
    raise LayoutError("unknown item type 0x%02x" % t)


def parse_pdu(b):
    """Parse one complete PDU (exactly len(b) bytes).  Raises LayoutError when any length field
    disagrees with what follows it or a type is not defined by PS3.8 / PS3.7 Annex D."""
    _need(b, 6, "PDU header")
    t = b[0]
    ln = _g32(b, 2)
    if len(b) != 6 + ln:
        raise LayoutError("PDU length field %d != %d bytes that follow" % (ln, len(b) - 6))
    body = b[6:]
    if t in (0x01, 0x02):
        _need(body, 68, "A-ASSOCIATE fixed part")
        called = _str(body[4:20], "called AE title").strip(" ")
        calling = _str(body[20:36], "calling AE title").strip(" ")
        items = [parse_item(*x) for x in split_items(body[68:], "variable item")]
        return ("RQ" if t == 1 else "AC", _g16(body, 0), called, calling, items)
    if t == 0x03:
        if ln != 4:
            raise LayoutError("A-ASSOCIATE-RJ length != 4")
        return ("RJ", body[1], body[2], body[3])
    if t == 0x04:
        pdvs, o = [], 0
        while o < len(body):
            _need(body[o:], 5, "PDV item header")
            n = _g32(body, o)
            if n < 1:
                raise LayoutError("PDV item length 0")
            _need(body[o + 4:], n, "PDV item")
            pdvs.append((body[o + 4], bytes(body[o + 5:o + 4 + n])))
            o += 4 + n
        return ("PDATA", pdvs)
    if t in (0x05, 0x06):
        if ln != 4:
            raise LayoutError("A-RELEASE length != 4")
        return ("RELRQ",) if t == 5 else ("RELRP",)
    if t == 0x07:
        if ln != 4:
            raise LayoutError("A-ABORT length != 4")
        return ("ABORT", body[2], body[3])
    raise LayoutError("unknown PDU type 0x%02x" % t)


#: PDU type byte -> name used in the value model
PDU_KINDS = {1: "RQ", 2: "AC", 3: "RJ", 4: "PDATA", 5: "RELRQ", 6: "RELRP", 7: "ABORT"}

#: PS3.8 Table 9-10: event raised by the receipt of each PDU type
EVENT_OF = {"RQ": "Evt6", "AC": "Evt3", "RJ": "Evt4", "PDATA": "Evt10", "RELRQ": "Evt12",
            "RELRP": "Evt13", "ABORT": "Evt16"}


# ------------------------------------------------------------------------------------------------
# legality predicates of the value space (PS3.5 6.2 AE / UI, PS3.8 Annex F)
# ------------------------------------------------------------------------------------------------
def legal_ae(s):
    """1-16 characters of the default repertoire without backslash / control characters, not only
    spaces, leading/trailing spaces not significant (so a canonical value has none)."""
    return (1 <= len(s) <= 16 and all(0x20 <= ord(c) <= 0x7E and c != "\\" for c in s)
            and s.strip(" ") == s and s != "")


def legal_uid(s):
    """1-64 characters, digits and '.', components non-empty, no leading zero unless the component is 0."""
    if not (1 <= len(s) <= 64):
        return False
    for comp in s.split("."):
        if comp == "" or not all("0" <= c <= "9" for c in comp):
            return False
        if len(comp) > 1 and comp[0] == "0":
            return False
    return True


# ------------------------------------------------------------------------------------------------
# pools of legal strings: exactly one legal UID / AE title per (length, pool) - harnesses enumerate
# string *lengths* (strings cannot stay symbolic through pydicom.uid.UID)
# ------------------------------------------------------------------------------------------------
_UID_TAIL = ".2.840.10008.5.1.4.1.1.12.77.3.19.4.60.31.245.8.9.11.13.17.19.23.29.31.37.41"
_AE_POOLS = ["AE_Title-0 9.x#Z", "q$R(7)+scu;M=n~!"]


def uid_of_len(n, salt):
    """A legal UID of exactly n (1..64) characters; `salt` (1..9) is its first digit, so different
    fields of one value can carry different UIDs (a swap of two fields is then visible)."""
    s = (str(salt) + _UID_TAIL)[:n]
    if s.endswith("."):
        s = s[:-1] + "7"
    return s


def ae_of_len(n, pool):
    """A legal AE title / version name of exactly n (1..16) characters from pool 0 or 1."""
    s = _AE_POOLS[pool][:n]
    if s.endswith(" "):
        s = s[:-1] + "s"
    return s


# ------------------------------------------------------------------------------------------------
# self-check of this transcription against hand-assembled byte strings (runs at import, < 1 ms)
# ------------------------------------------------------------------------------------------------
def _h(s):
    return bytes.fromhex(s.replace(" ", "").replace("\n", ""))


# A Verification A-ASSOCIATE-RQ assembled by hand from Tables 9-11...9-16 / PS3.7 D.1, D.3.3.2
_EX_RQ_VALUE = (
    "RQ", 1, "ANY-SCP", "ECHOSCU",
    [("app", "1.2.840.10008.3.1.1.1"),
     ("pcrq", 1, [("abs", "1.2.840.10008.1.1"), ("ts", "1.2.840.10008.1.2")]),
     ("ui", [("maxlen", 16382), ("impl_uid", "1.2.3"), ("impl_ver", "V1")])])
_EX_RQ_BYTES = _h(
    "01 00 000000aa"                                   # type, reserved, length = 68+25+50+27 = 170
    "0001 0000"                                        # protocol version, reserved
    "414e592d5343502020202020202020 20"                # 'ANY-SCP' + 9 spaces
    "4543484f534355202020202020202020"                 # 'ECHOSCU' + 9 spaces
    + "00" * 32 +
    "10 00 0015 312e322e3834302e31303030382e332e312e312e31"        # application context, 21 chars
    "20 00 002e 01 00 00 00"                                       # presentation context 1, 46 bytes
    "30 00 0011 312e322e3834302e31303030382e312e31"                # abstract syntax, 17 chars
    "40 00 0011 312e322e3834302e31303030382e312e32"                # transfer syntax, 17 chars
    "50 00 0017"                                                   # user information, 23 bytes
    "51 00 0004 00003ffe"                                          # maximum length 16382
    "52 00 0005 312e322e33"                                        # implementation class uid '1.2.3'
    "55 00 0002 5631")                                             # implementation version 'V1'

_EXAMPLES = [
    (_EX_RQ_VALUE, _EX_RQ_BYTES),
    (("RJ", 1, 1, 7), _h("03 00 00000004 00 01 01 07")),
    (("RELRQ",), _h("05 00 00000004 00000000")),
    (("RELRP",), _h("06 00 00000004 00000000")),
    (("ABORT", 2, 6), _h("07 00 00000004 00 00 02 06")),
    (("PDATA", [(1, b"\x03\xaa"), (3, b"\x02")]),
     _h("04 00 0000000d 00000003 01 03aa 00000002 03 02")),
    (("AC", 1, "ANY-SCP", "ECHOSCU",
      [("app", "1.2"), ("pcac", 1, 0, [("ts", "1.2.840.10008.1.2")]),
       ("ui", [("maxlen", 0), ("async", 1, 2), ("role", "1.2.3", 0, 1), ("ext", "1.2", b"\x01\x02"),
               ("cext", "1.2", "1.3", ["1.4", "1.55"]), ("uid_rq", 2, 1, b"u", b"pw"), ("uid_ac", b"ok")])]),
     _h("02 00 000000c4 0001 0000 414e592d5343502020202020202020 20 4543484f534355202020202020202020"
        + "00" * 32 +
        "10 00 0003 312e32"
        "21 00 0019 01 00 00 00 40 00 0011 312e322e3834302e31303030382e312e32"
        "50 00 0058"
        "51 00 0004 00000000"
        "53 00 0004 0001 0002"
        "54 00 0009 0005 312e322e33 00 01"
        "56 00 0007 0003 312e32 0102"
        "57 00 0017 0003 312e32 0003 312e33 000b 0003 312e34 0004 312e3535"
        "58 00 0009 02 01 0001 75 0002 7077"
        "59 00 0004 0002 6f6b")),
]


def selfcheck():
    for value, raw in _EXAMPLES:
        got = encode_pdu(value)
        if got != raw:
            raise AssertionError("ps38_layout: encoder disagrees with hand-assembled bytes for %r:\n%s\n%s"
                                 % (value[0], got.hex(), raw.hex()))
        back = parse_pdu(raw)
        if back != value:
            raise AssertionError("ps38_layout: parser disagrees for %r: %r" % (value[0], back))
    for n in range(1, 65):
        for salt in range(1, 10):
            u = uid_of_len(n, salt)
            if not (legal_uid(u) and len(u) == n):
                raise AssertionError("ps38_layout: uid pool")
    for n in range(1, 17):
        for pool in (0, 1):
            t = ae_of_len(n, pool)
            if not (legal_ae(t) and len(t) == n):
                raise AssertionError("ps38_layout: ae pool")
    for bad in (_h("03 00 00000005 00 01 01 07 00"), _h("07 00 00000004 00 00 02"),
                _h("04 00 00000006 00000003 01 03"), _h("08 00 00000000")):
        try:
            parse_pdu(bad)
        except LayoutError:
            continue
        raise AssertionError("ps38_layout: parser accepted a malformed PDU " + bad.hex())
    return True


selfcheck()
