"""Independent oracle for presentation-context negotiation (C10, C11).

Never imports pynetdicom.  Everything here is written from

  (T) the role-selection table of /repo/docs/user/presentation_role_selection.rst, transcribed row by row
      (`DOC_TABLE`, `table_outcome`);
  (F) PS3.7 Annex D.3.3.4 "SCP/SCU Role Selection Negotiation" as a formula (`formula_outcome`);
  (P) PS3.8 9.3.2.2 / 9.3.3.2 and Table 9-18 (presentation context items and the result/reason values) plus the
      "Implementation note" of /repo/docs/user/presentation_negotiation.rst for the transfer-syntax choice
      (`negotiate`).

All functions work on plain values (bool / None / int / str / tuples / lists) and only use `==`, `and`, `or`,
`not` and `if` on them, so they can be executed on solver-symbolic booleans as well as on concrete ones.

--------------------------------------------------------------------------------------------------------------
(F)  PS3.7 D.3.3.4, paraphrased (the normative sentences the formula is built from):

  * The Association-requestor may, for each SOP Class (abstract syntax), send one SCP/SCU Role Selection item with
    two flags: SCU-role (1 = "I propose to be SCU", 0 = not) and SCP-role (same for SCP).
  * The Association-acceptor answers each item it supports with an item for the same SOP Class UID; for each flag
    it either accepts the proposal (returns 1) or turns it down (returns 0).  It shall not return 1 for a role that
    was proposed as 0.
  * If the acceptor does not return an item for a SOP Class (or none was proposed), the DEFAULT roles apply:
    Association-requestor = SCU, Association-acceptor = SCP.
  * If the item is returned, the requestor is SCU iff the returned SCU-role is 1 and SCP iff the returned SCP-role
    is 1; the acceptor has the complementary roles (it is SCP towards a requestor-SCU and SCU towards a
    requestor-SCP).
  * If both returned flags are 0 no role is left: the presentation contexts of that abstract syntax are not usable
    (pynetdicom documents this as "context rejected", which on the wire is result 1 = user-rejection, PS3.8
    Table 9-18).

(T)  docs/user/presentation_role_selection.rst: "When acting as the acceptor both scu_role and scp_role must be
     specified.  A value of True indicates that the acceptor will accept the proposed role."  Hence the acceptor's
     *configuration* (scu_role, scp_role in {None, True, False}) is turned into the *reply* as
         no reply                     if nothing was proposed or either configured value is None
         reply = proposal AND config  otherwise (per flag; "cannot return 1 when the proposed value is 0")
     and the Acceptor columns of the documented table are the reply values.  The table then gives the roles.
"""

# ----------------------------------------------------------------------------------------------------------
# (T) the documented table, row by row.  Columns: requestor scu_role, scp_role | acceptor scu_role, scp_role |
# outcome requestor, outcome acceptor.  None in the first four columns = "N/A" (no role selection), None in the
# outcome columns = "N/A / Rejected".
SCU, SCP, BOTH = "SCU", "SCP", "SCU/SCP"
DOC_TABLE = [
    # rq_scu rq_scp  ac_scu ac_scp  requestor acceptor      notes
    (None,   None,   None,  None,   SCU,      SCP),       # Default
    (True,   True,   False, False,  None,     None),      # Rejected
    (True,   True,   False, True,   SCP,      SCU),
    (True,   True,   True,  False,  SCU,      SCP),       # Default
    (True,   True,   True,  True,   BOTH,     BOTH),
    (True,   False,  False, False,  None,     None),      # Rejected
    (True,   False,  True,  False,  SCU,      SCP),       # Default
    (False,  True,   False, False,  None,     None),      # Rejected
    (False,  True,   False, True,   SCP,      SCU),
    (False,  False,  False, False,  None,     None),      # Rejected
]

# result / reason values of a presentation context item in an A-ASSOCIATE-AC, PS3.8 Table 9-18
ACCEPTANCE = 0
USER_REJECTION = 1
NO_REASON = 2
ABSTRACT_SYNTAX_NOT_SUPPORTED = 3
TRANSFER_SYNTAXES_NOT_SUPPORTED = 4


class OracleGap(Exception):
    """The documented table has no row for the situation (an oracle problem, never a verdict)."""


def role_reply(proposed, rq_scu, rq_scp, cfg_scu, cfg_scp):
    """The acceptor's reply item for one abstract syntax, or None for "no reply".

    proposed          the requestor sent a role-selection item for this abstract syntax
    rq_scu, rq_scp    the proposed flags (bool)
    cfg_scu, cfg_scp  the acceptor's configuration for this abstract syntax: None / True / False
    """
    if not proposed:
        return None
    if cfg_scu is None or cfg_scp is None:
        return None
    return (bool(rq_scu and cfg_scu), bool(rq_scp and cfg_scp))


def _roles_of(word):
    # (as_scu, as_scp) of a side from the word used in the documented table
    if word == SCU:
        return (True, False)
    if word == SCP:
        return (False, True)
    if word == BOTH:
        return (True, True)
    return (False, False)


def table_outcome(proposed, rq_scu, rq_scp, cfg_scu, cfg_scp):
    """(T): look the situation up in the documented table.

    Returns (reply, (rq_as_scu, rq_as_scp), (ac_as_scu, ac_as_scp), usable)."""
    reply = role_reply(proposed, rq_scu, rq_scp, cfg_scu, cfg_scp)
    if reply is None:
        row = DOC_TABLE[0]
    else:
        row = None
        for r in DOC_TABLE[1:]:
            if r[0] == rq_scu and r[1] == rq_scp and r[2] == reply[0] and r[3] == reply[1]:
                row = r
                break
        if row is None:
            raise OracleGap("no documented row for requestor (%r, %r) / reply %r" % (rq_scu, rq_scp, reply))
    usable = row[4] is not None
    return reply, _roles_of(row[4]), _roles_of(row[5]), usable


def formula_outcome(proposed, rq_scu, rq_scp, cfg_scu, cfg_scp):
    """(F): PS3.7 D.3.3.4.  Same return value as `table_outcome`."""
    reply = role_reply(proposed, rq_scu, rq_scp, cfg_scu, cfg_scp)
    if reply is None:
        return None, (True, False), (False, True), True
    rq_as_scu, rq_as_scp = reply[0], reply[1]
    # the acceptor is SCP towards a requestor-SCU and SCU towards a requestor-SCP
    ac_as_scp, ac_as_scu = rq_as_scu, rq_as_scp
    usable = bool(rq_as_scu or rq_as_scp)
    return reply, (rq_as_scu, rq_as_scp), (ac_as_scu, ac_as_scp), usable


def requestor_outcome(accepted, proposed, rq_scu, rq_scp, reply):
    """The requestor's roles on an accepted context, from what it proposed and the reply item it received
    (PS3.7 D.3.3.4): default roles unless it proposed and the acceptor answered."""
    if not accepted:
        return (False, False)
    if not proposed or reply is None:
        return (True, False)
    return (bool(reply[0]), bool(reply[1]))


# ----------------------------------------------------------------------------------------------------------
# (P) the whole acceptor-side negotiation on plain data.
#
#   proposed   list of (context_id, abstract_syntax, [transfer syntaxes...])         (PS3.8 9.3.2.2)
#   supported  list of (abstract_syntax, [transfer syntaxes in order of preference], cfg_scu, cfg_scp)
#   roles      dict abstract_syntax -> (scu, scp)  role-selection items of the request
#   storage_like(abstract_syntax) -> bool   only used when `unrestricted` (see `negotiate` below)
#
# returns (results, replies)
#   results    list of dicts {id, abstract_syntax, result, transfer_syntax (only significant when result == 0),
#              as_scu, as_scp (the ACCEPTOR's roles, only significant when result == 0)}, one per proposed context,
#              in the order of the proposal
#   replies    dict abstract_syntax -> (scu, scp) role-selection items of the response


def choose_transfer_syntax(proposed_ts, supported_ts):
    """PS3.8 9.3.3.2: the acceptor selects ONE of the proposed transfer syntaxes.  pynetdicom documents its choice
    (docs/user/presentation_negotiation.rst, Implementation note): the first of the ACCEPTOR's list that was
    proposed.  None if there is no common transfer syntax."""
    for ts in supported_ts:
        for p in proposed_ts:
            if p == ts:
                return ts
    return None


def negotiate(proposed, supported, roles, unrestricted=False, storage_like=None, outcome=formula_outcome):
    results = []
    replies = {}
    for (cid, ab, tss) in proposed:
        res = {"id": cid, "abstract_syntax": ab, "result": None, "transfer_syntax": None,
               "as_scu": False, "as_scp": False}
        results.append(res)
        has_role = False
        rq_scu = rq_scp = None
        for k in roles:
            if k == ab:
                has_role = True
                rq_scu, rq_scp = roles[k]
        if unrestricted and storage_like(ab):
            # _config.UNRESTRICTED_STORAGE_SERVICE: "assume all presentation contexts with private or unknown public
            # abstract syntaxes belong to the storage service and accept all storage service requests ... any
            # [storage contexts] that have been added will be ignored".  Every proposed transfer syntax counts as
            # supported (no preference is documented: `transfer_syntax` is reported as the set of admissible
            # choices), and every proposed role is acceptable (configuration (True, True)).
            reply, _rq, ac, usable = outcome(has_role, rq_scu, rq_scp, True, True)
            res["transfer_syntax_any_of"] = list(tss)
            res["result"] = ACCEPTANCE if usable else USER_REJECTION
            if usable:
                res["as_scu"], res["as_scp"] = ac
                if reply is not None:
                    replies[ab] = reply
            continue
        sup = None
        for s in supported:
            if s[0] == ab:
                sup = s
                break
        if sup is None:
            res["result"] = ABSTRACT_SYNTAX_NOT_SUPPORTED
            continue
        ts = choose_transfer_syntax(tss, sup[1])
        if ts is None:
            res["result"] = TRANSFER_SYNTAXES_NOT_SUPPORTED
            continue
        reply, _rq, ac, usable = outcome(has_role, rq_scu, rq_scp, sup[2], sup[3])
        if not usable:
            res["result"] = USER_REJECTION
            continue
        res["result"] = ACCEPTANCE
        res["transfer_syntax"] = ts
        res["as_scu"], res["as_scp"] = ac
        if reply is not None:
            replies[ab] = reply
    return results, replies


# ----------------------------------------------------------------------------------------------------------
# classification used by the unrestricted-storage mode, written from PS3.4 / PS3.6 (not from pynetdicom):
DICOM_ROOT = "1.2.840.10008."


def is_private_uid(uid):
    """PS3.5 9.1 / PS3.6: UIDs under the DICOM root 1.2.840.10008 are DICOM-defined; every other root is private."""
    return not uid.startswith(DICOM_ROOT)
