"""Independent oracle for C20 / C21 / C22: what pynetdicom *documents* an SCP answers.

No pynetdicom import.  Sources (quoted where a number is taken from them):

* /repo/docs/service_classes/*.rst, sections "pynetdicom ... Statuses":
    0xC001  "Handler bound to evt.EVT_C_xxx yielded/returned a status Dataset with no (0000,0900)
             Status element"
    0xC002  "... an invalid status object (not a pydicom Dataset or an int)"
    0xC211  "Unhandled exception raised by the handler bound to evt.EVT_C_STORE"
    0xC311 / 0xC312  C-FIND: unhandled exception / "Failed to encode the dataset received from the handler"
    0xC411 / 0xC413 / 0xC416  C-GET: unhandled exception / "yielded an invalid number of
             sub-operations" / "yielded more than 65535 matches"
    0xC511 / 0xC513 / 0xC514 / 0xC515 / 0xC516  C-MOVE: unhandled exception / invalid number of
             sub-operations / "failed to yield the (address, port) and/or the number of
             sub-operations" / "yielded an invalid destination AE (addr, port)" / more than 65535
    0xA801  "Move destination unknown"
    0x0110  DIMSE-N "Processing failure" (handler exception, response dataset cannot be encoded)
* ServiceClass.validate_status docstring (0xC001 / 0xC002 for every service class).
* VerificationServiceClass: a C-ECHO handler that raises or returns something that is neither an
  int nor a Dataset with a Status is answered "with a default 'Status' value of 0x0000 (Success)"
  (docs/reference handlers `doc_handle_echo`, log text of the SCP).
* DICOM PS3.7 Annex C (status classes) and PS3.4 C.4.1.1.4 / C.4.2.1.5 / C.4.3.1.4 / C.6.4.4.
"""

# ---------------------------------------------------------------------------------------------
# status classes (PS3.7 Annex C, table C-1) -- only what C20-C22 need
PENDING_CODES = (0xFF00, 0xFF01)
SUCCESS = 0x0000
CANCEL = 0xFE00
RESPONSE_LIMIT_WARNING = 0xB001  # PS3.4 C.6.4.4, Repository Query only
REPOSITORY_QUERY_UID = "1.2.840.10008.5.1.4.1.1.201.6"


def is_pending(code) -> bool:
    """PS3.7 table C-1: Pending = FF00, FF01."""
    return code == 0xFF00 or code == 0xFF01


def is_warning_class(code) -> bool:
    """PS3.7 table C-1: Warning = 0001, Bxxx, 0107, 0116."""
    return code == 0x0001 or code == 0x0107 or code == 0x0116 or (0xB000 <= code and code <= 0xBFFF)


def is_failure_class(code) -> bool:
    """PS3.7 table C-1: Failure = Axxx, Cxxx, 01xx (except 0107, 0116), 02xx."""
    if (0xA000 <= code and code <= 0xAFFF) or (0xC000 <= code and code <= 0xCFFF):
        return True
    if 0x0100 <= code and code <= 0x02FF:
        return not (code == 0x0107 or code == 0x0116)
    return False


# Pending statuses that each C-FIND style service knows (PS3.4: C.4.1.1.4 FF00+FF01; K.4.1.1.4
# worklist FF00+FF01; Q.4 relevant patient FF00 only; V.4 substance FF00+FF01; CC UPS FF00+FF01)
FIND_PENDING = {
    "qr": (0xFF00, 0xFF01),
    "worklist": (0xFF00, 0xFF01),
    "substance": (0xFF00, 0xFF01),
    "ups": (0xFF00, 0xFF01),
    "relevant_patient": (0xFF00,),
}
# C-GET / C-MOVE: PS3.4 C.4.2.1.5 / C.4.3.1.4: Pending = FF00 only
RETRIEVE_PENDING = (0xFF00,)

# ---------------------------------------------------------------------------------------------
# documented codes
NO_STATUS_ELEMENT = 0xC001     # Dataset without (0000,0900)
INVALID_STATUS_TYPE = 0xC002   # neither int nor Dataset

HANDLER_EXCEPTION = {
    "C-ECHO": 0x0000,
    "C-STORE": 0xC211,
    "C-FIND": 0xC311,
    "C-GET": 0xC411,
    "C-MOVE": 0xC511,
    "N-ACTION": 0x0110,
    "N-CREATE": 0x0110,
    "N-DELETE": 0x0110,
    "N-EVENT-REPORT": 0x0110,
    "N-GET": 0x0110,
    "N-SET": 0x0110,
}
UNENCODABLE = {
    "C-FIND": 0xC312,
    "N-ACTION": 0x0110,
    "N-CREATE": 0x0110,
    "N-EVENT-REPORT": 0x0110,
    "N-GET": 0x0110,
    "N-SET": 0x0110,
}
BAD_SUBOP_COUNT = {"C-GET": 0xC413, "C-MOVE": 0xC513}
TOO_MANY_SUBOPS = {"C-GET": 0xC416, "C-MOVE": 0xC516}
MOVE_NO_DESTINATION_YIELD = 0xC514
MOVE_BAD_DESTINATION = 0xC515
MOVE_UNKNOWN_DESTINATION = 0xA801
# C-GET / C-MOVE final statuses computed by the SCP (PS3.4 C.4.2.1.5, C.4.3.1.4)
RETRIEVE_ALL_FAILED = 0xA702
RETRIEVE_WARNING = 0xB000


# optional status elements each response carries (PS3.7 9.3 / 10.3 command tables, Annex C)
OPTIONAL_STATUS_ELEMENTS = {
    "C-ECHO": ("ErrorComment",),
    "C-STORE": ("ErrorComment", "OffendingElement"),
    "C-FIND": ("ErrorComment", "OffendingElement"),
    "C-GET": ("ErrorComment", "OffendingElement"),
    "C-MOVE": ("ErrorComment", "OffendingElement"),
    "N-ACTION": ("ErrorComment", "ErrorID"),
    "N-CREATE": ("ErrorComment", "ErrorID"),
    "N-DELETE": ("ErrorComment", "ErrorID"),
    "N-EVENT-REPORT": ("ErrorComment", "ErrorID"),
    "N-GET": ("ErrorComment", "ErrorID"),
    "N-SET": ("ErrorComment", "ErrorID"),
}


def status_from_handler(service, kind, value):
    """The status the documentation promises for one handler-supplied status object.

    kind: 'int' | 'ds_status' (Dataset with Status=value) | 'ds_nostatus' | 'other' | 'exception'
    """
    if kind == "exception":
        return HANDLER_EXCEPTION[service]
    if kind == "int" or kind == "ds_status":
        return value
    if service == "C-ECHO":
        return 0x0000
    if kind == "ds_nostatus":
        return NO_STATUS_ELEMENT
    return INVALID_STATUS_TYPE


# ---------------------------------------------------------------------------------------------
# C20: shape of a response sequence
def well_formed_sequence(statuses, repository_query, ended):
    """statuses: list of the Status values sent for ONE request, in order.
    Pending* then exactly one non-Pending; before the final one the only tolerated non-Pending is
    B001 and only for Repository Query; the final one may be missing only when `ended` (the
    handler or the peer aborted / released the association first)."""
    n = len(statuses)
    if n == 0:
        return bool(ended)
    for i in range(n - 1):
        s = statuses[i]
        if is_pending(s):
            continue
        if repository_query and s == RESPONSE_LIMIT_WARNING:
            continue
        return False
    last = statuses[n - 1]
    if is_pending(last) or (repository_query and last == RESPONSE_LIMIT_WARNING):
        # the SCU keeps waiting after these: no final response was sent
        return bool(ended)
    return True


# ---------------------------------------------------------------------------------------------
# C22: counters
def retrieve_final_status(n, failed, warning):
    """PS3.4 C.4.2.1.5 / C.4.3.1.4 and the property text: Success with no failures or warnings,
    the all-failed code when all N failed, Warning otherwise."""
    if failed == 0 and warning == 0:
        return SUCCESS
    if failed == n:
        return RETRIEVE_ALL_FAILED
    return RETRIEVE_WARNING
