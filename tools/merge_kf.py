#!/usr/bin/env python3
"""Merge entries from proposed_fixes/*-known*.json files into known_findings.json (development helper)."""
import json, sys
kf = json.load(open("/verif/known_findings.json"))
ids = {e["id"]: i for i, e in enumerate(kf["findings"])}
for p in sys.argv[1:]:
    for e in json.load(open(p))["findings"]:
        if e["id"] in ids:
            kf["findings"][ids[e["id"]]] = e
        else:
            ids[e["id"]] = len(kf["findings"]); kf["findings"].append(e)
        print("merged", e["id"], e.get("status"))
json.dump(kf, open("/verif/known_findings.json", "w"), indent=1)
