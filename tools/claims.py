"""Per-property claim texts for MANIFEST.json (edit here, then run tools/mkmanifest.py)."""
T = "bounded symbolic execution of the real code, every path decided by an SMT solver (CrossHair + z3); "
NOTES = ("Every check is a set of harness functions over the real pynetdicom functions, executed symbolically by CrossHair; "
         "z3 decides each branch and the assertion. A pass means 'Confirmed over all paths within the stated bounds' per obligation "
         "(see evidence: obligations / discharged / inconclusive); counterexamples are replayed concretely on /repo before a VIOLATION "
         "is printed. Exit 3 = harness error. Known findings: known_findings.json.")
CLAIMS = {
 "C09": {
  "technique": T + "clock readings, timeouts and operation scripts are solver variables",
  "text": "For every operation script of <= 3 (quick) / 5 (thorough) operations from {start, stop, restart, set timeout, read}, every integer timeout (or None) and every pair of monotonic (non-decreasing) and wall-clock (arbitrary) reading sequences, Timer.expired/remaining/timeout equal an elapsed-monotonic-time oracle: 'Confirmed over all paths'. Bounded, not a proof beyond the script length.",
  "note": "Trusted: CrossHair's int/list models, z3. Clocks are integer ticks (float rounding of seconds is outside the claim); pynetdicom.timer.time is replaced by a tick-clock stub.",
 },
}
NOT_APPLICABLE = {
 "C25": "The dataset path is pydicom's codec, zlib and file I/O: CrossHair realises every value at those C boundaries, so the solver would quantify over nothing; the pynetdicom-owned part (fragmentation / reassembly, CommandDataSetType consistency) is decided under C15 and C16.",
}
