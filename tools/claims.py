"""Per-property claim texts for MANIFEST.json (edit here, then run tools/mkmanifest.py)."""
T = "bounded symbolic execution of the real code, every path decided by an SMT solver (CrossHair + z3); "
NOTES = ("Every check is a set of harness functions over the real pynetdicom functions, executed symbolically by CrossHair; "
         "z3 decides each branch and the assertion. A pass means 'Confirmed over all paths within the stated bounds' per obligation "
         "(see evidence: obligations / discharged / inconclusive); counterexamples are replayed concretely on /repo before a VIOLATION "
         "is printed. Exit 3 = harness error. Known findings: known_findings.json.")
CLAIMS = {
 "C09": {
  "technique": T + "clock readings, timeouts and operation scripts are solver variables",
  "text": "For every operation script of <= 3 (quick) / 5 (thorough) operations from {start, stop, restart, set timeout, read}, every integer timeout (or None) and every pair of monotonic (non-decreasing) and wall-clock (arbitrary) reading sequences, Timer.expired/remaining/timeout equal an elapsed-monotonic-time oracle: 'Confirmed over all paths'. Bounded, not a proof beyond the script length.",
  "note": "Trusted: CrossHair's int/list models, z3. Clocks are integer ticks (float rounding of seconds is outside the claim); pynetdicom.timer.time is replaced by a tick-clock stub.",
 },
 "C12": {
  "technique": T + "AE titles (symbolic str), maximum PDU size (symbolic int), context counts / ids, extended-negotiation subsets are solver variables; the bytes sent are judged by an independent PS3.8 structural parser",
  "text": "For every call of AE.associate()/ACSE.send_request/send_accept inside the bounds (AE titles: any str of <= 2 (quick) / 4 (thorough) characters plus lengths 1/16/17; max PDU any int in +-2^40; 0..3 and 1,2,127,128,129 requested contexts through four API routes; every subset of the 5 extended-negotiation items; A-ASSOCIATE-AC for 1..2(3) proposed contexts with any distinct odd ids) the API either raises or the encoded A-ASSOCIATE-RQ/AC satisfies the structural rules of the statement as checked by spec/ps38_struct.py: 'Confirmed over all paths' for every obligation. Known finding C12-nonconformant-uid (UID legality with ENFORCE_UID_CONFORMANCE=False) is excluded by precondition and reported.",
  "note": "Trusted: CrossHair models, z3, spec/ps38_struct.py (own transcription of PS3.8 9.3.2/9.3.3 and PS3.5 AE/UI rules). Stubs: socket creation, Association.request, FakeDUL, getaddrinfo table, unicodedata ASCII stand-in, pydicom UIDs from a pool of 9 (pydicom realises strings). Outside: UIDs outside the pool, bytes titles, >2 items of a kind, malformed peer RQ for the AC part.",
 },
 "C13": {
  "technique": T + "the 16-byte AE title fields of the received A-ASSOCIATE-RQ are symbolic bytes, policy settings and identity-handler outcomes are enumerated by the solver's search tree",
  "text": "The peer's A-ASSOCIATE-RQ is decoded by the real PDU code and the real acceptor branch of Association.run_reactor / ACSE._negotiate_as_acceptor / _check_user_identity runs in the harness thread. For every calling/called title with 2 (quick) / 3 (thorough) arbitrary leading bytes, six required-calling lists, called-title check on/off, 7 identity-handler outcomes x identity types, and the association limit, the association is established iff all enabled checks pass, otherwise exactly one A-ASSOCIATE-RJ with the documented (result, source, reason) is sent and no DIMSE handler runs: 'Confirmed over all paths'.",
  "note": "Trusted: CrossHair models, z3, the oracle in harness/C13.py (own space-only strip, documented reject codes). Stubs: FakeDUL, scripted DIMSE with one C-ECHO, threading.enumerate list, time.sleep no-op, unicodedata ASCII stand-in. Outside: titles with more symbolic bytes than the bound, other identity payloads, threads of other AEs.",
 },
}
NOT_APPLICABLE = {
 "C25": "The dataset path is pydicom's codec, zlib and file I/O: CrossHair realises every value at those C boundaries, so the solver would quantify over nothing; the pynetdicom-owned part (fragmentation / reassembly, CommandDataSetType consistency) is decided under C15 and C16.",
}
