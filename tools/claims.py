"""Per-property claim texts for MANIFEST.json (edit here, then run tools/mkmanifest.py)."""
T = "bounded symbolic execution of the real code, every path decided by an SMT solver (CrossHair + z3); "
NOTES = ("Every check is a set of harness functions over the real pynetdicom functions, executed symbolically by CrossHair; "
         "z3 decides each branch and the assertion. A pass means 'Confirmed over all paths within the stated bounds' per obligation "
         "(see evidence: obligations / discharged / inconclusive); counterexamples are replayed concretely on /repo before a VIOLATION "
         "is printed. Exit 3 = harness error. Known findings: known_findings.json.")
CLAIMS = {
 "C09": {
  "technique": T + "clock readings, timeouts and operation scripts are solver variables",
  "text": "For every operation script of <= 3 (quick) / 5 (thorough) operations from {start, stop, restart, set timeout, read}, every integer timeout (or None) and every pair of monotonic (non-decreasing) and wall-clock (arbitrary) reading sequences, Timer.expired/remaining/timeout equal an elapsed-monotonic-time oracle: 'Confirmed over all paths'. Bounded, not a proof beyond the script length.",
  "note": "Trusted: CrossHair's int/list models, z3. Clocks are integer ticks (float rounding of seconds is outside the claim); pynetdicom.timer.time is replaced by a tick-clock stub.",
 },
 "C12": {
  "technique": T + "AE titles (symbolic str), maximum PDU size (symbolic int), context counts / ids, extended-negotiation subsets are solver variables; the bytes sent are judged by an independent PS3.8 structural parser",
  "text": "For every call of AE.associate()/ACSE.send_request/send_accept inside the bounds (AE titles: any str of <= 2 (quick) / 4 (thorough) characters plus lengths 1/16/17; max PDU any int in +-2^40; 0..3 and 1,2,127,128,129 requested contexts through four API routes; every subset of the 5 extended-negotiation items; A-ASSOCIATE-AC for 1..2(3) proposed contexts with any distinct odd ids) the API either raises or the encoded A-ASSOCIATE-RQ/AC satisfies the structural rules of the statement as checked by spec/ps38_struct.py: 'Confirmed over all paths' for every obligation. Known finding C12-nonconformant-uid (UID legality with ENFORCE_UID_CONFORMANCE=False) is excluded by precondition and reported.",
  "note": "Trusted: CrossHair models, z3, spec/ps38_struct.py (own transcription of PS3.8 9.3.2/9.3.3 and PS3.5 AE/UI rules). Stubs: socket creation, Association.request, FakeDUL, getaddrinfo table, unicodedata ASCII stand-in, pydicom UIDs from a pool of 9 (pydicom realises strings). Outside: UIDs outside the pool, bytes titles, >2 items of a kind, malformed peer RQ for the AC part.",
 },
 "C13": {
  "technique": T + "the 16-byte AE title fields of the received A-ASSOCIATE-RQ are symbolic bytes, policy settings and identity-handler outcomes are enumerated by the solver's search tree",
  "text": "The peer's A-ASSOCIATE-RQ is decoded by the real PDU code and the real acceptor branch of Association.run_reactor / ACSE._negotiate_as_acceptor / _check_user_identity runs in the harness thread. For every calling/called title with 2 (quick) / 3 (thorough) arbitrary leading bytes, six required-calling lists, called-title check on/off, 7 identity-handler outcomes x identity types, and the association limit, the association is established iff all enabled checks pass, otherwise exactly one A-ASSOCIATE-RJ with the documented (result, source, reason) is sent and no DIMSE handler runs: 'Confirmed over all paths'.",
  "note": "Trusted: CrossHair models, z3, the oracle in harness/C13.py (own space-only strip, documented reject codes). Stubs: FakeDUL, scripted DIMSE with one C-ECHO, threading.enumerate list, time.sleep no-op, unicodedata ASCII stand-in. Outside: titles with more symbolic bytes than the bound, other identity payloads, threads of other AEs.",
 },
 "C10": {
  "technique": T + "role flags and acceptor settings are solver-symbolic booleans, context ids solver-symbolic ints, abstract/transfer syntaxes indices into small pools enumerated by the search tree; oracle = row-by-row transcription of the documented role table plus PS3.7 D.3.3.4 as a formula",
  "text": "Real negotiate_as_acceptor / negotiate_unrestricted / ACSE._negotiate_as_acceptor+send_accept: for every role proposal x acceptor role setting (72 cases), every non-empty proposed/supported subset of 3 transfer syntaxes in both orders (392 cases), 0..3 proposed contexts with any distinct odd ids and repeated abstract syntaxes, and the unrestricted-storage mode over a pool of 5 SOP classes, the result list has exactly one result per proposed id with the proposed abstract syntax, result/reason and transfer syntax follow PS3.8, roles follow the documented table and the D.3.3.4 formula: 'Confirmed over all paths' per obligation. Four listed known findings in unrestricted mode (pinned by existing tests) are excluded by precondition and reported.",
  "note": "Trusted: CrossHair, z3, spec/ps37_roles.py (own transcription of docs/user/presentation_role_selection.rst and PS3.7 D.3.3.4 / PS3.8 result codes). Outside: more than 3 proposed contexts (so not the 128 limit), pools larger than 3/5 UIDs, duplicate context ids, result order.",
 },
 "C11": {
  "technique": T + "two real Associations joined by a loopback that runs the real A-ASSOCIATE-RQ/AC encode/decode; role proposals and acceptor role settings are solver variables",
  "text": "Real ACSE._negotiate_as_requestor/send_request/negotiate_as_requestor on one side and run_reactor/_negotiate_as_acceptor/send_accept/negotiate_as_acceptor on the other, with the real RQ/AC codec in between: for <= 2 requested and <= 2 supported contexts, every encodable role proposal and acceptor setting in {None,True,False}^2, normal and unrestricted mode, every requested id appears exactly once on the requestor side, accepted ids / abstract / transfer syntaxes agree and rq.as_scu == ac.as_scp, rq.as_scp == ac.as_scu: 'Confirmed over all paths'. One listed known finding (unrestricted default roles) excluded and reported.",
  "note": "Trusted: CrossHair, z3, vlib/stubs/loopback.py (no protocol logic; FSM/TCP not in the loop - they are C03-C05). Outside: more than 2 contexts per side, (0,0) role proposals (the encoder raises, documented).",
 },
 "C14": {
  "technique": T + "inductive step: the pre-state (which live acceptor threads have passed the limit check) is a symbolic List[bool], the limit a symbolic int; one real _negotiate_as_acceptor step is executed and the invariant asserted",
  "text": "Inductive-step claim: from any pre-state with x <= 3 (quick) / 6 (thorough) other live acceptor associations (any subset past the limit check), r requestor threads, o threads of another AE and any limit in [-2, N+2] set through the real setter, running the real ACSE._negotiate_as_acceptor limit branch with AE.active_associations keeps 'threads past the check <= maximum_associations', and a request over the limit gets exactly one reject (2,3,2): 'Confirmed over all paths'.",
  "note": "Assumption: a thread is in threading.enumerate() from start() until run() returns and the check runs on the thread it counts (threading.enumerate is stubbed by a list). The real thread scheduler is outside the claim; the schedule quantifier is discharged by induction, not explored.",
 },
 "C15": {
  "technique": T + "command-set / data-set lengths up to 2^40 and maximum lengths 0, 7..2^32-1 are solver-symbolic integers over exact integer stand-ins (Num/Frac/Seg, case-split ceil); a second harness uses symbolic byte contents; the float ceil step is a separate z3 (and cvc5) lemma",
  "text": "Real DIMSEMessage.encode_msg (absent / in-memory / file-backed data set), _generate_pdv_fragments, P_DATA_TF.from_primitive/pdu_length, decode_msg and DIMSEServiceProvider.send_msg/maximum_pdu_size: for every c in [1,2^40], n in [0,2^40], m in {0} U [7,2^32-1] with <= 4 (quick) / 8 (thorough) fragments per part, every P-DATA-TF carries one PDV whose length <= m, fragments are contiguous, non-empty, ordered command-before-data with only the last of each part marked, and decode_msg reassembles exactly the input ranges and completes exactly at the last fragment; with real symbolic bytes (<= 4/5 per part, m in {0,7..12}) under every regrouping into PDUs the reassembled bytes equal the input: 'Confirmed over all paths'. Lemma L-ceil (Python ceil(a/b) on floats equals the integer ceiling for a <= 2^40, b < 2^32) is discharged by z3 (quick) and z3+cvc5 (thorough).",
  "note": "Trusted: CrossHair, z3, vlib/stubs/num.py (exact integer/rational stand-ins; dimse_messages.len/ceil/open/encode/decode patched), the IEEE-754 relative-error model used by the lemma. Outside: more than K fragments per part, STORE_RECV_CHUNKED_DATASET receive mode, peer maxima 1..6.",
 },
 "C16": {
  "technique": T + "data-set buffers are symbolic bytes (0..2/4 bytes), message type / API method / dataset kind enumerated by the search tree; two real Associations joined by a loopback through the real P-DATA-TF codec",
  "text": "For all 23 DIMSE messages with absent / any 0..2 (quick) 0..4 (thorough) byte / file-backed data-set parameter, for the 12 public send_* methods with None / empty Dataset / one-element Dataset, and for the C-FIND, N-GET, N-SET, N-CREATE, N-ACTION, N-EVENT-REPORT SCP responses with empty / one-element datasets: the command set announces a data set (as read by the independent parser in spec/ps37_dimse.py) iff at least one data-set PDV was sent, and the peer's real receive_primitive completes exactly one message: 'Confirmed over all paths'.",
  "note": "Trusted: CrossHair, z3, vlib/stubs/wire16.py loopback (no FSM/TCP), spec/ps37_dimse.py. Outside: timing, C-GET/C-MOVE/C-STORE SCP responses, handlers that raise.",
 },
 "C17": {
  "technique": T + "presence of every optional parameter is a solver-symbolic boolean; values come from boundary pools because pydicom's writer realises values",
  "text": "primitive -> primitive_to_message -> encode_msg (max 70) -> decode_msg -> message_to_primitive for all 23 message types: starting from all-present / all-absent with one parameter flipped at a time (quick) and every subset of parameters up to 2^9 (thorough), values from pools of 3 boundary values: the wire command set has the PS3.7 Table E.1-1 command field, correct group length, only keywords PS3.7 gives that message, and the round trip preserves type, direction, every present parameter (absent stays absent), data-set bytes and context id: 'Confirmed over all paths'. Value space reduced to pools (stated).",
  "note": "Trusted: CrossHair, z3, spec/ps37_dimse.py (own transcription of PS3.7 E.1-1 and the 9.1/9.3/10.1/10.3 parameter tables), pydicom's command-set codec. Outside: values outside the pools, empty data-set buffers (C16), out-of-range values the setters accept.",
 },
}
NOT_APPLICABLE = {
 "C25": "The dataset path is pydicom's codec, zlib and file I/O: CrossHair realises every value at those C boundaries, so the solver would quantify over nothing; the pynetdicom-owned part (fragmentation / reassembly, CommandDataSetType consistency) is decided under C15 and C16.",
}
