#!/usr/bin/env python3
"""Lemma L-ceil (DESIGN.md section 4.5): for integers 0 <= a <= 2^40 and 1 <= b <= 2^32-1, Python's
`math.ceil(a / b)` (IEEE-754 binary64 division, round-to-nearest-even, then ceiling) equals the exact
ceiling of the rational a/b.  It justifies replacing `ceil(len(x) / (m - 6))` by the exact case-split
ceiling in the C15 harnesses (vlib/stubs/num.py).

The lemma is posed directly to the SMT solvers (engine 2 of the design; no property is decided by it
alone).  Two encodings:

* `nra` (decided, used by ./check C15): non-linear real arithmetic with the standard model of a correctly
  rounded division of two exactly representable operands in the normal range - the computed quotient q
  satisfies |q - a/b| <= (a/b) * 2^-53 and is exact when a/b is an integer (IEEE 754-2019, 4.3.1; a and b
  are exactly representable because both are below 2^53) - plus the two consequences of integrality of
  a, b, k that are needed (k*b - a >= 1 unless equal; a - (k-1)*b >= 1 unless a = 0).  Negated claim:
  NOT (k-1 < q <= k).  Expected: unsat.  Non-vacuity: the same query with the bound on a raised to 2^62
  must be sat (there the relative error can reach an integer boundary).
* `bvfp` (reference only, `--bvfp`): the bit-precise QF_BVFP formulation (to_fp, fp.div RNE,
  fp.roundToIntegral RTP, 80-bit products).  Measured in this sandbox: z3 5.1.0 `unknown` after 120 s, cvc5
  1.0.3 no answer after 280 s.  It is never part of a verdict.

Solvers: the z3 Python API if importable, else the `z3` binary; the cvc5 Python API if importable, else the
`cvc5` binary, else another interpreter that has the wheels (`python3-vt`).  A solver that is not available
is reported as `unavailable`, never as a failure.

usage: lceil_lemma.py [--solvers z3,cvc5] [--timeout S] [--json] [--bvfp]
exit 0: every available solver answered as expected   1: a solver contradicted the lemma
     2: no solver available / no definite answer
"""
import json
import os
import shutil
import subprocess
import sys
import tempfile
import time

A_MAX = 2 ** 40
B_MAX = 2 ** 32 - 1
A_VACUITY = 2 ** 62


def smt2_nra(a_max):
    """SMT-LIB 2 text of the decomposed lemma (negated claim asserted: unsat = lemma holds)."""
    u = 2 ** 53
    return f"""(set-logic QF_NRA)
(declare-const a Real)
(declare-const b Real)
(declare-const k Real)
(declare-const q Real)
; ranges (a, b, k stand for integers; only the consequences of integrality stated below are used)
(assert (and (>= a 0.0) (<= a {a_max}.0) (>= b 1.0) (<= b {B_MAX}.0) (>= k 0.0)))
; k is the exact ceiling of a/b
(assert (and (< (* (- k 1.0) b) a) (<= a (* k b))))
; integrality of a, b, k
(assert (or (= a (* k b)) (>= (- (* k b) a) 1.0)))
(assert (or (= a 0.0) (>= (- a (* (- k 1.0) b)) 1.0)))
; q = RNE(a / b): relative error at most 2^-53, exact quotients are not rounded
(assert (<= (* q b {u}.0) (* a {u + 1}.0)))
(assert (>= (* q b {u}.0) (* a {u - 1}.0)))
(assert (=> (= a (* k b)) (= q k)))
; negated claim: ceil(q) = k, i.e. k-1 < q <= k (k = 0: q = 0)
(assert (not (and (<= q k) (or (> q (- k 1.0)) (and (= k 0.0) (= q 0.0))))))
(check-sat)
"""


def smt2_bvfp():
    return f"""(set-logic QF_BVFP)
(declare-const a (_ BitVec 64))
(declare-const b (_ BitVec 64))
(define-fun q () (_ FloatingPoint 11 53) (fp.div RNE ((_ to_fp 11 53) RNE a) ((_ to_fp 11 53) RNE b)))
(define-fun ci () (_ BitVec 64) ((_ fp.to_sbv 64) RTP (fp.roundToIntegral RTP q)))
(define-fun ax () (_ BitVec 80) ((_ zero_extend 16) a))
(define-fun bx () (_ BitVec 80) ((_ zero_extend 16) b))
(define-fun kx () (_ BitVec 80) ((_ zero_extend 16) ci))
(assert (bvule a (_ bv{A_MAX} 64)))
(assert (and (bvuge b (_ bv1 64)) (bvule b (_ bv{B_MAX} 64))))
(assert (not (and (or (= kx (_ bv0 80)) (bvult (bvmul (bvsub kx (_ bv1 80)) bx) ax))
                  (bvule ax (bvmul kx bx))
                  (or (not (= kx (_ bv0 80))) (= ax (_ bv0 80))))))
(check-sat)
"""


def _z3_api(text, timeout_s):
    import z3

    s = z3.Solver()
    s.set("timeout", int(timeout_s * 1000))
    s.from_string(text.replace("(check-sat)", ""))
    t = time.time()
    r = str(s.check())
    return r, time.time() - t, "z3 " + z3.get_version_string() + " (python api)"


def _cvc5_api(text, timeout_s):
    import cvc5

    slv = cvc5.Solver()
    slv.setOption("tlimit-per", str(int(timeout_s * 1000)))
    parser = cvc5.InputParser(slv)
    parser.setStringInput(cvc5.InputLanguage.SMT_LIB_2_6, text, "lceil")
    sm = parser.getSymbolManager()
    t = time.time()
    out = "unknown"
    while True:
        cmd = parser.nextCommand()
        if cmd.isNull():
            break
        res = cmd.invoke(slv, sm)
        res = str(res).strip()
        if res in ("sat", "unsat", "unknown"):
            out = res
    return out, time.time() - t, "cvc5 " + getattr(cvc5, "__version__", "?") + " (python api)"


def _binary(exe, args, text, timeout_s, label):
    with tempfile.NamedTemporaryFile("w", suffix=".smt2", delete=False) as f:
        f.write(text)
        path = f.name
    t = time.time()
    try:
        p = subprocess.run([exe] + args + [path], capture_output=True, text=True, timeout=timeout_s + 5)
        words = [w for w in p.stdout.split() if w in ("sat", "unsat", "unknown")]
        out = words[0] if words else "unknown"
    except subprocess.TimeoutExpired:
        out = "timeout"
    finally:
        os.unlink(path)
    return out, time.time() - t, label


def _version(exe):
    try:
        o = subprocess.run([exe, "--version"], capture_output=True, text=True, timeout=10).stdout
        return " ".join(o.split("\n")[0].split()[:5])
    except Exception:
        return exe


def solve(solver, text, timeout_s):
    """-> (answer, seconds, how) with answer in sat/unsat/unknown/timeout/unavailable"""
    if solver == "z3":
        try:
            return _z3_api(text, timeout_s)
        except ImportError:
            pass
        exe = shutil.which("z3")
        if exe:
            return _binary(exe, ["-smt2", "-T:%d" % int(timeout_s)], text, timeout_s, _version(exe) + " (binary)")
        return "unavailable", 0.0, "z3 not found"
    if solver == "cvc5":
        try:
            return _cvc5_api(text, timeout_s)
        except ImportError:
            pass
        except Exception as e:  # API differences between cvc5 releases: fall back to the binary
            sys.stderr.write("cvc5 python api failed (%r), trying the binary\n" % (e,))
        exe = shutil.which("cvc5")
        if exe:
            return _binary(exe, ["--lang=smt2", "--tlimit=%d" % int(timeout_s * 1000)], text, timeout_s,
                           _version(exe) + " (binary)")
        return "unavailable", 0.0, "cvc5 not found"
    raise ValueError(solver)


def run(solvers=("z3",), timeout_s=60.0, bvfp=False):
    """Run the lemma.  Result dict: per solver the answers to the lemma query (expected unsat) and to the
    non-vacuity query (expected sat); `holds` = every *available* solver gave both expected answers and at
    least one solver was available; `contradicted` = some solver answered sat on the lemma query."""
    res = {"lemma": "ceil(a / b) == exact ceiling for 0 <= a <= 2^40, 1 <= b <= 2^32-1 (binary64, RNE)",
           "encoding": "QF_NRA, relative-error model of RNE division (IEEE 754 4.3.1), integrality consequences",
           "solvers": {}}
    for s in solvers:
        a1, t1, how = solve(s, smt2_nra(A_MAX), timeout_s)
        entry = {"how": how, "lemma_query": a1, "lemma_s": round(t1, 3)}
        if a1 != "unavailable":
            a2, t2, _ = solve(s, smt2_nra(A_VACUITY), timeout_s)
            entry.update(nonvacuity_query_a_le_2_62=a2, nonvacuity_s=round(t2, 3))
            entry["as_expected"] = (a1 == "unsat" and a2 == "sat")
        if bvfp and a1 != "unavailable":
            a3, t3, _ = solve(s, smt2_bvfp(), timeout_s)
            entry.update(bvfp_reference=a3, bvfp_s=round(t3, 1))
        res["solvers"][s] = entry
    avail = [e for e in res["solvers"].values() if e["lemma_query"] != "unavailable"]
    res["available"] = len(avail)
    res["contradicted"] = any(e["lemma_query"] == "sat" for e in avail)
    res["holds"] = bool(avail) and all(e.get("as_expected") for e in avail)
    return res


def run_elsewhere(solvers, timeout_s, interpreters=("python3-vt",)):
    """Run this file under another interpreter that has the solver wheels; None if there is none."""
    for name in interpreters:
        exe = shutil.which(name)
        if not exe:
            continue
        try:
            p = subprocess.run([exe, os.path.abspath(__file__), "--solvers", ",".join(solvers), "--timeout",
                                str(timeout_s), "--json"], capture_output=True, text=True, timeout=4 * timeout_s + 60)
            r = json.loads(p.stdout.strip().splitlines()[-1])
            r["interpreter"] = exe
            return r
        except Exception as e:
            sys.stderr.write("lceil_lemma: %s failed: %r\n" % (name, e))
    return None


def summary(res):
    parts = []
    for s, e in res["solvers"].items():
        if e["lemma_query"] == "unavailable":
            parts.append("%s unavailable" % s)
        else:
            parts.append("%s: lemma %s in %.2fs, non-vacuity(a<=2^62) %s [%s]" % (
                s, e["lemma_query"], e["lemma_s"], e.get("nonvacuity_query_a_le_2_62"), e["how"]))
    return "L-ceil lemma: " + ("HOLDS" if res["holds"] else ("CONTRADICTED" if res["contradicted"] else "NOT ESTABLISHED")) \
        + " | " + "; ".join(parts)


def main(argv):
    solvers, timeout_s, as_json, bvfp = ["z3", "cvc5"], 60.0, False, False
    i = 0
    while i < len(argv):
        if argv[i] == "--solvers":
            solvers = [x for x in argv[i + 1].split(",") if x]
            i += 1
        elif argv[i] == "--timeout":
            timeout_s = float(argv[i + 1])
            i += 1
        elif argv[i] == "--json":
            as_json = True
        elif argv[i] == "--bvfp":
            bvfp = True
        else:
            print(__doc__)
            return 2
        i += 1
    res = run(solvers, timeout_s, bvfp)
    if as_json:
        print(json.dumps(res))
    else:
        print(json.dumps(res, indent=1))
        print(summary(res))
    if res["contradicted"]:
        return 1
    return 0 if res["holds"] else 2


if __name__ == "__main__":
    sys.exit(main(sys.argv[1:]))
