#!/usr/bin/env python3
"""Run the registered checks against the seeded changes kept under /verif/seeded/<id>/.

For every seeded change: make a scratch worktree of /repo outside /repo and /verif, apply patch.diff,
(optionally) run the demonstration with and without the patch, run `./check <property>` with
VERIF_REPO pointing at the patched worktree, expect exit 1 + a VIOLATION line, remove the worktree.

usage: tools/run_seeded.py [--only ID ...] [--tier quick|thorough] [--demo] [--jobs N] [--checks C01,C02 (extra properties to run)]
Results: seeded/RESULTS.json (what caught what), printed table.
"""
import argparse
import concurrent.futures as cf
import json
import os
import shutil
import subprocess
import sys
import time

VERIF = os.path.dirname(os.path.dirname(os.path.abspath(__file__)))
SCRATCH = "/var/tmp/verif-seed"


def sh(cmd, cwd=None, env=None, timeout=3600):
    p = subprocess.run(cmd, shell=True, cwd=cwd, env=env, capture_output=True, text=True, timeout=timeout)
    return p.returncode, (p.stdout + p.stderr)


def one(sid, tier, demo, jobs, extra):
    d = os.path.join(VERIF, "seeded", sid)
    meta = json.load(open(os.path.join(d, "meta.json")))
    prop = meta["property"]
    wt = f"{SCRATCH}-{sid}"
    sh(f"git -C /repo worktree remove --force {wt}")
    shutil.rmtree(wt, ignore_errors=True)
    rc, out = sh(f"git -C /repo worktree add --detach {wt} HEAD")
    res = {"id": sid, "property": prop}
    try:
        if rc:
            res["error"] = "worktree: " + out[-300:]
            return res
        demo_file = next((f for f in ("demo.py", "test_demo.py") if os.path.exists(os.path.join(d, f))), None)
        if demo and demo_file:
            runner = "isopytest -q" if demo_file.startswith("test_") else "isopy"
            rc0, o0 = sh(f"timeout 600 {runner} {os.path.join(d, demo_file)}", cwd=wt)
            res["demo_without_patch_rc"] = rc0
        rc, out = sh(f"git apply {os.path.join(d, 'patch.diff')}", cwd=wt)
        if rc:
            res["error"] = "patch does not apply: " + out[-300:]
            return res
        if demo and demo_file:
            rc1, o1 = sh(f"timeout 600 {runner} {os.path.join(d, demo_file)}", cwd=wt)
            res["demo_with_patch_rc"] = rc1
        env = dict(os.environ, VERIF_REPO=wt, VERIF_JOBS=str(jobs), VERIF_EVIDENCE_DIR=wt + "/.verif-evidence",
                   VERIF_REPLAY_DIR=wt + "/.verif-replays")
        res["checks"] = {}
        for p in [prop] + [e for e in extra if e != prop]:
            t = time.time()
            # evidence / replays of seeded runs go to the scratch worktree, never to /verif/evidence
            rc, out = sh(f"./check {p} --tier {tier}", cwd=VERIF, env=env, timeout=7200)
            viol = [l for l in out.splitlines() if l.startswith("VIOLATION")]
            cex = [l for l in out.splitlines() if l.startswith("counterexample:")]
            res["checks"][p] = {"exit": rc, "violations": len(viol), "first": (cex[0][:400] if cex else ""),
                                "wall_s": round(time.time() - t, 1),
                                "summary": next((l for l in out.splitlines() if l.startswith(p + " [")), "")}
        res["caught"] = any(c["exit"] == 1 and c["violations"] > 0 for c in res["checks"].values())
        return res
    finally:
        sh(f"git -C /repo worktree remove --force {wt}")
        shutil.rmtree(wt, ignore_errors=True)


def main():
    ap = argparse.ArgumentParser()
    ap.add_argument("--only", nargs="*")
    ap.add_argument("--tier", default="quick")
    ap.add_argument("--demo", action="store_true")
    ap.add_argument("--jobs", type=int, default=8)
    ap.add_argument("--parallel", type=int, default=2)
    ap.add_argument("--checks", default="")
    a = ap.parse_args()
    ids = sorted(x for x in os.listdir(os.path.join(VERIF, "seeded")) if os.path.exists(os.path.join(VERIF, "seeded", x, "meta.json")))
    if a.only:
        ids = [i for i in ids if i in a.only or any(i.startswith(o) for o in a.only)]
    extra = [c for c in a.checks.split(",") if c]
    results = []
    with cf.ThreadPoolExecutor(max_workers=a.parallel) as ex:
        for r in ex.map(lambda s: one(s, a.tier, a.demo, a.jobs, extra), ids):
            results.append(r)
            print(json.dumps(r), flush=True)
    path = os.path.join(VERIF, "seeded", "RESULTS.json")
    old = {}
    if os.path.exists(path):
        old = {r["id"]: r for r in json.load(open(path))["results"]}
    for r in results:
        r["tier"] = a.tier
        old[r["id"]] = r
    json.dump({"results": [old[k] for k in sorted(old)]}, open(path, "w"), indent=1)
    print("caught %d / %d" % (sum(1 for r in results if r.get("caught")), len(results)))


if __name__ == "__main__":
    main()
