#!/usr/bin/env python3
"""Regenerate MANIFEST.json from tools/claims.py (single source for check texts) and validate it."""
import json, os, sys, subprocess
here = os.path.dirname(os.path.abspath(__file__))
sys.path.insert(0, here)
import claims

ALL = ["C%02d" % i for i in range(1, 31)]
checks = []
for pid in ALL:
    c = claims.CLAIMS.get(pid)
    if not c:
        continue
    checks.append({
        "property_id": pid,
        "quick_cmd": f"./check {pid} --tier quick",
        "thorough_cmd": f"./check {pid} --tier thorough",
        "evidence_file": f"evidence/{pid}.json",
        "replay_cmd_template": f"./check {pid} --replay {{path}}",
        "engine": "crosshair-z3",
        "technique": c["technique"],
        "level_claimed": {"category": "other", "text": c["text"], "design_ref": "DESIGN.md section 5, " + pid},
        "level_note": c["note"],
    })
na = [{"property_id": pid, "reason": claims.NOT_APPLICABLE.get(pid, "check not built yet (work in progress); not claimed")}
      for pid in ALL if pid not in claims.CLAIMS]
m = {
    "version": 1,
    "setup_cmd": "./setup.sh",
    "hooks": {
        "guard": "PYNETDICOM_VERIF",
        "enable": "no hook is needed: harnesses import /repo's working tree directly and substitute stub objects at existing call sites (guard name reserved, unused)",
        "baseline_off_cmd": "cd /repo && /venv/bin/python -m pytest -ra -q -p no:cacheprovider --timeout=900 --continue-on-collection-errors",
        "source_commits": [],
        "add_only": True,
    },
    "engines": [{
        "name": "crosshair-z3", "path": "vlib/", "serves_properties": [c["property_id"] for c in checks],
        "kind_free_text": "bounded symbolic execution of the real Python functions (CrossHair 0.0.110); branch feasibility and postconditions decided by z3 5.1.0; counterexamples replayed concretely on /repo before being reported",
    }],
    "checks": checks,
    "not_applicable": na,
    "notes": claims.NOTES,
}
json.dump(m, open(os.path.join(here, "..", "MANIFEST.json"), "w"), indent=1)
r = subprocess.run(["python3-vt", "-c", "import json,jsonschema; jsonschema.validate(json.load(open('%s/../MANIFEST.json')), json.load(open('/root/.vp/MANIFEST.schema.json'))); print('MANIFEST valid:', %d, 'checks,', %d, 'not applicable')" % (here, len(checks), len(na))])
sys.exit(r.returncode)
