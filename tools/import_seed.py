#!/usr/bin/env python3
"""Confirm a seeded change produced by an independent agent and keep it under /verif/seeded/<id>/.

usage: tools/import_seed.py /tmp/seed-out/<dir> [--full]   (--full: run the whole test-suite with the patch)
Confirms, in a scratch worktree outside /repo and /verif:
  1. patch.diff applies to /repo HEAD and the package still imports,
  2. the demonstration passes without the patch and fails with it,
  3. the test files named by the agent (or, with --full, the whole suite) pass with the patch.
Writes seeded/<id>/{patch.diff, demo.py|test_demo.py, meta.json (agent's meta + "confirmed": what was run here)}.
"""
import json
import os
import shutil
import subprocess
import sys
import time

VERIF = os.path.dirname(os.path.dirname(os.path.abspath(__file__)))


def sh(cmd, cwd=None, timeout=3600):
    p = subprocess.run(cmd, shell=True, cwd=cwd, capture_output=True, text=True, timeout=timeout)
    return p.returncode, (p.stdout + p.stderr)


def main():
    src = sys.argv[1].rstrip("/")
    full = "--full" in sys.argv
    notests = "--no-tests" in sys.argv
    sid = os.path.basename(src)
    meta = json.load(open(os.path.join(src, "meta.json")))
    demo = next((f for f in ("demo.py", "test_demo.py") if os.path.exists(os.path.join(src, f))), None)
    if demo is None:
        print("no demo"); return 2
    wt = f"/var/tmp/verif-import-{sid}"
    sh(f"git -C /repo worktree remove --force {wt}"); shutil.rmtree(wt, ignore_errors=True)
    rc, out = sh(f"git -C /repo worktree add --detach {wt} HEAD")
    conf = {"repo_head": sh("git -C /repo rev-parse --short HEAD")[1].strip(), "when": time.strftime("%Y-%m-%d %H:%M")}
    ok = True
    try:
        runner = "isopytest -q" if demo.startswith("test_") else "isopy"
        demo_path = os.path.join(src, demo)
        rc0, o0 = sh(f"timeout 900 {runner} {demo_path}", cwd=wt)
        conf["demo_without_patch"] = {"cmd": f"cd <checkout> && {runner} {demo}", "exit": rc0, "tail": o0[-300:]}
        rc, out = sh(f"git apply {os.path.join(src, 'patch.diff')}", cwd=wt)
        if rc:
            print("patch does not apply:", out); return 2
        rc, out = sh("/venv/bin/python -c 'import pynetdicom, pynetdicom.apps.common; print(pynetdicom.__file__)'", cwd=wt)
        conf["imports"] = (rc == 0 and wt in out)
        rc1, o1 = sh(f"timeout 900 {runner} {demo_path}", cwd=wt)
        conf["demo_with_patch"] = {"exit": rc1, "tail": o1[-300:]}
        ok = ok and rc0 == 0 and rc1 != 0 and conf["imports"]
        files = sh("git diff --name-only", cwd=wt)[1].split()
        conf["files_touched"] = files
        if full:
            tcmd = "isopytest -q -x --timeout=900 pynetdicom"
        else:
            tests = set()
            for f in files:
                base = os.path.basename(f)[:-3]
                for cand in (f"pynetdicom/tests/test_{base}.py", f"pynetdicom/apps/tests/test_{base}.py"):
                    if os.path.exists(os.path.join(wt, cand)):
                        tests.add(cand)
            extra = {"service_class": ["pynetdicom/tests/test_service_qr.py", "pynetdicom/tests/test_service_storage.py", "pynetdicom/tests/test_service_verification.py"],
                     "dimse_messages": ["pynetdicom/tests/test_dimse_c.py", "pynetdicom/tests/test_dimse_n.py", "pynetdicom/tests/test_dimse_provider.py"],
                     "association": ["pynetdicom/tests/test_assoc.py"], "pdu_items": ["pynetdicom/tests/test_pdu_items.py"],
                     "dimse": ["pynetdicom/tests/test_dimse_provider.py"], "db": ["pynetdicom/apps/tests/test_qrscp_db.py", "pynetdicom/apps/tests/test_qrscp_find.py"],
                     "handlers": ["pynetdicom/apps/tests/test_qrscp_store.py", "pynetdicom/apps/tests/test_qrscp_db.py", "pynetdicom/apps/tests/test_qrscp_find.py"], "dimse_primitives": ["pynetdicom/tests/test_primitives.py", "pynetdicom/tests/test_dimse_c.py", "pynetdicom/tests/test_dimse_n.py"],
                     "_validators": ["pynetdicom/tests/test_validators.py", "pynetdicom/tests/test_utils.py", "pynetdicom/tests/test_primitives.py", "pynetdicom/tests/test_pdu.py"], "common": ["pynetdicom/apps/tests/test_common.py", "pynetdicom/apps/tests/test_storescp.py"]}
            for f in files:
                for t in extra.get(os.path.basename(f)[:-3], []):
                    if os.path.exists(os.path.join(wt, t)):
                        tests.add(t)
            # two test_ae tests need a route to 8.8.8.8 and fail in the private namespace on the unmodified tree too;
            # the subprocess-based app tests cannot reach their servers inside the namespace: run those files outside it
            desel = ("--deselect pynetdicom/tests/test_ae.py::TestAEGoodAssociation::test_association_timeouts "
                     "--deselect pynetdicom/tests/test_ae.py::TestAEGoodAssociation::test_connection_timeout ")
            core = sorted(t for t in tests if "/apps/" not in t)
            apps = sorted(t for t in tests if "/apps/" in t)
            parts = []
            if core:
                parts.append("isopytest -q -x --timeout=900 " + desel + " ".join(core))
            if apps:
                parts.append("/venv/bin/python -m pytest -p no:cacheprovider -q -x --timeout=900 " + " ".join(apps))
            tcmd = " && ".join(parts) if parts else None
        if notests:
            tcmd = None
        if tcmd:
            # "the existing tests still pass" = no test fails with the patch that passes without it (some test files
            # contain tests that fail on the unmodified tree in this sandbox; they are not in BASELINE.stable_pass)
            import hashlib, re
            tcmd = tcmd.replace(" -x ", " ")

            def failed(out):
                return sorted(set(re.findall(r"^(?:FAILED|ERROR) (\S+)", out, re.M)))

            key = hashlib.sha1((conf["repo_head"] + tcmd).encode()).hexdigest()[:12]
            cache = f"/var/tmp/verif-seed-baseline-{key}.json"
            if os.path.exists(cache):
                base = json.load(open(cache))
            else:
                sh("git apply -R " + os.path.join(src, "patch.diff"), cwd=wt)   # unmodified tree
                rcb, ob = sh("timeout 3400 " + tcmd + " -rfE", cwd=wt, timeout=3500)
                base = failed(ob)
                json.dump(base, open(cache, "w"))
                sh("git apply " + os.path.join(src, "patch.diff"), cwd=wt)
            t = time.time()
            rct, ot = sh("timeout 3400 " + tcmd + " -rfE", cwd=wt, timeout=3500)
            new_fail = [f for f in failed(ot) if f not in base]
            if new_fail:
                # sleep-based tests flake under load: re-run the new failures once, alone
                prefix = ("isopytest -q --timeout=900" if tcmd.startswith("isopytest")
                          else "/venv/bin/python -m pytest -p no:cacheprovider -q --timeout=900")
                rcr, orr = sh("timeout 1800 " + prefix + " " + " ".join(new_fail) + " -rfE", cwd=wt, timeout=1900)
                new_fail = [f for f in failed(orr)]
            conf["tests_with_patch"] = {"cmd": tcmd, "failing_on_unmodified_tree_too": len(base), "new_failures": new_fail,
                                        "tail": ot.strip().splitlines()[-1:], "wall_s": round(time.time() - t)}
            ok = ok and not new_fail
        conf["confirmed"] = bool(ok)
    finally:
        sh(f"git -C /repo worktree remove --force {wt}"); shutil.rmtree(wt, ignore_errors=True)
    print(json.dumps(conf, indent=1))
    if not ok:
        dst = os.path.join(VERIF, "seeded", sid)
        if os.path.realpath(src) == os.path.realpath(dst):
            # re-confirmation of a kept change on a later tree: record that it no longer demonstrates a violation
            meta["reconfirmed_here"] = conf
            meta["status"] = "not reproducing on this tree (neutralised by a later fix: commit, or flaky) - see reconfirmed_here"
            json.dump(meta, open(os.path.join(dst, "meta.json"), "w"), indent=1)
        print("NOT confirmed; not imported"); return 1
    dst = os.path.join(VERIF, "seeded", sid)
    os.makedirs(dst, exist_ok=True)
    if os.path.realpath(src) != os.path.realpath(dst):
        shutil.copy(os.path.join(src, "patch.diff"), dst)
        shutil.copy(os.path.join(src, demo), dst)
    meta["confirmed_here"] = conf
    meta.pop("status", None)
    meta.setdefault("property", sid.split("-")[0])
    json.dump(meta, open(os.path.join(dst, "meta.json"), "w"), indent=1)
    print("imported", dst)
    return 0


if __name__ == "__main__":
    sys.exit(main())
