#!/usr/bin/env python3
"""tools/add_fixed.py <id> <property> <commit> <harness> <what failed>  - record a repaired defect (suppresses nothing)."""
import json, sys
i, prop, commit, harness, what = sys.argv[1:6]
kf = json.load(open("/verif/known_findings.json"))
kf["findings"] = [e for e in kf["findings"] if e["id"] != i]
kf["findings"].append({"id": i, "property": prop, "status": "fixed", "commit": commit, "harness": harness,
                       "line": f"fixed: property={prop} {commit} {what}", "what": what})
json.dump(kf, open("/verif/known_findings.json", "w"), indent=1)
print("recorded", i)
