#!/usr/bin/env python3
"""False-alarm corpus: behaviour-preserving refactorings of pynetdicom kept under /verif/benign/<id>/patch.diff.

For every patch: scratch worktree of /repo, apply, run the quick check of every property whose evidence shows
that it executes functions of a touched module; every check must exit 0 (no VIOLATION, no harness error).
usage: tools/run_benign.py [--only ID ...] [--import DIR ...] [--jobs N] [--parallel N]
Results: benign/RESULTS.json
"""
import argparse
import concurrent.futures as cf
import glob
import json
import os
import shutil
import subprocess
import time

VERIF = os.path.dirname(os.path.dirname(os.path.abspath(__file__)))


def sh(cmd, cwd=None, env=None, timeout=7200):
    p = subprocess.run(cmd, shell=True, cwd=cwd, env=env, capture_output=True, text=True, timeout=timeout)
    return p.returncode, (p.stdout + p.stderr)


def props_for(files, functions=()):
    """properties whose (committed) evidence lists executed functions of one of the touched modules - narrowed to the
    touched functions (by name) when the patch's meta.json names them and at least one property executes one"""
    wanted = set()
    for f in functions or ():
        for part in str(f).replace("(", " ").replace(")", " ").replace(",", " ").split():
            wanted.add(part.split(".")[-1].split(":")[-1])
    mods = set()
    for f in files:
        if f.startswith("pynetdicom/") and f.endswith(".py"):
            mods.add(f[len("pynetdicom/"):-3].replace("/", "."))
    out = []
    for ev in sorted(glob.glob(os.path.join(VERIF, "evidence", "C??.json"))):
        d = json.load(open(ev))
        fns = set()
        for h in d["coverage"].get("harnesses", []):
            fns.update(h.get("functions_executed_in_replay", []))
            fns.update(h.get("functions_declared", []))
        hit = [fn for fn in fns if fn.split(":")[0] in mods]
        if hit:
            out.append((d["property_id"], any(fn.split(":")[-1].split(".")[-1] in wanted for fn in hit)))
    narrow = [p for p, exact in out if exact]
    return narrow if narrow else [p for p, _ in out]


def one(bid, jobs):
    d = os.path.join(VERIF, "benign", bid)
    wt = f"/var/tmp/verif-benign-{bid}"
    sh(f"git -C /repo worktree remove --force {wt}")
    shutil.rmtree(wt, ignore_errors=True)
    rc, out = sh(f"git -C /repo worktree add --detach {wt} HEAD")
    res = {"id": bid}
    try:
        rc, out = sh(f"git apply {os.path.join(d, 'patch.diff')}", cwd=wt)
        if rc:
            res["error"] = "patch does not apply: " + out[-200:]
            return res
        files = sh("git diff --name-only", cwd=wt)[1].split()
        res["files"] = files
        rc, out = sh("/venv/bin/python -c 'import pynetdicom, pynetdicom.apps.common, pynetdicom.apps.qrscp.db'", cwd=wt)
        if rc:
            res["error"] = "does not import: " + out[-300:]
            return res
        env = dict(os.environ, VERIF_REPO=wt, VERIF_JOBS=str(jobs), VERIF_EVIDENCE_DIR=wt + "/.verif-evidence",
                   VERIF_REPLAY_DIR=wt + "/.verif-replays")
        res["checks"] = {}
        meta = {}
        if os.path.exists(os.path.join(d, "meta.json")):
            meta = json.load(open(os.path.join(d, "meta.json")))
        for p in (meta.get("checks") or props_for(files, meta.get("functions", []))):
            t = time.time()
            rc, out = sh(f"./check {p} --tier quick", cwd=VERIF, env=env)
            lines = [l for l in out.splitlines() if l.startswith(("VIOLATION", "HARNESS-ERROR", "counterexample:"))]
            res["checks"][p] = {"exit": rc, "wall_s": round(time.time() - t, 1), "alarms": [l[:300] for l in lines[:4]]}
        res["clean"] = all(c["exit"] == 0 for c in res["checks"].values())
        return res
    finally:
        sh(f"git -C /repo worktree remove --force {wt}")
        shutil.rmtree(wt, ignore_errors=True)


def main():
    ap = argparse.ArgumentParser()
    ap.add_argument("--only", nargs="*")
    ap.add_argument("--import", dest="imp", nargs="*")
    ap.add_argument("--jobs", type=int, default=8)
    ap.add_argument("--parallel", type=int, default=2)
    a = ap.parse_args()
    os.makedirs(os.path.join(VERIF, "benign"), exist_ok=True)
    for src in a.imp or []:
        src = src.rstrip("/")
        dst = os.path.join(VERIF, "benign", os.path.basename(src))
        os.makedirs(dst, exist_ok=True)
        for f in ("patch.diff", "meta.json"):
            if os.path.exists(os.path.join(src, f)):
                shutil.copy(os.path.join(src, f), dst)
    ids = sorted(x for x in os.listdir(os.path.join(VERIF, "benign")) if os.path.exists(os.path.join(VERIF, "benign", x, "patch.diff")))
    if a.only:
        ids = [i for i in ids if any(i.startswith(o) for o in a.only)]
    results = []
    with cf.ThreadPoolExecutor(max_workers=a.parallel) as ex:
        for r in ex.map(lambda s: one(s, a.jobs), ids):
            results.append(r)
            print(json.dumps(r), flush=True)
    path = os.path.join(VERIF, "benign", "RESULTS.json")
    old = {}
    if os.path.exists(path):
        old = {r["id"]: r for r in json.load(open(path))["results"]}
    for r in results:
        old[r["id"]] = r
    json.dump({"results": [old[k] for k in sorted(old)]}, open(path, "w"), indent=1)
    print("clean %d / %d" % (sum(1 for r in results if r.get("clean")), len(results)))


if __name__ == "__main__":
    main()
