#!/bin/bash
# development helper: thorough tier of every property, each under a wall-clock cap, evidence to a scratch directory
cd "$(dirname "$0")/.."
CAP=${CAP:-2700}
mkdir -p /tmp/runall /tmp/thorough-evidence
for p in ${@:-C04 C14 C19 C28 C08 C09 C07 C16 C11 C22 C15 C30 C23 C24 C18 C03 C02 C13 C12 C10 C05 C27 C26 C06 C20 C21 C29 C17 C01}; do
  s=$(date +%s)
  VERIF_EVIDENCE_DIR=/tmp/thorough-evidence timeout $CAP ./check $p --tier thorough > /tmp/runall/$p.thorough.log 2>&1
  rc=$?
  echo "$p rc=$rc $(( $(date +%s) - s ))s $(grep "^$p \[" /tmp/runall/$p.thorough.log | cut -c1-170)"
done
