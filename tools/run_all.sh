#!/bin/bash
# Run every registered check (quick by default) sequentially, as `vp check` does; summary to stdout.
cd "$(dirname "$0")/.."
TIER=${1:-quick}
mkdir -p /tmp/runall
for p in $(python3 -c "import json; print(' '.join(c['property_id'] for c in json.load(open('MANIFEST.json'))['checks']))"); do
  s=$(date +%s)
  ./check $p --tier $TIER > /tmp/runall/$p.$TIER.log 2>&1
  rc=$?
  echo "$p rc=$rc $(( $(date +%s) - s ))s $(grep "^$p \[" /tmp/runall/$p.$TIER.log | cut -c1-160)"
done
