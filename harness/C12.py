"""C12 - association requests and responses pynetdicom sends are structurally conformant.

Real code: AE.associate (argument checks, context validation, id assignment), AE.add_requested_context /
requested_contexts setter / ae_title setter, ServiceUser setters and user_information, ACSE.send_request,
ACSE._negotiate_as_acceptor + send_accept, the A-ASSOCIATE-RQ/-AC encoders (pdu.py, pdu_items.py),
utils.set_ae / set_uid, _validators.validate_ae / validate_ui.
Oracle: /verif/spec/ps38_struct.py - an independent parser of the bytes plus the rules of the statement.

Every harness does what the DUL does with the primitive handed to `send_pdu`
(`A_ASSOCIATE_RQ(primitive).encode()`, fsm.AE_2 / AE_7) and judges the BYTES.  The API either refuses
the configuration (ValueError / TypeError / RuntimeError - documented) or the bytes must be conformant.
An exception while the primitive is encoded means nothing reaches the wire (not a C12 violation).
"""
import logging
import warnings
from typing import List

from vlib.shim import *  # noqa: F401,F403
from vlib.h import harness, tier, shard
from vlib import kf
from vlib.stubs.acse13 import (AsciiUnicodedata, FakeDUL, FakeSock, FakeSocketModule, FixedDatetime)

import pynetdicom._validators as _validators
import pynetdicom.ae as ae_mod
import pynetdicom.transport as tr_mod
from pynetdicom import AE, build_context
from pynetdicom._globals import MODE_ACCEPTOR
from pynetdicom.association import Association
from pynetdicom.pdu import A_ASSOCIATE_AC, A_ASSOCIATE_RQ
from pynetdicom.pdu_primitives import (
    A_ASSOCIATE,
    AsynchronousOperationsWindowNegotiation,
    MaximumLengthNotification,
    SCP_SCU_RoleSelectionNegotiation,
    SOPClassCommonExtendedNegotiation,
    SOPClassExtendedNegotiation,
    UserIdentityNegotiation,
)
from pynetdicom.presentation import PresentationContext

from spec import ps38_struct as S

silence_loggers()
warnings.simplefilter("ignore")   # pydicom warns once per call site: keeps paths deterministic
logging.disable(logging.CRITICAL)  # pydicom's own logger (LogRecord reads the symbolic time.time())
# exact stand-in (see vlib/stubs/acse13.py): keeps a symbolic character symbolic in validate_ae
_validators.unicodedata = AsciiUnicodedata()

API_ERRORS = (ValueError, TypeError, RuntimeError)

VERIF_UID = "1.2.840.10008.1.1"
CT_UID = "1.2.840.10008.5.1.4.1.1.2"
LONG64 = "1.2.840.10008." + "1234567890." * 4 + "123456"          # 64 characters, legal
LONG65 = LONG64 + "7"                                             # 65 characters
assert len(LONG64) == 64
IMPLICIT = "1.2.840.10008.1.2"
EXPLICIT = "1.2.840.10008.1.2.1"
BIG = "1.2.840.10008.1.2.2"
TS_POOL = [IMPLICIT, EXPLICIT, BIG]
# index 0-2 legal, 3-6 illegal for VR UI but shorter than 65 characters, 7 too long, 8 empty
UID_POOL = [VERIF_UID, CT_UID, LONG64, "1.02.3", "1.2.abc", "1..2", "1.2.", LONG65, ""]

NSYM = tier(2, 4)          # symbolic characters of an AE title
NSMALL = tier(2, 3)        # small symbolic context counts


class Env:
    """Nothing is bound, resolved or started: `_create_socket` returns a FakeSock, `Association.request`
    only calls the real `ACSE.send_request`, the association's DUL is a FakeDUL that records the
    primitive, `Association(...)` itself is built untraced (concrete arguments only)."""

    def __enter__(self):
        self.saved = (AE._create_socket, Association.request, tr_mod.socket, ae_mod.datetime, ae_mod.Association)
        AE._create_socket = lambda self_, assoc, address, tls_args: FakeSock()

        def fake_request(self_):
            self_.acse.send_request()

        Association.request = fake_request
        tr_mod.socket = FakeSocketModule()
        ae_mod.datetime = FixedDatetime

        def factory(ae, mode):
            with untraced():
                a = Association(ae, mode)
                a.dul = FakeDUL()
            return a

        ae_mod.Association = factory
        return self

    def __exit__(self, *a):
        (AE._create_socket, Association.request, tr_mod.socket, ae_mod.datetime, ae_mod.Association) = self.saved
        return False


def _judge_rq(assoc) -> bool:
    sent = assoc.dul.sent
    if len(sent) != 1:
        return False
    try:
        b = A_ASSOCIATE_RQ(sent[0]).encode()
    except UnicodeError:
        return False  # a non-ASCII text (e.g. the shim's formatted-number sentinel) reached the encoder
    except Exception:
        return True  # the DUL cannot encode it: nothing reaches the wire
    # no separate sentinel search: the sentinel is non-ASCII, every text field is checked to be legal ASCII
    return not S.check_rq(b)


# ---------------------------------------------------------------------------------------------
# end-to-end reproducer (no stub): the real AE.associate() over a loopback socket in a private network
# namespace (`isopy`) against a raw TCP listener that records the first PDU; judged by the same oracle
# ---------------------------------------------------------------------------------------------
_E2E_SCRIPT = r"""
import json, socket, sys, threading
cfg = json.loads(sys.argv[1])
from pynetdicom import AE, build_context
from pynetdicom.presentation import PresentationContext
from pynetdicom.pdu_primitives import SCP_SCU_RoleSelectionNegotiation, SOPClassExtendedNegotiation
srv = socket.socket(); srv.bind(("127.0.0.1", 0)); srv.listen(1)
port = srv.getsockname()[1]
got = []
def serve():
    c, _ = srv.accept()
    c.settimeout(5)
    buf = b""
    try:
        while len(buf) < 6 or len(buf) < 6 + int.from_bytes(buf[2:6], "big"):
            d = c.recv(65536)
            if not d:
                break
            buf += d
    except Exception:
        pass
    got.append(buf)
    c.close()
t = threading.Thread(target=serve, daemon=True); t.start()
out = {"raised": None, "hex": None}
try:
    ae = AE()
    ae.acse_timeout = 2
    ae.network_timeout = 2
    route = cfg["route"]
    cxs = None
    if route == 0:
        for ab, ts in cfg["specs"]:
            ae.add_requested_context(ab, ts)
    elif route == 1:
        cxs = [build_context(ab, ts) for ab, ts in cfg["specs"]]
    else:
        cxs = []
        for ab, ts in cfg["specs"]:
            cx = PresentationContext(); cx.abstract_syntax = ab; cx.transfer_syntax = ts; cxs.append(cx)
        if route == 2:
            ae.requested_contexts = cxs; cxs = None
    ext = []
    if cfg.get("role_uid") is not None:
        it = SCP_SCU_RoleSelectionNegotiation(); it.sop_class_uid = cfg["role_uid"]; it.scu_role = True; it.scp_role = True; ext.append(it)
    if cfg.get("sopext_uid") is not None:
        it = SOPClassExtendedNegotiation(); it.sop_class_uid = cfg["sopext_uid"]; it.service_class_application_information = b"\x01\x02"; ext.append(it)
    if cfg.get("impl_uid") is not None:
        ae.implementation_class_uid = cfg["impl_uid"]
    assoc = ae.associate("127.0.0.1", port, contexts=cxs, ext_neg=ext)
    t.join(8)
    if assoc.is_established:
        assoc.abort()
except (ValueError, TypeError, RuntimeError) as exc:
    out["raised"] = repr(exc)
t.join(1)
if got:
    out["hex"] = got[0].hex()
print("@@E2E@@" + json.dumps(out))
"""


def _e2e_run(cfg):
    import json
    import os
    import shutil
    import subprocess
    import sys
    import vlib

    from vlib.e2e import runner as _runner; runner = _runner()
    env = dict(os.environ, PYTHONPATH=vlib.REPO)
    p = subprocess.run(runner + ["-c", _E2E_SCRIPT, json.dumps(cfg)], capture_output=True, text=True, timeout=120, env=env)
    i = p.stdout.rfind("@@E2E@@")
    if i < 0:
        return False, "reproducer gave no result: " + (p.stderr or p.stdout)[-400:]
    out = json.loads(p.stdout[i + 7:].strip().splitlines()[0])
    if out["raised"] and not out["hex"]:
        return False, "the API refused the configuration: " + out["raised"]
    if not out["hex"]:
        return False, "nothing was sent"
    errs = S.check_rq(bytes.fromhex(out["hex"]))
    return bool(errs), "A-ASSOCIATE-RQ captured from the socket (%d bytes): %s" % (len(out["hex"]) // 2, errs or "conformant")


def _e2e_count(args, sh):
    n = sh.get("n", 2)
    ab_other = VERIF_UID if args["repeat"] else CT_UID
    specs = [(VERIF_UID if i % 2 == 0 else ab_other, TS_POOL[:1]) for i in range(n - 1)]
    specs.append((VERIF_UID if (n - 1) % 2 == 0 else ab_other, TS_POOL[:args["nts_last"]]))
    return _e2e_run({"route": args["route"], "specs": specs})


def _e2e_small(args, sh):
    specs = [(VERIF_UID if a else CT_UID, TS_POOL[:k]) for a, k in zip(args["ab"], args["nts"])]
    return _e2e_run({"route": args["route"], "specs": specs})


def _e2e_uid(args, sh):
    uid, where = UID_POOL[args["uid_idx"]], args["where"]
    cfg = {"route": 0, "specs": [(VERIF_UID, TS_POOL[:1])]}
    if where == 0:
        cfg["specs"] = [(uid, TS_POOL[:1])]
    elif where == 1:
        cfg["specs"] = [(VERIF_UID, [uid])]
    elif where == 2:
        cfg["role_uid"] = uid
    elif where == 3:
        cfg["impl_uid"] = uid
    else:
        cfg["sopext_uid"] = uid
    return _e2e_run(cfg)


# ---------------------------------------------------------------------------------------------
# 1. AE titles
# ---------------------------------------------------------------------------------------------
def _title_shards():
    return [{"which": w, "mode": m} for w in ("calling", "called") for m in ("sym", 1, 16, 17)]


def _title_len_ok(t):
    m = shard("mode", "sym")
    if m == "sym":
        return len(t) <= NSYM
    return len(t) == min(m, 2)


@harness(
    "C12", timeout=(150, 900), shards=_title_shards,
    functions=["ae:ApplicationEntity.ae_title", "ae:ApplicationEntity.associate", "association:ServiceUser.ae_title",
               "acse:ACSE.send_request", "utils:set_ae", "_validators:validate_ae", "pdu:A_ASSOCIATE_RQ.from_primitive",
               "pdu:PDU.encode"],
    bounds="the local (AE.ae_title) or the peer (associate(ae_title=)) title is ANY str: shard 'sym' = any str of length "
           "<= %d (every code point); shards 1/16/17 = total length 1, 16, 17 with the first min(L,2) characters any "
           "code point and the rest 'A'; the other title, one Verification context and all other parameters default" % NSYM,
    stubs=["AE._create_socket -> FakeSock; Association.request -> only ACSE.send_request; Association.dul -> FakeDUL (records the primitive)",
           "pynetdicom.transport.socket.getaddrinfo answered from a fixed table; pynetdicom.ae.datetime fixed",
           "Association(...) constructed untraced",
           "pynetdicom._validators.unicodedata -> exact ASCII interval stand-in (category(c)[0] compared by intervals)",
           "primitive -> bytes by A_ASSOCIATE_RQ(primitive).encode() as in fsm.AE_2"],
    outside="titles longer than 17 characters; more than %d arbitrary characters per title; bytes titles (deprecated API)" % NSYM,
)
def rq_ae_title(t: str) -> bool:
    """
    pre: _title_len_ok(t)
    post: _ == True
    """
    which = shard("which", "calling")
    m = shard("mode", "sym")
    title = t if m == "sym" else t + "A" * (m - min(m, 2))
    with Env():
        with untraced():
            ae = AE()
            ae.add_requested_context(VERIF_UID)
        try:
            if which == "calling":
                ae.ae_title = title
                assoc = ae.associate("127.0.0.1", 11112, ae_title="PEER")
            else:
                assoc = ae.associate("127.0.0.1", 11112, ae_title=title)
        except API_ERRORS:
            return True
        return _judge_rq(assoc)


# ---------------------------------------------------------------------------------------------
# 2. maximum PDU size, implementation version name
# ---------------------------------------------------------------------------------------------
@harness(
    "C12", timeout=(60, 300),
    functions=["ae:ApplicationEntity.associate", "association:ServiceUser.maximum_length",
               "pdu_primitives:MaximumLengthNotification.maximum_length_received", "acse:ACSE.send_request",
               "pdu_items:MaximumLengthSubItem.from_primitive", "pdu:PDU.encode"],
    bounds="associate(max_pdu=) any int in [-2**40, 2**40]; implementation version name absent / 1 char / 16 chars / "
           "17 chars / empty; one Verification context",
    stubs=["as rq_ae_title"],
    outside="non-int max_pdu",
)
def rq_max_pdu(max_pdu: int, ver: int) -> bool:
    """
    pre: -2**40 <= max_pdu <= 2**40
    pre: 0 <= ver <= 4
    post: _ == True
    """
    with Env():
        with untraced():
            ae = AE()
            ae.add_requested_context(VERIF_UID)
        try:
            if ver == 1:
                ae.implementation_version_name = "V"
            elif ver == 2:
                ae.implementation_version_name = "V" * 16
            elif ver == 3:
                ae.implementation_version_name = "V" * 17
            elif ver == 4:
                ae.implementation_version_name = ""
            else:
                ae.implementation_version_name = None
            assoc = ae.associate("127.0.0.1", 11112, max_pdu=max_pdu)
        except API_ERRORS:
            return True
        return _judge_rq(assoc)


# ---------------------------------------------------------------------------------------------
# 3. number of contexts, ids, abstract / transfer syntax multiplicity
# ---------------------------------------------------------------------------------------------
def _cx(ab, ts):
    cx = PresentationContext()
    cx.abstract_syntax = ab
    cx.transfer_syntax = ts
    return cx


def _make_contexts(ae, route, head, last=None):
    """head/last: (abstract uid, [transfer syntaxes]) specs.  route 0: AE.add_requested_context one by
    one; 1: associate(contexts=[...]) from build_context; 2: AE.requested_contexts = [...] setter;
    3: associate(contexts=[...]) from hand-made PresentationContext objects.  The `head` specs are
    concrete; when there are many of them they are processed untraced (same calls, same arguments)."""
    tail = [last] if last is not None else []

    def build(kind, specs):
        if kind == 0:
            for ab, ts in specs:
                ae.add_requested_context(ab, ts)
            return []
        if kind == 1:
            return [build_context(ab, ts) for ab, ts in specs]
        return [_cx(ab, ts) for ab, ts in specs]

    kind = 0 if route == 0 else (1 if route == 1 else 2)   # decided under tracing, concrete afterwards
    if len(head) > 4:
        with untraced():
            cxs = build(kind, head)
    else:
        cxs = build(kind, head)
    cxs = cxs + build(kind, tail)
    if route == 0:
        return None
    if route == 2:
        ae.requested_contexts = cxs
        return None
    return cxs


def _big_shards():
    return [{"n": n} for n in (1, 2, 127, 128, 129)]


def _nts_ok(nts_last):
    # the transfer syntax multiplicity is explored at n <= 2 (and in rq_context_small); the large
    # shards are about the count / id boundary and cost ~10 s per path
    if shard("n", 2) > 2:
        return nts_last == 1
    return 0 <= nts_last <= 2


@harness(
    "C12", timeout=(240, 900), shards=_big_shards, e2e=_e2e_count, findings=["C12-empty-context-count"],
    functions=["ae:ApplicationEntity.add_requested_context", "ae:ApplicationEntity.requested_contexts",
               "ae:ApplicationEntity._validate_requested_contexts", "ae:ApplicationEntity.associate",
               "presentation:build_context", "presentation:PresentationContext.context_id", "acse:ACSE.send_request",
               "pdu_items:PresentationContextItemRQ.from_primitive", "pdu:PDU.encode"],
    bounds="n requested contexts, n = shard in {1, 2, 127, 128, 129}; 4 API routes (add_requested_context, "
           "associate(contexts=build_context..), requested_contexts setter, associate(contexts=hand-made)); abstract "
           "syntaxes all equal or alternating between two SOP classes; for n <= 2 the LAST context has 0, 1 or 2 transfer "
           "syntaxes, otherwise every context has one",
    stubs=["as rq_ae_title", "for n > 2 the first n-1 contexts (concrete) are added / built untraced, the n-th and "
           "everything from associate() on is traced"],
    outside="other context counts (see rq_context_small for 0..%d with every context symbolic)" % NSMALL,
)
def rq_context_count(route: int, repeat: bool, nts_last: int) -> bool:
    """
    pre: 0 <= route <= 3
    pre: _nts_ok(nts_last)
    pre: not kf.skip("C12-empty-context-count", nts_last=nts_last)
    post: _ == True
    """
    n = shard("n", 2)
    with Env():
        with untraced():
            ae = AE()
        ab_other = VERIF_UID if repeat else CT_UID
        head = [(VERIF_UID if i % 2 == 0 else ab_other, TS_POOL[:1]) for i in range(n - 1)]
        last = (VERIF_UID if (n - 1) % 2 == 0 else ab_other, TS_POOL[:nts_last])
        try:
            cxs = _make_contexts(ae, route, head, last)
            assoc = ae.associate("127.0.0.1", 11112, contexts=cxs)
        except API_ERRORS:
            return True
        return _judge_rq(assoc)


@harness(
    "C12", timeout=(170, 900), e2e=_e2e_small, findings=["C12-empty-context-small"],
    functions=["ae:ApplicationEntity.add_requested_context", "ae:ApplicationEntity.requested_contexts",
               "ae:ApplicationEntity._validate_requested_contexts", "ae:ApplicationEntity.associate",
               "presentation:build_context", "acse:ACSE.send_request", "pdu_items:PresentationContextItemRQ.from_primitive"],
    bounds="0..%d requested contexts (solver-enumerated), each with an abstract syntax out of two SOP classes "
           "(repeats allowed) and 0..2 transfer syntaxes; 4 API routes" % NSMALL,
    stubs=["as rq_ae_title"],
    outside="more than %d contexts with per-context freedom" % NSMALL,
)
def rq_context_small(route: int, ab: List[bool], nts: List[int]) -> bool:
    """
    pre: 0 <= route <= 3
    pre: len(ab) <= NSMALL and len(nts) == len(ab)
    pre: all(0 <= k <= 2 for k in nts)
    pre: not kf.skip("C12-empty-context-small", nts=nts)
    post: _ == True
    """
    with Env():
        with untraced():
            ae = AE()
        specs = []
        for i in range(len(ab)):
            specs.append((VERIF_UID if ab[i] else CT_UID, TS_POOL[:nts[i]]))
        try:
            cxs = _make_contexts(ae, route, specs)
            assoc = ae.associate("127.0.0.1", 11112, contexts=cxs)
        except API_ERRORS:
            return True
        return _judge_rq(assoc)


@harness(
    "C12", timeout=(120, 600),
    functions=["ae:ApplicationEntity.associate", "ae:ApplicationEntity.requested_contexts",
               "presentation:PresentationContext.context_id", "acse:ACSE.send_request",
               "pdu_items:PresentationContextItemRQ.from_primitive"],
    bounds="1..3 requested contexts handed to associate(contexts=...) or the requested_contexts setter that already "
           "carry a context id (each: none, or any odd id 1..255, solver-symbolic) - e.g. contexts reused from an "
           "earlier association",
    stubs=["as rq_ae_title"],
    outside="more than 3 contexts with pre-assigned ids",
)
def rq_preassigned_ids(route: bool, has_id: List[bool], ids: List[int]) -> bool:
    """
    pre: 1 <= len(has_id) <= 3 and len(ids) == len(has_id)
    pre: all(1 <= i <= 255 for i in ids)
    post: _ == True
    """
    with Env():
        with untraced():
            ae = AE()
            cxs = [_cx(VERIF_UID if k % 2 == 0 else CT_UID, TS_POOL[:1]) for k in range(len(has_id))]
        try:
            for k in range(len(has_id)):
                if has_id[k]:
                    cxs[k].context_id = ids[k]      # the real setter (rejects even / out of range ids)
            if route:
                ae.requested_contexts = cxs
                assoc = ae.associate("127.0.0.1", 11112)
            else:
                assoc = ae.associate("127.0.0.1", 11112, contexts=cxs)
        except API_ERRORS:
            return True
        return _judge_rq(assoc)


# ---------------------------------------------------------------------------------------------
# 4. UID legality
# ---------------------------------------------------------------------------------------------
@harness(
    "C12", timeout=(120, 600), findings=["C12-nonconformant-uid", "C12-empty-abstract-syntax"], e2e=_e2e_uid,
    functions=["ae:ApplicationEntity.add_requested_context", "ae:ApplicationEntity.implementation_class_uid",
               "presentation:PresentationContext.abstract_syntax", "presentation:PresentationContext.add_transfer_syntax",
               "utils:set_uid", "_validators:validate_ui", "pdu_items:AbstractSyntaxSubItem.abstract_syntax_name",
               "pdu_items:TransferSyntaxSubItem.transfer_syntax_name"],
    bounds="one UID out of a pool of 9 (two registered SOP classes, a legal 64 character UID, leading zero, letters, "
           "empty component, trailing dot, 65 characters, empty) used as: abstract syntax / transfer syntax / SOP class UID "
           "of a role selection item / implementation class UID / SOP class UID of a SOP class extended negotiation item",
    stubs=["as rq_ae_title", "UIDs are solver-enumerated from the pool (pydicom.uid.UID realises strings)"],
    outside="UIDs outside the pool",
)
def rq_uid_legality(uid_idx: int, where: int) -> bool:
    """
    pre: 0 <= uid_idx <= 8
    pre: 0 <= where <= 4
    pre: not kf.skip("C12-nonconformant-uid", uid_idx=uid_idx, where=where)
    pre: not kf.skip("C12-empty-abstract-syntax", uid_idx=uid_idx, where=where)
    post: _ == True
    """
    uid = UID_POOL[uid_idx]
    with Env():
        with untraced():
            ae = AE()
        try:
            ext = []
            if where == 0:
                ae.add_requested_context(uid)
            elif where == 1:
                ae.add_requested_context(VERIF_UID, [uid])
            elif where == 2:
                ae.add_requested_context(VERIF_UID)
                item = SCP_SCU_RoleSelectionNegotiation()
                item.sop_class_uid = uid
                item.scu_role = True
                item.scp_role = True
                ext.append(item)
            elif where == 3:
                ae.add_requested_context(VERIF_UID)
                ae.implementation_class_uid = uid
            else:
                ae.add_requested_context(VERIF_UID)
                item = SOPClassExtendedNegotiation()
                item.sop_class_uid = uid
                item.service_class_application_information = b"\x01\x02"
                ext.append(item)
            assoc = ae.associate("127.0.0.1", 11112, ext_neg=ext)
        except API_ERRORS:
            return True
        return _judge_rq(assoc)


# ---------------------------------------------------------------------------------------------
# 5. extended negotiation item combinations
# ---------------------------------------------------------------------------------------------
def _ext_items(role, asyn, ident, sopext, common, extra_maxlen, dup, inv, perf, id_type, pos_rsp):
    items = []
    if role:
        it = SCP_SCU_RoleSelectionNegotiation()
        it.sop_class_uid = VERIF_UID
        it.scu_role = True
        it.scp_role = pos_rsp
        items.append(it)
    if asyn:
        it = AsynchronousOperationsWindowNegotiation()
        it.maximum_number_operations_invoked = inv
        it.maximum_number_operations_performed = perf
        items.append(it)
        if dup:
            it2 = AsynchronousOperationsWindowNegotiation()
            it2.maximum_number_operations_invoked = perf
            it2.maximum_number_operations_performed = inv
            items.append(it2)
    if ident:
        it = UserIdentityNegotiation()
        it.user_identity_type = id_type
        it.primary_field = b"user"
        if id_type == 2:
            it.secondary_field = b"pw"
        it.positive_response_requested = pos_rsp
        items.append(it)
    if sopext:
        it = SOPClassExtendedNegotiation()
        it.sop_class_uid = CT_UID
        it.service_class_application_information = b"\x00\x01"
        items.append(it)
        if dup:
            it2 = SOPClassExtendedNegotiation()
            it2.sop_class_uid = VERIF_UID
            it2.service_class_application_information = b""
            items.append(it2)
    if common:
        it = SOPClassCommonExtendedNegotiation()
        it.sop_class_uid = CT_UID
        it.service_class_uid = "1.2.840.10008.4.2"
        it.related_general_sop_class_identification = [LONG64] if dup else []
        items.append(it)
    if extra_maxlen:
        it = MaximumLengthNotification()
        it.maximum_length_received = inv
        items.append(it)
    return items


@harness(
    "C12", timeout=(170, 900),
    functions=["ae:ApplicationEntity.associate", "association:ServiceUser.add_negotiation_item",
               "association:ServiceUser.user_information", "association:ServiceUser.extended_negotiation",
               "acse:ACSE.send_request", "pdu_items:UserInformationItem.from_primitive", "pdu:PDU.encode"],
    bounds="every subset of {role selection, asynchronous operations window, user identity, SOP class extended, "
           "SOP class common extended} passed as associate(ext_neg=); optionally a second item of the repeatable kinds "
           "(dup); optionally a stray MaximumLengthNotification in ext_neg; fixed item payloads; one Verification context",
    stubs=["as rq_ae_title"],
    outside="more than two items of a kind; payload values (see rq_ext_neg_values)",
)
def rq_ext_neg_subsets(role: bool, asyn: bool, ident: bool, sopext: bool, common: bool, extra_maxlen: bool,
                       dup: bool) -> bool:
    """
    post: _ == True
    """
    with Env():
        with untraced():
            ae = AE()
            ae.add_requested_context(VERIF_UID)
        try:
            items = _ext_items(role, asyn, ident, sopext, common, extra_maxlen, dup, 3, 4, 2, True)
            assoc = ae.associate("127.0.0.1", 11112, ext_neg=items)
        except API_ERRORS:
            return True
        return _judge_rq(assoc)


@harness(
    "C12", timeout=(120, 600),
    functions=["ae:ApplicationEntity.associate", "association:ServiceUser.add_negotiation_item",
               "pdu_primitives:AsynchronousOperationsWindowNegotiation.maximum_number_operations_invoked",
               "pdu_primitives:UserIdentityNegotiation.user_identity_type", "pdu_primitives:UserIdentityNegotiation.from_primitive",
               "pdu_items:UserInformationItem.from_primitive", "pdu:PDU.encode"],
    bounds="all five extended negotiation items present; asynchronous window values any ints in [-1, 65536]; user "
           "identity type any int in [0, 6]; positive response requested / role flags any bool",
    stubs=["as rq_ae_title"],
    outside="other payloads of the items",
)
def rq_ext_neg_values(inv: int, perf: int, id_type: int, pos_rsp: bool) -> bool:
    """
    pre: -1 <= inv <= 65536 and -1 <= perf <= 65536
    pre: 0 <= id_type <= 6
    post: _ == True
    """
    with Env():
        with untraced():
            ae = AE()
            ae.add_requested_context(VERIF_UID)
        try:
            items = _ext_items(True, True, True, True, True, False, False, inv, perf, id_type, pos_rsp)
            assoc = ae.associate("127.0.0.1", 11112, ext_neg=items)
        except API_ERRORS:
            return True
        return _judge_rq(assoc)


# ---------------------------------------------------------------------------------------------
# 6. A-ASSOCIATE-AC
# ---------------------------------------------------------------------------------------------
N_AC = tier(2, 3)


def _peer_rq(ids, ab, ts_kind, role):
    """A well-formed A-ASSOCIATE-RQ of a peer, assembled by hand from PS3.8 Table 9-11 (not with
    pynetdicom's encoder)."""

    def item(t, v):
        return bytes([t, 0]) + bytes([len(v) // 256, len(v) % 256]) + v

    def uid(s):
        return s.encode("ascii")

    var = item(0x10, uid("1.2.840.10008.3.1.1.1"))
    for i in range(len(ids)):
        sub = item(0x30, uid(VERIF_UID if ab[i] == 0 else (CT_UID if ab[i] == 1 else "1.2.3.4")))
        if ts_kind[i] == 0:
            tss = [IMPLICIT]
        elif ts_kind[i] == 1:
            tss = [BIG]
        else:
            tss = [BIG, EXPLICIT]
        for t in tss:
            sub += item(0x40, uid(t))
        var += item(0x20, bytes([ids[i], 0, 0, 0]) + sub)
    ui = item(0x51, bytes([0, 0, 0x40, 0])) + item(0x52, uid("1.2.3.999"))
    if role:
        u = uid(VERIF_UID)
        ui += item(0x54, bytes([0, len(u)]) + u + bytes([1, 1]))
    var += item(0x50, ui)
    body = bytes([0, 1, 0, 0]) + b"ANY-SCP".ljust(16) + b"PEER".ljust(16) + bytes(32) + var
    n = len(body)
    return bytes([1, 0, n // 16777216, (n // 65536) % 256, (n // 256) % 256, n % 256]) + body


def _distinct_odd(ids):
    for i in range(len(ids)):
        if not (1 <= ids[i] <= 255) or ids[i] % 2 != 1:
            return False
        for j in range(i):
            if ids[i] == ids[j]:
                return False
    return True


def _ac_shards():
    # (n, role proposed by the peer, acceptor roles: 0 not set, 1 (True, True), 2 (False, False) -> user rejection)
    sh = [{"n": 1}]
    sh += [{"n": 2, "role": False, "acr": 0}, {"n": 2, "role": True, "acr": 1}, {"n": 2, "role": True, "acr": 2}]
    if tier(False, True):
        sh += [{"n": 2, "role": True, "acr": 0}, {"n": 2, "role": False, "acr": 1}, {"n": 2, "role": False, "acr": 2}]
        sh += [{"n": 3, "role": False, "acr": 0}, {"n": 3, "role": True, "acr": 2}]
    return sh


def _ab_ok(ab):
    # n >= 2 in the quick tier and n >= 3 always: abstract syntax supported-A or unsupported only
    # (supported-B adds no structurally different result item)
    if (tier(True, False) and len(ab) >= 2) or len(ab) >= 3:
        return all(a == 0 or a == 2 for a in ab)
    return all(0 <= a <= 2 for a in ab)


def _ts_ok(ts_kind):
    if len(ts_kind) >= 3:
        return all(0 <= t <= 1 for t in ts_kind)
    return all(0 <= t <= 2 for t in ts_kind)


def _ac_fixed(role, acr):
    if shard("role") is not None and role != shard("role"):
        return False
    if shard("acr") is not None and acr != shard("acr"):
        return False
    return 0 <= acr <= 2


def _acceptor(ae, raw):
    """What transport.RequestHandler._create_association does, then the peer's request as the real
    decoder delivers it."""
    with untraced():
        assoc = Association(ae, MODE_ACCEPTOR)
        assoc.dul = FakeDUL()
    assoc.acceptor.maximum_length = ae.maximum_pdu_size
    assoc.acceptor.ae_title = "ANY-SCP"
    assoc.acceptor.implementation_class_uid = ae.implementation_class_uid
    assoc.acceptor.implementation_version_name = ae.implementation_version_name
    assoc.acceptor.supported_contexts = ae.supported_contexts
    pdu = A_ASSOCIATE_RQ()
    pdu.decode(raw)
    assoc.requestor.primitive = pdu.to_primitive()
    return assoc


def _judge_ac(assoc, ids) -> bool:
    sent = assoc.dul.sent
    if len(sent) != 1 or sent[0].result != 0:
        return False
    try:
        b = A_ASSOCIATE_AC(sent[0]).encode()
    except UnicodeError:
        return False
    except Exception:
        return True
    return not S.check_ac(b, ids)


@harness(
    "C12", timeout=(240, 1500), shards=_ac_shards,
    functions=["acse:ACSE._negotiate_as_acceptor", "acse:ACSE.send_accept", "presentation:negotiate_as_acceptor",
               "association:ServiceUser.user_information", "pdu:A_ASSOCIATE_RQ.decode", "pdu:A_ASSOCIATE_RQ.to_primitive",
               "pdu:A_ASSOCIATE_AC.from_primitive", "pdu_items:PresentationContextItemAC.from_primitive", "pdu:PDU.encode"],
    bounds="a well-formed peer request with n (shard, 1..%d) presentation contexts whose ids are ANY distinct odd "
           "numbers in 1..255 (solver-symbolic), each with abstract syntax supported-A / supported-B / unsupported and "
           "transfer syntaxes {supported} / {unsupported} / {unsupported, supported} (quick tier n = 2 and n = 3: abstract syntax A or "
           "unsupported only; n = 3: transfer syntaxes {supported} / {unsupported} only); role selection proposed for A or not; acceptor roles for A not set / (True, True) / (False, False) (shards for n >= 2; quick: 3 of the 6 "
           "combinations, thorough: all for n = 2 and 2 for n = 3)" % N_AC,
    stubs=["Association(ae, MODE_ACCEPTOR) built untraced, then configured as transport.RequestHandler._create_association does; dul -> FakeDUL",
           "peer request assembled by hand, decoded by the real A_ASSOCIATE_RQ.decode/to_primitive",
           "primitive -> bytes by A_ASSOCIATE_AC(primitive).encode() as in fsm.AE_7"],
    outside="malformed peer requests (duplicate / even ids, no transfer syntax); more than %d contexts; user identity / "
            "SOP class extended / asynchronous window responses" % N_AC,
)
def ac_conformant(ids: List[int], ab: List[int], ts_kind: List[int], role: bool, acr: int) -> bool:
    """
    pre: len(ids) == shard("n", 1) and len(ab) == len(ids) and len(ts_kind) == len(ids)
    pre: _distinct_odd(ids)
    pre: _ab_ok(ab) and _ts_ok(ts_kind)
    pre: _ac_fixed(role, acr)
    post: _ == True
    """
    raw = _peer_rq(ids, ab, ts_kind, role)
    with untraced():
        ae = AE(ae_title="ANY-SCP")
        ae.add_supported_context(CT_UID, [EXPLICIT])
    if acr == 1:
        ae.add_supported_context(VERIF_UID, [IMPLICIT, EXPLICIT], scu_role=True, scp_role=True)
    elif acr == 2:
        ae.add_supported_context(VERIF_UID, [IMPLICIT, EXPLICIT], scu_role=False, scp_role=False)
    else:
        ae.add_supported_context(VERIF_UID, [IMPLICIT, EXPLICIT])
    assoc = _acceptor(ae, raw)
    assoc.acse._negotiate_as_acceptor()
    return _judge_ac(assoc, ids)


@harness(
    "C12", timeout=(90, 300),
    functions=["ae:ApplicationEntity.maximum_pdu_size", "ae:ApplicationEntity.implementation_version_name",
               "association:ServiceUser.maximum_length", "association:ServiceUser.implementation_version_name",
               "acse:ACSE._negotiate_as_acceptor", "acse:ACSE.send_accept", "pdu:A_ASSOCIATE_AC.from_primitive"],
    bounds="one accepted context; acceptor maximum PDU size (AE.maximum_pdu_size) any int in [-2**33, 2**33]; "
           "implementation version name absent / 1 / 16 / 17 characters",
    stubs=["as ac_conformant"],
    outside="other user information in the response",
)
def ac_user_info(max_pdu: int, ver: int) -> bool:
    """
    pre: -2**33 <= max_pdu <= 2**33
    pre: 0 <= ver <= 3
    post: _ == True
    """
    raw = _peer_rq([1], [0], [0], False)
    with untraced():
        ae = AE(ae_title="ANY-SCP")
        ae.add_supported_context(VERIF_UID, [IMPLICIT, EXPLICIT])
    try:
        ae.maximum_pdu_size = max_pdu
        ae.implementation_version_name = [None, "V", "V" * 16, "V" * 17][ver]
        assoc = _acceptor(ae, raw)
    except API_ERRORS:
        return True
    assoc.acse._negotiate_as_acceptor()
    return _judge_ac(assoc, [1])
