"""C13 - associations are established only when the acceptance policy allows them.

Real code: A_ASSOCIATE_RQ.decode / calling_ae_title / called_ae_title setters / to_primitive (what the DUL
does with the peer's bytes), AE.require_calling_aet / require_called_aet setters, Association.run_reactor
(acceptor branch), ACSE._negotiate_as_acceptor, ACSE._check_user_identity, ACSE.send_reject / send_accept,
evt.trigger, Association._run_reactor (one iteration) and Association._serve_request with the real
Verification service class.

The peer's A-ASSOCIATE-RQ is assembled BY HAND from PS3.8 Table 9-11 (so the title fields are raw bytes
chosen by the solver); the oracle reads the same raw fields with its own (space only) padding rule.
"""
import logging
import warnings
from typing import List

from vlib.shim import *  # noqa: F401,F403
from vlib.h import harness, tier, shard
from vlib import kf
from vlib.stubs.acse13 import (AsciiUnicodedata, FakeDUL, FakeThreading, HandlerLog, OneShotCheckpoint,
                               ScriptedDimse, StopReactor)

import pynetdicom._validators as _validators
import pynetdicom.ae as ae_mod
import pynetdicom.association as assoc_mod
from pynetdicom import AE, evt
from pynetdicom._globals import MODE_ACCEPTOR
from pynetdicom.association import Association
from pynetdicom.dimse_primitives import C_ECHO
from pynetdicom.pdu import A_ASSOCIATE_RQ
import pynetdicom.service_class  # noqa: F401  (LOGGER silenced below)

silence_loggers()
warnings.simplefilter("ignore")
logging.disable(logging.CRITICAL)
_validators.unicodedata = AsciiUnicodedata()

VERIF_UID = "1.2.840.10008.1.1"
IMPLICIT = "1.2.840.10008.1.2"
OWN_TITLES = ["AB", " AB ", "A"]                 # the acceptor's AE title (start_server(ae_title=))
# required-calling lists: empty (check disabled), one entry, padded entry, two entries, lower case entry,
# one-character entry
REQ_LISTS = [[], ["AB"], [" CD "], ["AB", "CD"], ["ab"], ["A"]]

NB = tier(2, 3)                                # leading solver-symbolic bytes per title field


class FakeTime:
    @staticmethod
    def sleep(s):
        return None

    @staticmethod
    def time():
        return 0.0

    @staticmethod
    def monotonic():
        return 0.0


# ---------------------------------------------------------------------------------------------
# the peer's request, by hand
# ---------------------------------------------------------------------------------------------
def _item(t, v):
    return bytes([t, 0]) + bytes([len(v) // 256, len(v) % 256]) + v


def _user_identity_item(id_type, pos_rsp):
    prim = b"user"
    sec = b"pw" if id_type == 2 else b""
    v = bytes([id_type, 1 if pos_rsp else 0]) + bytes([0, len(prim)]) + prim + bytes([0, len(sec)]) + sec
    return _item(0x58, v)


def _peer_rq(called16, calling16, id_type, pos_rsp):
    var = _item(0x10, b"1.2.840.10008.3.1.1.1")
    sub = _item(0x30, VERIF_UID.encode("ascii")) + _item(0x40, IMPLICIT.encode("ascii"))
    var += _item(0x20, bytes([1, 0, 0, 0]) + sub)
    ui = _item(0x51, bytes([0, 0, 0x40, 0])) + _item(0x52, b"1.2.3.999")
    if id_type != 0:
        ui += _user_identity_item(id_type, pos_rsp)
    var += _item(0x50, ui)
    body = bytes([0, 1, 0, 0]) + called16 + calling16 + bytes(32) + var
    n = len(body)
    return bytes([1, 0, n // 16777216, (n // 65536) % 256, (n // 256) % 256, n % 256]) + body


# ---------------------------------------------------------------------------------------------
# oracle (independent of pynetdicom): PS3.8 9.3.2 "leading and trailing SPACES are non-significant"
# ---------------------------------------------------------------------------------------------
def _strip_spaces(b):
    i, j = 0, len(b)
    while i < j and b[i] == 0x20:
        i += 1
    while j > i and b[j - 1] == 0x20:
        j -= 1
    return b[i:j]


def _title_matches(field16, entries):
    """Is the title carried by the 16-byte field (ignoring leading/trailing spaces) one of `entries`
    (str, compared ignoring THEIR leading/trailing spaces, case sensitive)?"""
    t = _strip_spaces(field16)
    for e in entries:
        if t == _strip_spaces(e.encode("ascii")):
            return True
    return False


REJ_CALLING = (1, 1, 3)
REJ_CALLED = (1, 1, 7)
REJ_IDENTITY = (2, 2, 1)
REJ_LIMIT = (2, 3, 2)


def _expected(calling16, called16, req_list, require_called, own, id_present, handler, n_active, max_assoc):
    """None = establish; otherwise the (result, source, reason) of the single A-ASSOCIATE-RJ.  Later
    checks override earlier ones (acse.py: calling, called, identity, local limit)."""
    rsd = None
    if len(req_list) > 0 and not _title_matches(calling16, req_list):
        rsd = REJ_CALLING
    if require_called and not _title_matches(called16, [own]):
        rsd = REJ_CALLED
    # handler: 0 not bound, 1 (True, None), 2 (True, bytes), 3 (False, None), 4 raises ValueError,
    #          5 raises NotImplementedError, 6 (False, bytes), 7 (None, None), 8 (0, bytes) - a verdict that is
    #          not positive (falsy, e.g. `entry and check(...)` for an unknown user), 9 (1, None) - truthy
    if id_present and handler in (3, 4, 5, 6, 7, 8):
        rsd = REJ_IDENTITY
    if n_active > max_assoc:
        rsd = REJ_LIMIT
    return rsd


# ---------------------------------------------------------------------------------------------
# common driver
# ---------------------------------------------------------------------------------------------
def _echo_rq():
    rq = C_ECHO()
    rq.MessageID = 7
    rq.AffectedSOPClassUID = VERIF_UID
    return rq


def _user_id_result(handler):
    if handler == 1:
        return (True, None)
    if handler == 2:
        return (True, b"resp")
    if handler == 3:
        return (False, None)
    if handler == 4:
        return ValueError("handler failed")
    if handler == 5:
        return NotImplementedError("identity type not supported by this handler")
    if handler == 7:
        return (None, None)
    if handler == 8:
        return (0, b"resp")
    if handler == 9:
        return (1, None)
    return (False, b"resp")


def _run_acceptor(raw, req_list, require_called, own, handler, n_others, max_assoc):
    """Returns None when the request cannot be decoded (it never reaches the ACSE), else
    (assoc, log, dimse)."""
    n_conc = 0
    for k in range(1, 5):                       # make the (small, possibly symbolic) count concrete
        if n_others == k:
            n_conc = k
    n_others = n_conc
    with untraced():
        ae = AE(ae_title="AB")
        ae.add_supported_context(VERIF_UID)
        ae.maximum_associations = max_assoc
    ae.require_calling_aet = req_list           # real setters
    ae.require_called_aet = require_called
    with untraced():
        assoc = Association(ae, MODE_ACCEPTOR)
        assoc.dul = FakeDUL()
        others = []
        for _ in range(n_others):
            o = Association(ae, MODE_ACCEPTOR)
            o.dul = FakeDUL()
            others.append(o)
        # as transport.RequestHandler._create_association
        assoc.acceptor.maximum_length = ae.maximum_pdu_size
        assoc.acceptor.ae_title = own
        assoc.acceptor.implementation_class_uid = ae.implementation_class_uid
        assoc.acceptor.supported_contexts = ae.supported_contexts
        log = HandlerLog()
        for event in evt._INTERVENTION_EVENTS:
            if event is evt.EVT_USER_ID:
                if handler != 0:
                    assoc.bind(event, log.make(event, _user_id_result(handler)))
            elif event.name.startswith("EVT_C_") or event.name.startswith("EVT_N_"):
                assoc.bind(event, log.make(event, 0x0000))
        dimse = ScriptedDimse([(1, _echo_rq())])
        assoc.dimse = dimse
        assoc._started_dul = True
        assoc._reactor_checkpoint = OneShotCheckpoint(1)
        # the reactor loop proper only handles concrete state (the titles play no part any more): the real
        # method runs untraced for speed; touching a symbolic value there would be a CrossHair error
        real_loop = assoc._run_reactor

        def loop_untraced():
            with untraced():
                real_loop()

        assoc._run_reactor = loop_untraced
    # what the DUL does with the peer's bytes (dul._decode_pdu + fsm.AE_6)
    try:
        pdu = A_ASSOCIATE_RQ()
        pdu.decode(raw)
        primitive = pdu.to_primitive()
    except ValueError:
        return None
    assoc.dul.incoming = [primitive]
    saved = (ae_mod.threading, assoc_mod.time)
    ae_mod.threading = FakeThreading([assoc] + others)
    assoc_mod.time = FakeTime
    try:
        try:
            assoc.run_reactor()                 # the real acceptor thread body, in this thread
        except StopReactor:
            pass
    finally:
        ae_mod.threading, assoc_mod.time = saved
    return assoc, log, dimse


def _judge(res, expected, id_present, handler):
    assoc, log, dimse = res
    sent = assoc.dul.sent
    calls = log.service_calls()
    if expected is None:
        # established: exactly one A-ASSOCIATE (accept), and the waiting C-ECHO was served once
        if len(sent) != 1 or sent[0].result != 0:
            return False
        if assoc.is_rejected or assoc.is_aborted:
            return False
        return calls == ["EVT_C_ECHO"] and len(dimse.sent) == 1
    # rejected: exactly one A-ASSOCIATE (reject) with the documented triple, never established,
    # the DIMSE provider was never asked for a message, no service handler ran
    if len(sent) != 1:
        return False
    p = sent[0]
    if (p.result, p.result_source, p.diagnostic) != expected:
        return False
    if assoc.is_established or not assoc.is_rejected:
        return False
    if calls or dimse.get_calls != 0 or dimse.sent:
        return False
    # even if a DIMSE request were handed to the association now, no service handler may run
    saved = assoc_mod.time
    assoc_mod.time = FakeTime
    try:
        with untraced():
            assoc._serve_request(_echo_rq(), 1)
    finally:
        assoc_mod.time = saved
    return log.service_calls() == [] and not assoc.is_established


STUBS = [
    "peer request assembled by hand (PS3.8 Table 9-11), decoded by the real A_ASSOCIATE_RQ.decode/to_primitive",
    "AE() and Association(ae, MODE_ACCEPTOR) built untraced and configured as transport.RequestHandler._create_association does",
    "assoc.dul -> FakeDUL (hands out the decoded request, records primitives, never alive); the DUL thread is never started",
    "assoc.dimse -> ScriptedDimse holding one C-ECHO request on context 1; assoc._reactor_checkpoint -> one iteration",
    "pynetdicom.ae.threading.enumerate -> this association + n prepared acceptor associations (AE.active_associations)",
    "pynetdicom.association.time -> no-op sleep",
    "pynetdicom._validators.unicodedata -> exact ASCII interval stand-in",
    "recording handlers bound for EVT_USER_ID (enumerated outcome) and every EVT_C_* / EVT_N_* event",
]


# ---------------------------------------------------------------------------------------------
# end-to-end reproducer (no stub): a real AE server on a loopback socket in a private network namespace
# (`isopy`), the hand-made request sent over a raw TCP socket, the first PDU of the answer observed
# ---------------------------------------------------------------------------------------------
_E2E_SCRIPT = r"""
import json, socket, sys
cfg = json.loads(sys.argv[1])
from pynetdicom import AE, evt
ae = AE(ae_title="AB")
ae.add_supported_context("1.2.840.10008.1.1")
ae.require_calling_aet = cfg["req_list"]
ae.require_called_aet = cfg["require_called"]
h = cfg["handler"]
def on_user_id(event):
    if h == 1: return True, None
    if h == 2: return True, b"resp"
    if h == 3: return False, None
    if h == 4: raise ValueError("handler failed")
    if h == 5: raise NotImplementedError("identity type not supported by this handler")
    if h == 7: return None, None
    if h == 8: return 0, b"resp"
    if h == 9: return 1, None
    return False, b"resp"
handlers = [(evt.EVT_USER_ID, on_user_id)] if h else []
scp = ae.start_server(("127.0.0.1", 0), block=False, ae_title=cfg["own"], evt_handlers=handlers)
port = scp.socket.getsockname()[1]
s = socket.create_connection(("127.0.0.1", port), timeout=10)
s.sendall(bytes.fromhex(cfg["raw"]))
s.settimeout(10)
try:
    data = s.recv(16)
except Exception as exc:
    data = b""
out = {"type": data[0] if data else None, "rsd": list(data[7:10]) if data and data[0] == 3 else None}
try:
    s.close()
    scp.shutdown()
except Exception:
    pass
print("@@E2E@@" + json.dumps(out))
"""


def _e2e(raw, expected, req_list, require_called, own, handler):
    import json
    import os
    import shutil
    import subprocess
    import sys
    import vlib

    cfg = {"raw": bytes(raw).hex(), "req_list": req_list, "require_called": bool(require_called), "own": own,
           "handler": handler}
    from vlib.e2e import runner as _runner; runner = _runner()
    env = dict(os.environ, PYTHONPATH=vlib.REPO)
    p = subprocess.run(runner + ["-c", _E2E_SCRIPT, json.dumps(cfg)], capture_output=True, text=True, timeout=120, env=env)
    i = p.stdout.rfind("@@E2E@@")
    if i < 0:
        return False, "reproducer gave no result: " + (p.stderr or p.stdout)[-400:]
    out = json.loads(p.stdout[i + 7:].strip().splitlines()[0])
    if expected is None:
        rep = out["type"] != 2
    else:
        rep = not (out["type"] == 3 and tuple(out["rsd"] or ()) == tuple(expected))
    return rep, "real server answered PDU type %s rsd=%s; the statement requires %s" % (
        out["type"], out["rsd"], "A-ASSOCIATE-AC" if expected is None else "A-ASSOCIATE-RJ %s" % (tuple(expected),))


def _e2e_calling(args, sh):
    req_list = REQ_LISTS[sh.get("req", 1)]
    calling16 = _field(args["calling"])
    called16 = _field(b"AB" if args["called_ok"] else b"XY")
    exp = _expected(calling16, called16, req_list, args["require_called"], "AB", False, 0, 1, 10)
    return _e2e(_peer_rq(called16, calling16, 0, False), exp, req_list, args["require_called"], "AB", 0)


def _e2e_called(args, sh):
    own = OWN_TITLES[sh.get("own", 0)]
    req_list = ["AB"] if args["req_on"] else []
    calling16 = _field(b"AB" if args["calling_ok"] else b"XY")
    called16 = _field(args["called"])
    exp = _expected(calling16, called16, req_list, args["require_called"], own, False, 0, 1, 10)
    return _e2e(_peer_rq(called16, calling16, 0, False), exp, req_list, args["require_called"], own, 0)


def _e2e_both(args, sh):
    req_list = REQ_LISTS[sh.get("req", 1)]
    own = OWN_TITLES[args["own_idx"]]
    calling16, called16 = _field(args["calling"]), _field(args["called"])
    exp = _expected(calling16, called16, req_list, sh.get("rc", True), own, False, 0, 1, 10)
    return _e2e(_peer_rq(called16, calling16, 0, False), exp, req_list, sh.get("rc", True), own, 0)


def _e2e_identity(args, sh):
    if args["over_limit"]:
        return False, "no end-to-end reproducer for the association limit dimension"
    handler = sh.get("h", 1)
    calling16 = _field(b"AB" if args["calling_ok"] else b"XY")
    called16 = _field(b"AB" if args["called_ok"] else b"XY")
    req_list = ["AB"] if args["req_on"] else []
    exp = _expected(calling16, called16, req_list, args["require_called"], "AB", args["id_type"] != 0, handler, 1, 1)
    raw = _peer_rq(called16, calling16, args["id_type"], args["pos_rsp"])
    return _e2e(raw, exp, req_list, args["require_called"], "AB", handler)


# ---------------------------------------------------------------------------------------------
# 1. the AE title fields against the policy
# ---------------------------------------------------------------------------------------------
TITLE_FUNCS = ["pdu:A_ASSOCIATE_RQ.decode", "pdu:A_ASSOCIATE_RQ.calling_ae_title", "pdu:A_ASSOCIATE_RQ.called_ae_title",
               "pdu:A_ASSOCIATE_RQ.to_primitive", "utils:decode_bytes", "utils:set_ae", "_validators:validate_ae",
               "ae:ApplicationEntity.require_calling_aet", "ae:ApplicationEntity.require_called_aet",
               "association:Association.run_reactor", "acse:ACSE._negotiate_as_acceptor", "acse:ACSE.send_reject",
               "acse:ACSE.send_accept", "association:Association._run_reactor", "association:Association._serve_request",
               "service_class:VerificationServiceClass.SCP"]


def _field(sym):
    return sym + b" " * (16 - len(sym))


def _own(own_idx):
    for k in range(len(OWN_TITLES)):
        if own_idx == k:
            return OWN_TITLES[k]
    return OWN_TITLES[0]


@harness(
    "C13", timeout=(170, 900), shards=[{"req": r} for r in range(len(REQ_LISTS))], findings=["C13-title-whitespace-calling"],
    functions=TITLE_FUNCS, e2e=_e2e_calling,
    bounds="calling AE title field: %d leading bytes ANY value 0..255 (solver-symbolic), rest spaces; required-calling "
           "list (shard) one of [], ['AB'], [' CD '], ['AB','CD'], ['ab'], ['A']; called title field 'AB' or 'XY', "
           "require_called_aet off/on, own AE title 'AB'; no user identity; no limit pressure" % NB,
    stubs=STUBS,
    outside="calling titles with more than %d non-space bytes; requests whose title fields make A_ASSOCIATE_RQ.decode "
            "raise never reach the ACSE (judged 'not established' without further checks)" % NB,
)
def calling_policy(calling: bytes, called_ok: bool, require_called: bool) -> bool:
    """
    pre: len(calling) == NB
    pre: not kf.skip("C13-title-whitespace-calling", calling=calling)
    post: _ == True
    """
    req_list = REQ_LISTS[shard("req", 1)]
    calling16 = _field(calling)
    called16 = _field(b"AB" if called_ok else b"XY")
    raw = _peer_rq(called16, calling16, 0, False)
    res = _run_acceptor(raw, req_list, require_called, "AB", 0, 0, 10)
    if res is None:
        return True
    exp = _expected(calling16, called16, req_list, require_called, "AB", False, 0, 1, 10)
    return _judge(res, exp, False, 0)


@harness(
    "C13", timeout=(170, 900), shards=[{"own": k} for k in range(len(OWN_TITLES))], findings=["C13-title-whitespace-called"],
    functions=TITLE_FUNCS, e2e=_e2e_called,
    bounds="called AE title field: %d leading bytes ANY value 0..255 (solver-symbolic), rest spaces; own AE title "
           "(shard) 'AB', ' AB ' or 'A'; require_called_aet off/on; calling title 'AB' or 'XY' against required-calling "
           "list [] or ['AB']; no user identity; no limit pressure" % NB,
    stubs=STUBS,
    outside="as calling_policy",
)
def called_policy(called: bytes, require_called: bool, calling_ok: bool, req_on: bool) -> bool:
    """
    pre: len(called) == NB
    pre: not kf.skip("C13-title-whitespace-called", called=called)
    post: _ == True
    """
    own = OWN_TITLES[shard("own", 0)]
    req_list = ["AB"] if req_on else []
    calling16 = _field(b"AB" if calling_ok else b"XY")
    called16 = _field(called)
    raw = _peer_rq(called16, calling16, 0, False)
    res = _run_acceptor(raw, req_list, require_called, own, 0, 0, 10)
    if res is None:
        return True
    exp = _expected(calling16, called16, req_list, require_called, own, False, 0, 1, 10)
    return _judge(res, exp, False, 0)


NBOTH = tier(1, 2)


@harness(
    "C13", timeout=(170, 1500), findings=["C13-title-whitespace-both"],
    shards=lambda: [{"req": r, "rc": c} for r in ((1, 5) if tier(True, False) else range(len(REQ_LISTS))) for c in (False, True)],
    functions=TITLE_FUNCS, e2e=_e2e_both,
    bounds="BOTH title fields symbolic: %d leading bytes each ANY value 0..255, rest spaces; required-calling list "
           "(shard; quick: ['AB'], ['A']; thorough: all six) x require_called_aet (shard); own AE title 'A', 'AB' or ' AB '"
           % NBOTH,
    stubs=STUBS,
    outside="as calling_policy",
)
def titles_policy(calling: bytes, called: bytes, own_idx: int) -> bool:
    """
    pre: len(calling) == NBOTH and len(called) == NBOTH
    pre: 0 <= own_idx <= 2
    pre: not kf.skip("C13-title-whitespace-both", calling=calling, called=called)
    post: _ == True
    """
    req_list = REQ_LISTS[shard("req", 1)]
    require_called = shard("rc", True)
    own = _own(own_idx)
    calling16 = _field(calling)
    called16 = _field(called)
    raw = _peer_rq(called16, calling16, 0, False)
    res = _run_acceptor(raw, req_list, require_called, own, 0, 0, 10)
    if res is None:
        return True
    exp = _expected(calling16, called16, req_list, require_called, own, False, 0, 1, 10)
    return _judge(res, exp, False, 0)


# ---------------------------------------------------------------------------------------------
# 2. user identity verdicts and the order of the checks
# ---------------------------------------------------------------------------------------------
def _id_type_ok(id_type):
    if tier(True, False):
        return id_type == 0 or id_type == 1 or id_type == 3
    return 0 <= id_type <= 5


@harness(
    "C13", timeout=(170, 900), shards=[{"h": k} for k in range(10)], findings=["C13-identity-notimplemented"], e2e=_e2e_identity,
    functions=["acse:ACSE._negotiate_as_acceptor", "acse:ACSE._check_user_identity", "events:trigger",
               "association:Association.run_reactor", "acse:ACSE.send_reject", "acse:ACSE.send_accept",
               "pdu_items:UserIdentitySubItemRQ.to_primitive", "association:Association._serve_request"],
    bounds="user identity item absent or of type 1..5 (quick: absent, 1, 3) with/without positive response requested; "
           "EVT_USER_ID handler (shard): not bound / returns (True, None) / (True, bytes) / (False, None) / raises "
           "ValueError / raises NotImplementedError / (False, bytes) / (None, None) / (0, bytes) / (1, None); calling title matches the one-entry list or not; "
           "called title matches or not; each check enabled or not; association limit exceeded (1 other active acceptor "
           "association, maximum 1) or not",
    stubs=STUBS,
    outside="identity payloads other than the fixed ones; other exception types",
)
def identity_policy(id_type: int, pos_rsp: bool, calling_ok: bool, called_ok: bool, req_on: bool,
                    require_called: bool, over_limit: bool) -> bool:
    """
    pre: _id_type_ok(id_type)
    pre: not kf.skip("C13-identity-notimplemented", id_type=id_type)
    post: _ == True
    """
    handler = shard("h", 1)
    calling16 = _field(b"AB" if calling_ok else b"XY")
    called16 = _field(b"AB" if called_ok else b"XY")
    req_list = ["AB"] if req_on else []
    n_others = 1 if over_limit else 0
    raw = _peer_rq(called16, calling16, id_type, pos_rsp)
    res = _run_acceptor(raw, req_list, require_called, "AB", handler, n_others, 1)
    if res is None:
        return False        # this request is well formed
    exp = _expected(calling16, called16, req_list, require_called, "AB", id_type != 0, handler, 1 + n_others, 1)
    ok = _judge(res, exp, id_type != 0, handler)
    # the identity handler runs exactly when the request carries an identity and a handler is bound
    n_uid = len([c for c in res[1].calls if c == "EVT_USER_ID"])
    return ok and n_uid == (1 if (id_type != 0 and handler != 0) else 0)


@harness(
    "C13", timeout=(60, 300),
    functions=["ae:ApplicationEntity.active_associations", "ae:ApplicationEntity.maximum_associations",
               "acse:ACSE._negotiate_as_acceptor", "acse:ACSE.send_reject"],
    bounds="0..3 other active acceptor associations of the same AE, maximum_associations 1..3, otherwise acceptable request",
    stubs=STUBS,
    outside="requestor associations / associations of other AEs among the active threads",
)
def limit_policy(n_others: int, max_assoc: int) -> bool:
    """
    pre: 0 <= n_others <= 3
    pre: 1 <= max_assoc <= 3
    post: _ == True
    """
    m = 1
    for k in range(1, 4):
        if max_assoc == k:
            m = k
    calling16 = _field(b"AB")
    raw = _peer_rq(calling16, calling16, 0, False)
    res = _run_acceptor(raw, [], False, "AB", 0, n_others, m)
    if res is None:
        return False
    exp = _expected(calling16, calling16, [], False, "AB", False, 0, 1 + n_others, m)
    return _judge(res, exp, False, 0)
