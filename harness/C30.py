"""C30 - storescp / qrscp never write outside their storage directory.

Real code: pynetdicom.apps.common.handle_store (storescp) and pynetdicom.apps.qrscp.handlers.handle_store.
The event / dataset are stand-ins that hand the handler a *symbolic* SOP Instance UID (any code points) and
record every path the handler passes to a file-creating or file-modifying operation (`Dataset.save_as`,
`open(..., "wb")`, `os.makedirs`).  The `os` name inside the two modules is replaced by a facade whose
`path.join/abspath/dirname` are the real pure-Python posixpath functions (executed symbolically) and whose
`path.exists/makedirs` only record, so the file system is never touched.
Oracle: POSIX pathname resolution of the path taken relative to the working directory (`resolve`, written out in
pure Python below because CPython's posixpath.normpath is C code), no symbolic links.
"""
import posixpath

from vlib.shim import *  # noqa: F401,F403
from vlib.h import harness, tier, shard
from vlib import kf

import pynetdicom.apps.common as common
import pynetdicom.apps.qrscp.handlers as qh

silence_loggers()

N = tier(4, 6)
NS = int(__import__('os').environ.get('C30_NS', tier(4, 8)))   # uid length for storescp_paths (8 = shortest escape shape behind the 'UN.' prefix)
NV = tier(2, 3)   # uid length in the branch-combination harness
NA, NB = tier(1, 2), tier(2, 2)   # symbolic parts around a traversal skeleton
CWD = "/cwd"
# configured storage directories: absolute, relative, with trailing separator, nested relative, the cwd itself
DIRS = {"abs": "/store", "rel": "store", "slash": "/srv/dcm/", "nested": "a/b", "dot": "."}
# SOP classes: 0 = the symbolic string, others = real entries of SOP_CLASS_PREFIXES
CLASS_POOL = ["1.2.840.10008.5.1.4.1.1.2", "1.2.840.10008.5.1.4.1.1.4.1"]


# ------------------------------------------------------------------------------------------------ oracle
def resolve(path):
    """POSIX pathname resolution (IEEE 1003.1 section 4.13) without symbolic links, for `path` taken relative
    to CWD: the list of directory-entry names from the root.  Empty components and "." are skipped, ".." steps
    to the parent, and the parent of the root is the root.  (Written out here because CPython's
    posixpath.normpath is a C function and cannot be executed symbolically; leading "//" is treated as "/",
    as Linux does.)"""
    full = path if path.startswith("/") else CWD + "/" + path
    stack = []
    for comp in full.split("/"):
        if comp == "" or comp == ".":
            continue
        if comp == "..":
            if stack:
                stack.pop()
            continue
        stack.append(comp)
    return stack


def _is_prefix(a, b):
    """list a is a prefix of list b"""
    if len(a) > len(b):
        return False
    for i in range(len(a)):
        if a[i] != b[i]:
            return False
    return True


def harmless(path, storage_dir):
    """A create/modify operation on `path` cannot create or modify anything outside `storage_dir`:
    the resolved path is strictly below the resolved storage directory, or it is the storage directory
    itself or one of its ancestors (existing directories once the storage directory exists, so
    `open(.., "wb")` / `save_as` fail with IsADirectoryError and nothing is created or modified)."""
    if "\x00" in path:
        return True  # CPython refuses the path (ValueError: embedded null byte) before any system call
    root = resolve(storage_dir)
    p = resolve(path)
    # below or equal to the root            ... or an ancestor of the root
    return _is_prefix(root, p) or _is_prefix(p, root)


# ------------------------------------------------------------------------------------------------ stand-ins
class _Rec:
    def __init__(self):
        self.writes = []   # paths handed to save_as / open(.., "w..")
        self.mkdirs = []
        self.db = []


class _FakePath:
    join = staticmethod(posixpath.join)
    dirname = staticmethod(posixpath.dirname)
    basename = staticmethod(posixpath.basename)
    sep = "/"

    def __init__(self, rec, exists):
        self._rec, self._exists = rec, exists

    def exists(self, p):
        return self._exists

    def abspath(self, p):
        return "/" + "/".join(resolve(p))


class _FakeOs:
    """The part of `os` the two handlers use; nothing reaches the real file system."""

    sep = "/"

    def __init__(self, rec, exists):
        self._rec = rec
        self.path = _FakePath(rec, exists)

    def makedirs(self, p, exist_ok=False):
        self._rec.mkdirs.append(p)


class _FakeFile:
    def __enter__(self):
        return self

    def __exit__(self, *a):
        return False

    def write(self, b):
        return 0


class _FakeDS:
    """The decoded data set of the C-STORE request.  Besides the two UIDs, every other element a handler may look at
    (`ds.get("Modality")`, `ds.PatientID`, `"Modality" in ds` ...) is peer-controlled too: it holds the string `other`."""

    def __init__(self, uid, cls, rec, write_ok, other="OT"):
        self.SOPInstanceUID = uid
        self.SOPClassUID = cls
        self._rec, self._ok = rec, write_ok
        self._other = other
        self.file_meta = None

    def get(self, key, default=None):
        if key == "SOPInstanceUID":
            return self.SOPInstanceUID
        if key == "SOPClassUID":
            return self.SOPClassUID
        return self._other

    def __contains__(self, key):
        return True

    def __getattr__(self, name):
        if name[:1].isupper():       # a DICOM keyword
            return self._other
        raise AttributeError(name)

    def __getitem__(self, k):   # ds[0x00030000:]
        return self

    def save_as(self, path, **kw):
        self._rec.writes.append(path)
        if not self._ok:
            raise OSError("stub: write failed")


class _Rq:
    address = "peer"
    port = 104


class _Assoc:
    requestor = _Rq()


class _Cx:
    def __init__(self, ts):
        self.transfer_syntax = ts


class _Ts:
    @staticmethod
    def strftime(f):
        return "t"


class _Event:
    def __init__(self, ds, ts):
        self.dataset = ds
        self.assoc = _Assoc()
        self.file_meta = None
        self.context = _Cx(ts)
        self.timestamp = _Ts

    def encoded_dataset(self):
        return b""


class _Args:
    ignore = False

    def __init__(self, d):
        self.output_directory = d


class _Log:
    def info(self, *a, **k):
        pass

    warning = error = debug = info

    def exception(self, exc=None, *a, **k):
        # the handlers catch `Exception` and log it; CrossHair's NotDeterministic is an Exception subclass and must
        # not be swallowed by the code under test (it would turn into a spurious "nothing written" outcome)
        if type(exc).__name__ == "NotDeterministic":
            raise exc


# SQLAlchemy stand-ins for the tail of qrscp's handle_store (after the file has been written)
class _Conn:
    def __enter__(self):
        return self

    def __exit__(self, *a):
        return False


class _Engine:
    def connect(self):
        return _Conn()


class _Query:
    def filter(self, *a):
        return self

    def all(self):
        return []


class _Session:
    def query(self, *a):
        return _Query()

    def rollback(self):
        pass

    def close(self):
        pass


class _Col:
    def __eq__(self, other):
        return ("eq", other)

    __hash__ = None


class _Instance:
    sop_instance_uid = _Col()


def _all_harmless(rec, storage_dir):
    ok = True
    for p in rec.writes:
        if has_sentinel(p) or not harmless(p, storage_dir):
            ok = False
    return ok


# ------------------------------------------------------------------------------------------------ storescp
def _run_storescp(uid, sop_class, out_dir, deflated, exists, write_ok, forking, other="OT"):
    rec = _Rec()
    ds = _FakeDS(uid, sop_class, rec, write_ok, other)
    ts = common.DeflatedExplicitVRLittleEndian if deflated else "1.2.840.10008.1.2"

    def fake_open(path, mode="r", *a, **k):
        rec.writes.append(path)
        if not write_ok:
            raise OSError("stub: open failed")
        return _FakeFile()

    saved = common.os, common.SOP_CLASS_PREFIXES
    common.os = _FakeOs(rec, exists)
    if forking:
        common.SOP_CLASS_PREFIXES = ForkingDict(saved[1])
    common.open = fake_open
    try:
        common.handle_store(_Event(ds, ts), _Args(out_dir), _Log())
    finally:
        common.os, common.SOP_CLASS_PREFIXES = saved
        del common.open
    if len(rec.writes) > 1:
        return False  # one C-STORE request, at most one file
    # the only directory ever created is the configured one
    for d in rec.mkdirs:
        if d != out_dir:
            return False
    return _all_harmless(rec, "." if out_dir is None else out_dir)


_STORESCP_STUBS = [
    "`os` inside pynetdicom.apps.common replaced by a facade: path.join/dirname are the real posixpath functions, "
    "exists() returns a symbolic bool, makedirs records; `open` inside the module records the path",
    "event/dataset stand-ins: ds[0x00030000:] returns the same object, save_as records its path",
    "POSIX path semantics; the storage directory exists; no symbolic links below it",
    "a path with an embedded NUL is rejected by CPython before any system call (ValueError)",
]


@harness(
    "C30",
    timeout=(150, 1500),
    functions=["apps.common:handle_store"],
    bounds="SOP Instance UID any str of length <= %d (any code points); SOP Class UID unknown to SOP_CLASS_PREFIXES; "
           "output directory in {/store, store, /srv/dcm/, a/b, ., None}; deflated transfer syntax (open) or not "
           "(save_as); the write succeeds" % NS,
    stubs=_STORESCP_STUBS,
    outside="Windows path semantics (ntpath), symbolic links, what pydicom writes into the file",
    shards=[{"dir": k} for k in list(DIRS) + ["none"]],
)
def storescp_paths(uid: str, deflated: bool) -> bool:
    """
    pre: len(uid) <= NS
    post: _ == True
    """
    key = shard("dir", "abs")
    out_dir = None if key == "none" else DIRS[key]
    return _run_storescp(uid, "9.9.9", out_dir, deflated, False, True, False)


SKELETONS = ["/../../", "/../../../", "../../", "/.././../"]


@harness(
    "C30",
    timeout=(150, 900),
    functions=["apps.common:handle_store"],
    bounds="SOP Instance UID = a + skeleton + b with skeleton in {'/../../', '/../../../', '../../', '/.././../'} and a, b any "
           "str of length <= %d / <= %d (any code points) - the shortest directory-traversal shapes that could leave a "
           "storage directory through the 'UN.' file name prefix are 8 characters long, beyond the bound of storescp_paths "
           "in the quick tier; output directory /store, store or None" % (NA, NB),
    stubs=_STORESCP_STUBS,
    outside="as storescp_paths",
    shards=[{"dir": "abs"}, {"dir": "rel"}, {"dir": "none"}],
)
def storescp_traversal(a: str, b: str, k: int) -> bool:
    """
    pre: len(a) <= NA and len(b) <= NB
    pre: 0 <= k <= 3
    post: _ == True
    """
    key = shard("dir", "abs")
    out_dir = None if key == "none" else DIRS[key]
    return _run_storescp(a + SKELETONS[k] + b, "9.9.9", out_dir, False, False, True, False)


@harness(
    "C30",
    timeout=(150, 900),
    functions=["apps.common:handle_store"],
    bounds="every combination of: SOP Class UID from a pool of two real storage classes and one unknown class; deflated "
           "or not; target exists or not; write succeeds or raises OSError; with SOP Instance UID any str of length <= %d "
           "(any code points); output directory /store or None" % NV,
    stubs=_STORESCP_STUBS,
    outside="as storescp_paths",
    shards=[{"dir": "abs"}, {"dir": "none"}],
)
def storescp_variants(uid: str, cls_idx: int, deflated: bool, exists: bool, write_ok: bool) -> bool:
    """
    pre: len(uid) <= NV
    pre: 0 <= cls_idx <= 2
    post: _ == True
    """
    key = shard("dir", "abs")
    out_dir = None if key == "none" else DIRS[key]
    sop_class = "9.9.9" if cls_idx == 0 else CLASS_POOL[cls_idx - 1]
    return _run_storescp(uid, sop_class, out_dir, deflated, exists, write_ok, False)


@harness(
    "C30",
    timeout=(150, 900),
    functions=["apps.common:handle_store"],
    bounds="SOP Class UID any str of length <= %d (any code points) looked up in the live SOP_CLASS_PREFIXES; every other "
           "element of the data set (Modality, PatientID, ...) holds any str of length <= 3; SOP Instance UID '1.2.3'; output "
           "directory /store or None" % N,
    stubs=_STORESCP_STUBS + ["SOP_CLASS_PREFIXES wrapped in ForkingDict (lookup by symbolic key forks per entry)"],
    outside="SOP Class UIDs longer than the bound other than the two pool members of storescp_paths (no live key is "
            "shorter than 20 characters, so the symbolic class always takes the 'UN' branch)",
    shards=[{"dir": "abs"}, {"dir": "none"}],
)
def storescp_class(cls: str, deflated: bool, other: str) -> bool:
    """
    pre: len(cls) <= N
    pre: len(other) <= 3
    post: _ == True
    """
    key = shard("dir", "abs")
    out_dir = None if key == "none" else DIRS[key]
    return _run_storescp("1.2.3", cls, out_dir, deflated, False, True, True, other)


# ------------------------------------------------------------------------------------------------ qrscp
def _e2e_qrscp(args, shard_):
    """End-to-end reproducer, no stubs: the real qrscp handle_store with a real pydicom Dataset carrying the
    counterexample's SOP Instance UID, the real `os`, a fresh temporary storage directory and a real (in-memory)
    SQLite engine.  Reproduced = the real handler passes a path that os.path.realpath places outside the storage
    directory to the real Dataset.save_as.  Safety guard (decided on the path actually passed): the write is
    really performed only when the target stays inside this reproducer's own temporary directory (e.g. '../x'
    from <tmp>/store); a target anywhere else is recorded and NOT written."""
    import datetime
    import os
    import shutil
    import tempfile
    import types

    from pydicom.dataset import Dataset, FileMetaDataset
    from pydicom.uid import ImplicitVRLittleEndian, generate_uid

    import pynetdicom.apps.qrscp.handlers as handlers

    uid = args["uid"]
    key = shard_.get("dir", "abs")
    tmp = tempfile.mkdtemp(prefix="c30-e2e-")
    old_cwd = os.getcwd()
    try:
        os.chdir(tmp)
        storage_dir = DIRS[key]
        if storage_dir.startswith("/"):
            storage_dir = tmp + storage_dir
        os.makedirs(storage_dir, exist_ok=True)
        real_root = os.path.realpath(storage_dir)

        ds = Dataset()
        ds.SOPClassUID = "1.2.840.10008.5.1.4.1.1.2"
        ds.SOPInstanceUID = uid
        ds.PatientID = "P"
        ds.StudyInstanceUID = generate_uid()
        ds.SeriesInstanceUID = generate_uid()
        meta = FileMetaDataset()
        meta.TransferSyntaxUID = ImplicitVRLittleEndian
        meta.MediaStorageSOPClassUID = ds.SOPClassUID
        meta.MediaStorageSOPInstanceUID = generate_uid()
        event = types.SimpleNamespace(
            dataset=ds, file_meta=meta, timestamp=datetime.datetime.now(),
            assoc=types.SimpleNamespace(requestor=types.SimpleNamespace(address="127.0.0.1", port=104)),
            context=types.SimpleNamespace(transfer_syntax=ImplicitVRLittleEndian))

        def outside(path):
            rp = os.path.realpath(path)
            return not (rp == real_root or rp.startswith(real_root + os.sep))

        sandbox = os.path.realpath(tmp)
        escaped = []      # paths outside the storage directory that the handler passed to Dataset.save_as
        saved_save_as = Dataset.save_as

        def guarded_save_as(self, path, *a, **k):
            # decided on the path the handler ACTUALLY passes (not on a prediction of it)
            p = os.fspath(path)
            if "\x00" in p:
                raise ValueError("embedded null byte")
            if not outside(p):
                return saved_save_as(self, path, *a, **k)
            escaped.append(p)
            rp = os.path.realpath(p)
            if rp.startswith(sandbox + os.sep) and not os.path.lexists(p):
                # an escape that stays inside this reproducer's own temporary directory is really written
                return saved_save_as(self, path, *a, **k)
            # anything else is NOT written: the reproducer never touches files outside its temporary directory
            raise OSError("e2e guard: write outside the temporary directory not performed")

        Dataset.save_as = guarded_save_as
        try:
            status = handlers.handle_store(event, storage_dir, "sqlite:///:memory:", None, _Log())
        finally:
            Dataset.save_as = saved_save_as
        status = status if isinstance(status, int) else -1
        if escaped:
            p = escaped[0]
            written = os.path.isfile(p) and os.path.realpath(p).startswith(sandbox + os.sep)
            return True, "real handle_store (status 0x%04X) passes %r (-> %r) to Dataset.save_as; storage directory %r; %s" % (
                status, p, os.path.realpath(p), real_root,
                "the file was really created there" if written else
                "write not performed by the reproducer (target lies outside its temporary directory)")
        return False, "status 0x%04X, nothing written outside %r" % (status, real_root)
    finally:
        os.chdir(old_cwd)
        shutil.rmtree(tmp, ignore_errors=True)


@harness(
    "C30",
    timeout=(150, 900),
    functions=["apps.qrscp.handlers:handle_store"],
    bounds="SOP Instance UID any str of length <= %d (any code points); storage directory in {/store, store, /srv/dcm/, "
           "a/b, .}; target exists or not; the write succeeds or raises OSError" % N,
    stubs=["`os` inside pynetdicom.apps.qrscp.handlers replaced by a facade: path.join/abspath are the real posixpath "
           "functions, exists() returns a symbolic bool",
           "event/dataset stand-ins: ds[0x00030000:] returns the same object, save_as records its path",
           "create_engine / sessionmaker / add_instance / Instance inside the handlers module replaced by inert "
           "stand-ins (the database file is named by configuration, not by the peer)",
           "POSIX path semantics; the storage directory exists; no symbolic links below it"],
    outside="Windows path semantics (ntpath), symbolic links, the contents of the database",
    shards=[{"dir": k} for k in DIRS],
    findings=["C30-qrscp-path-escape"],
    e2e=_e2e_qrscp,
)
def qrscp_paths(uid: str, exists: bool, write_ok: bool) -> bool:
    """
    pre: len(uid) <= N
    pre: not kf.skip("C30-qrscp-path-escape", uid=uid, exists=exists, write_ok=write_ok)
    post: _ == True
    """
    storage_dir = DIRS[shard("dir", "abs")]
    rec = _Rec()
    ds = _FakeDS(uid, "1.2.840.10008.5.1.4.1.1.2", rec, write_ok)

    def add_instance(ds_, session, fpath=None):
        rec.db.append(fpath)

    saved = qh.os, qh.create_engine, qh.sessionmaker, qh.add_instance, qh.Instance
    qh.os = _FakeOs(rec, exists)
    qh.create_engine = lambda *a, **k: _Engine()
    qh.sessionmaker = lambda *a, **k: _Session
    qh.add_instance = add_instance
    qh.Instance = _Instance
    try:
        status = qh.handle_store(_Event(ds, "1.2.840.10008.1.2"), storage_dir, "sqlite:///:memory:", None, _Log())
    finally:
        qh.os, qh.create_engine, qh.sessionmaker, qh.add_instance, qh.Instance = saved
    if len(rec.writes) > 1 or len(rec.mkdirs) != 0:
        return False  # one C-STORE request, at most one file, no directory
    return _all_harmless(rec, storage_dir)
