"""C19 - a DIMSE request arriving on a presentation context ID that was not accepted (rejected,
never proposed, invalid) never reaches a user handler and is not answered as if it were valid.

Real code: Association._serve_request (all 11 request types, with the real service classes behind
it), Association._run_reactor (one iteration), DIMSEServiceProvider.receive_primitive (collection
and the N-EVENT-REPORT fast path), Association._wrap_get_move_responses + _c_store_scp +
_get_valid_context (C-STORE sub-operation requests received while a C-GET / C-MOVE is running).
Environment: recording stand-ins for dimse / acse / dul (vlib/stubs/assoc_e.py); the accepted
contexts are a PairDict so that their IDs can be solver-symbolic.
"""
from vlib.shim import *  # noqa: F401,F403
from vlib.h import harness, tier, shard
from vlib import kf

from pydicom.dataset import Dataset
from pydicom.uid import UID

import pynetdicom.association as am
import pynetdicom.dimse as dimse_mod
from pynetdicom import evt
from pynetdicom.dimse import DIMSEServiceProvider
from pynetdicom.dimse_primitives import (
    C_ECHO, C_FIND, C_GET, C_MOVE, C_STORE, N_ACTION, N_CREATE, N_DELETE, N_EVENT_REPORT, N_GET, N_SET,
)
from vlib.stubs.assoc_e import (
    RecordingDimse, make_assoc, mk_cx, bio, PairDict, MODE_REQUESTOR, MODE_ACCEPTOR, OneShotCheckpoint, NoSleepTime,
    Stop,
)

silence_loggers()

TS = "1.2.840.10008.1.2"
VERIF = "1.2.840.10008.1.1"
CT = "1.2.840.10008.5.1.4.1.1.2"
MR = "1.2.840.10008.5.1.4.1.1.4"
FIND = "1.2.840.10008.5.1.4.1.2.1.1"
MOVE = "1.2.840.10008.5.1.4.1.2.1.2"
GET = "1.2.840.10008.5.1.4.1.2.1.3"
FILM_SESSION = "1.2.840.10008.5.1.1.1"     # Print Management: the service class with all six DIMSE-N services

KINDS = ("C_ECHO", "C_STORE", "C_FIND", "C_GET", "C_MOVE", "N_EVENT_REPORT", "N_GET", "N_SET", "N_ACTION", "N_CREATE",
         "N_DELETE")
_SOP = {"C_ECHO": VERIF, "C_STORE": CT, "C_FIND": FIND, "C_GET": GET, "C_MOVE": MOVE}
_EVENTS = {
    "C_ECHO": evt.EVT_C_ECHO, "C_STORE": evt.EVT_C_STORE, "C_FIND": evt.EVT_C_FIND, "C_GET": evt.EVT_C_GET,
    "C_MOVE": evt.EVT_C_MOVE, "N_EVENT_REPORT": evt.EVT_N_EVENT_REPORT, "N_GET": evt.EVT_N_GET, "N_SET": evt.EVT_N_SET,
    "N_ACTION": evt.EVT_N_ACTION, "N_CREATE": evt.EVT_N_CREATE, "N_DELETE": evt.EVT_N_DELETE,
}


def sop_of(kind):
    return _SOP.get(kind, FILM_SESSION)


def mk_request(kind, msg_id=5):
    """A valid request primitive of the given type (concrete; build under untraced())."""
    cls = {"C_ECHO": C_ECHO, "C_STORE": C_STORE, "C_FIND": C_FIND, "C_GET": C_GET, "C_MOVE": C_MOVE,
           "N_EVENT_REPORT": N_EVENT_REPORT, "N_GET": N_GET, "N_SET": N_SET, "N_ACTION": N_ACTION,
           "N_CREATE": N_CREATE, "N_DELETE": N_DELETE}[kind]
    r = cls()
    r.MessageID = msg_id
    sop = sop_of(kind)
    if kind in ("C_ECHO", "C_STORE", "C_FIND", "C_GET", "C_MOVE", "N_EVENT_REPORT", "N_CREATE"):
        r.AffectedSOPClassUID = sop
    else:
        r.RequestedSOPClassUID = sop
    if kind in ("C_STORE", "N_EVENT_REPORT", "N_CREATE"):
        r.AffectedSOPInstanceUID = "1.2.3"
    if kind in ("N_GET", "N_SET", "N_ACTION", "N_DELETE"):
        r.RequestedSOPInstanceUID = "1.2.3"
    if kind == "C_STORE":
        r.Priority = 2
        r.DataSet = bio()
    if kind in ("C_FIND", "C_GET", "C_MOVE"):
        r.Priority = 2
        r.Identifier = bio()
    if kind == "C_MOVE":
        r.MoveDestination = "DEST"
    if kind == "N_EVENT_REPORT":
        r.EventTypeID = 1
    if kind == "N_ACTION":
        r.ActionTypeID = 1
    if kind == "N_SET":
        r.ModificationList = bio()
    assert r.is_valid_request, kind
    return r


def bind_all(assoc, calls):
    """Bind a recording handler with a minimal legal result to every intervention event."""

    def h_status(e):
        calls.append((e.event.name, e.context.context_id))
        return 0x0000

    def h_pair(e):
        calls.append((e.event.name, e.context.context_id))
        return 0x0000, None

    def h_find(e):
        calls.append((e.event.name, e.context.context_id))
        return
        yield  # pragma: no cover

    def h_get(e):
        calls.append((e.event.name, e.context.context_id))
        yield 0

    def h_move(e):
        calls.append((e.event.name, e.context.context_id))
        yield None, None

    for ev, h in ((evt.EVT_C_ECHO, h_status), (evt.EVT_C_STORE, h_status), (evt.EVT_N_DELETE, h_status),
                  (evt.EVT_C_FIND, h_find), (evt.EVT_C_GET, h_get), (evt.EVT_C_MOVE, h_move),
                  (evt.EVT_N_ACTION, h_pair), (evt.EVT_N_CREATE, h_pair), (evt.EVT_N_EVENT_REPORT, h_pair),
                  (evt.EVT_N_GET, h_pair), (evt.EVT_N_SET, h_pair)):
        assoc.bind(ev, h)


def _accepted(kind_sop, a1, a2, two, a3=None):
    pairs = [(a1, mk_cx(kind_sop, TS, a1, True, True))]
    if two:
        pairs.append((a2, mk_cx(kind_sop, TS, a2, True, True)))
    if a3 is not None:
        pairs.append((a3, mk_cx(kind_sop, TS, a3, True, True)))
    return PairDict(pairs)


def _judge(assoc, calls, kind, cid, ids):
    sent = assoc.dimse.sent
    if any(cid == a for a in ids):
        # accepted: served exactly once, answered on the context the request arrived on
        if len(calls) != 1 or calls[0][0] != _EVENTS[kind].name or calls[0][1] != cid:
            return False
        if len(sent) < 1 or any((s.context_id != cid or not s.is_response) for s in sent):
            return False
        return len(assoc.aborts) == 0
    # not accepted: no handler, nothing answered, association aborted
    return calls == [] and sent == [] and len(assoc.aborts) == 1


_STUBS = [
    "assoc.dimse = RecordingDimse (records every outgoing primitive); assoc.acse / assoc.dul recording stand-ins",
    "Association._abort_blocking replaced by a recorder (no transport)",
    "Association._accepted_cx is a PairDict (linear == search instead of hashing) so that accepted IDs may be symbolic",
    "every intervention event has a recording handler returning a minimal legal result",
]


@harness(
    "C19",
    timeout=(90, 600),
    shards=[{"kind": k} for k in KINDS],
    functions=["association:Association._serve_request", "sop_class:uid_to_service_class", "service_class:*.SCP",
               "events:trigger"],
    bounds="one request of each of the 11 DIMSE request types (one shard each); 1, 2 or 3 accepted contexts with any distinct "
           "odd IDs 1..255 (solver-symbolic) for the request's SOP class; arriving context ID any value 0..255 "
           "(solver-symbolic); one rejected context with any other odd ID",
    stubs=_STUBS,
    outside="requests whose SOP class differs from the abstract syntax of the (accepted) context they arrive on",
)
def serve_request_context(a1: int, a2: int, a3: int, two: bool, three: bool, rej: int, cid: int) -> bool:
    """
    pre: 1 <= a1 <= 255 and a1 % 2 == 1
    pre: 1 <= a2 <= 255 and a2 % 2 == 1 and a2 != a1
    pre: 1 <= a3 <= 255 and a3 % 2 == 1 and a3 != a1 and a3 != a2
    pre: 1 <= rej <= 255 and rej % 2 == 1 and rej != a1 and rej != a2 and rej != a3
    pre: two or not three
    pre: 0 <= cid <= 255
    post: _ == True
    """
    kind = shard("kind", "C_ECHO")
    with untraced():
        assoc = make_assoc(MODE_ACCEPTOR)
        calls = []
        bind_all(assoc, calls)
        msg = mk_request(kind)
        if kind == "C_MOVE":
            assoc.ae.associate = None  # never reached: the handler reports an unknown destination
    assoc._accepted_cx = _accepted(sop_of(kind), a1, a2, two, a3 if three else None)
    rcx = mk_cx(sop_of(kind), TS, rej, None, None)
    rcx.result = 0x03
    assoc._rejected_cx = [rcx]
    msg._context_id = cid
    assoc._serve_request(msg, cid)
    return _judge(assoc, calls, kind, cid, ([a1, a2, a3] if three else [a1, a2]) if two else [a1])


# ------------------------------------------------------------------------------------------------
# The same question one layer further out: the request enters through the real
# DIMSEServiceProvider.receive_primitive (N-EVENT-REPORT is served at once on its own thread, everything
# else is queued) and is picked up by one iteration of the real Association._run_reactor loop.
from vlib.stubs.assoc_e import FakeMessage, FakeThreading, run_reactor_iterations, make_recv_dimse  # noqa: E402


@harness(
    "C19",
    timeout=(90, 600),
    shards=[{"kind": k} for k in KINDS],
    functions=["dimse:DIMSEServiceProvider.receive_primitive", "dimse:DIMSEServiceProvider.get_msg",
               "association:Association._run_reactor", "association:Association._serve_request"],
    bounds="as serve_request_context, the request delivered through receive_primitive and served by one reactor iteration",
    stubs=_STUBS + [
        "dimse.DIMSEMessage replaced by a carrier (P-DATA reassembly / command-set codec are C15-C17)",
        "dimse.threading.Thread replaced by a synchronous stand-in (N-EVENT-REPORT fast path runs in the harness thread)",
        "assoc.dimse is the real DIMSEServiceProvider with send_msg recording; one real _run_reactor iteration "
        "(time.sleep no-op, _reactor_checkpoint single-step stub)",
    ],
    outside="pre-emption between the DUL thread and the reactor thread (delivery and reactor iteration are atomic steps)",
)
def reactor_request_context(a1: int, a2: int, two: bool, cid: int) -> bool:
    """
    pre: 1 <= a1 <= 255 and a1 % 2 == 1
    pre: 1 <= a2 <= 255 and a2 % 2 == 1 and a2 != a1
    pre: 0 <= cid <= 255
    post: _ == True
    """
    kind = shard("kind", "C_ECHO")
    with untraced():
        assoc = make_assoc(MODE_ACCEPTOR)
        assoc.dimse = make_recv_dimse(assoc)
        calls = []
        bind_all(assoc, calls)
        msg = mk_request(kind)
    assoc._accepted_cx = _accepted(sop_of(kind), a1, a2, two)
    saved = (dimse_mod.DIMSEMessage, dimse_mod.threading)
    dimse_mod.DIMSEMessage = FakeMessage
    dimse_mod.threading = FakeThreading
    try:
        assoc.dimse.receive_primitive((cid, msg))
        run_reactor_iterations(assoc, am, 1)
    finally:
        dimse_mod.DIMSEMessage, dimse_mod.threading = saved
    if assoc.dimse.msg_queue.qsize() != 0 or assoc.dimse.message is not None:
        return False
    return _judge(assoc, calls, kind, cid, [a1, a2] if two else [a1])


# ------------------------------------------------------------------------------------------------
# One layer further out again: the request arrives as P-DATA, its PDVs labelled with presentation context IDs by the
# peer.  The real DIMSEMessage.decode_msg reassembles it; the context the message "arrived on" is the one of its command
# set (PS3.8: all PDVs of a message belong to one context; a peer that labels the data-set PDVs differently must not be
# able to move the request onto another - accepted - context).
from pynetdicom.dimse_messages import C_STORE_RQ  # noqa: E402
from pynetdicom.pdu_primitives import P_DATA  # noqa: E402


def _store_pdata(cmd_cid, data_cid):
    """P-DATA primitives of a valid C-STORE-RQ (real encoder, concrete), PDV context ids replaced."""
    with untraced():
        req = mk_request("C_STORE")
        m = C_STORE_RQ()
        m.primitive_to_message(req)
        frags = [list(p.presentation_data_value_list) for p in m.encode_msg(1, 0)]
    out = []
    for pdvs in frags:
        p = P_DATA()
        lst = []
        for _cid, data in pdvs:
            is_command = (data[0] & 1) == 1
            lst.append([cmd_cid if is_command else data_cid, data])
        p.presentation_data_value_list = lst
        out.append(p)
    return out


@harness(
    "C19",
    timeout=(90, 600),
    functions=["dimse:DIMSEServiceProvider.receive_primitive", "dimse_messages:DIMSEMessage.decode_msg",
               "dimse_messages:DIMSEMessage.message_to_primitive", "association:Association._run_reactor",
               "association:Association._serve_request"],
    bounds="a valid C-STORE request delivered as P-DATA whose command-set PDVs carry context ID cmd_cid and whose data-set PDVs "
           "carry data_cid (both any value 0..255, solver-symbolic); one accepted context with any odd ID",
    stubs=_STUBS + ["assoc.dimse is the real DIMSEServiceProvider with the real DIMSEMessage (send_msg recording); one real "
                    "_run_reactor iteration"],
    outside="more than one message; PDVs of other messages interleaved",
)
def pdata_context_labels(a1: int, cmd_cid: int, data_cid: int) -> bool:
    """
    pre: 1 <= a1 <= 255 and a1 % 2 == 1
    pre: 0 <= cmd_cid <= 255 and 0 <= data_cid <= 255
    post: _ == True
    """
    with untraced():
        assoc = make_assoc(MODE_ACCEPTOR)
        assoc.dimse = make_recv_dimse(assoc)
        calls = []
        bind_all(assoc, calls)
    assoc._accepted_cx = _accepted(sop_of("C_STORE"), a1, a1, False)
    for p in _store_pdata(cmd_cid, data_cid):
        assoc.dimse.receive_primitive(p)
    if assoc.dimse.msg_queue.qsize() != 1:
        return False
    queued_cid = assoc.dimse.msg_queue.queue[0][0]
    if not (queued_cid == cmd_cid):
        return False                      # the message belongs to the context of its command set
    run_reactor_iterations(assoc, am, 1)
    return _judge(assoc, calls, "C_STORE", cmd_cid, [a1])


# ------------------------------------------------------------------------------------------------
# C-STORE sub-operation requests received by the *requestor* while its C-GET / C-MOVE is running.
class SubopPeer(RecordingDimse):
    """The peer's messages during a C-GET: one C-STORE request on `cid`, then the final C-GET response."""

    def __init__(self, cid, sop):
        RecordingDimse.__init__(self)
        self.cid, self.sop, self.pos = cid, sop, 0

    def get_msg(self, block=False):
        self.pos += 1
        if self.pos == 1:
            r = C_STORE()
            r.MessageID = 7
            r.AffectedSOPClassUID = self.sop
            r.AffectedSOPInstanceUID = "1.2.3"
            r.Priority = 2
            r.DataSet = bio()
            r._context_id = self.cid
            return self.cid, r
        if self.pos == 2:
            r = C_GET()
            r.MessageIDBeingRespondedTo = 1
            r.Status = 0x0000
            return 1, r
        return None, None


@harness(
    "C19",
    timeout=(90, 600),
    functions=["association:Association._wrap_get_move_responses", "association:Association._c_store_scp",
               "association:Association._get_valid_context", "events:trigger"],
    bounds="a C-STORE request for CT Image Storage arriving on any context ID 0..255 (solver-symbolic) during a C-GET; 1 or 2 "
           "accepted contexts with any distinct odd IDs: the first for CT (SCP role held or not), the second for CT or MR",
    stubs=_STUBS + ["the peer's messages come from a stand-in for assoc.dimse: the C-STORE request, then the final C-GET "
                    "response, then DIMSE timeout"],
    outside="the request's context ID and the primitive's _context_id differing (both come from the same PDV in the real code)",
    findings=["C19-substore-unaccepted-context"],
)
def substore_context(a1: int, a2: int, two: bool, scp1: bool, second_is_ct: bool, cid: int) -> bool:
    """
    pre: 1 <= a1 <= 255 and a1 % 2 == 1
    pre: 1 <= a2 <= 255 and a2 % 2 == 1 and a2 != a1
    pre: 0 <= cid <= 255
    pre: not kf.skip("C19-substore-unaccepted-context", a1=a1, a2=a2, two=two, scp1=scp1, second_is_ct=second_is_ct, cid=cid)
    post: _ == True
    """
    with untraced():
        assoc = make_assoc(MODE_REQUESTOR)
        calls = []
        bind_all(assoc, calls)
    pairs = [(a1, mk_cx(CT, TS, a1, True, scp1))]
    if two:
        pairs.append((a2, mk_cx(CT if second_is_ct else MR, TS, a2, True, True)))
    assoc._accepted_cx = PairDict(pairs)
    assoc.dimse = SubopPeer(cid, CT)
    out = []
    for st, ident in assoc._wrap_get_move_responses(UID(TS)):
        out.append(st)
    sent = assoc.dimse.sent
    on_first = cid == a1
    on_second = two and cid == a2
    if not on_first and not on_second:
        # the context was never accepted: no handler, not answered as if it were valid
        if calls != []:
            return False
        if any(s.status == 0x0000 for s in sent):
            return False
        return True
    if (on_first and scp1) or (on_second and second_is_ct):
        # a legal sub-operation: served once on the context it arrived on, the C-GET goes on
        if calls != [("EVT_C_STORE", cid)]:
            return False
        if len(sent) != 1 or sent[0].context_id != cid or sent[0].status != 0x0000:
            return False
        return len(out) == 1 and "Status" in out[0] and out[0].Status == 0x0000 and assoc.aborts == []
    return True
