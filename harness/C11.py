"""C11 - requestor and acceptor end up with the same view of the negotiated contexts.

Real code on both sides: ACSE._negotiate_as_requestor / send_request / negotiate_as_requestor on a requestor-mode
Association, Association.run_reactor (acceptor branch) / ACSE._negotiate_as_acceptor / send_accept /
negotiate_as_acceptor (or negotiate_unrestricted) on an acceptor-mode Association, ServiceUser bookkeeping on both, and
in between the real A-ASSOCIATE-RQ / A-ASSOCIATE-AC codec (pdu.py, pdu_items.py) through LoopbackWire.

No oracle is needed: the property compares the two sides with each other.  That the acceptor's side is the one
PS3.7 / PS3.8 and the documented role table prescribe is C10; C10 and C11 together pin the requestor's side.
"""
from vlib.shim import *  # noqa: F401,F403
from vlib.h import harness, tier, shard
from vlib import kf

from pynetdicom import AE, _config
from pynetdicom._globals import MODE_ACCEPTOR, MODE_REQUESTOR
from pynetdicom.association import Association
from pynetdicom.pdu import A_ASSOCIATE_AC, A_ASSOCIATE_RQ
from pynetdicom.pdu_primitives import SCP_SCU_RoleSelectionNegotiation
from pynetdicom.presentation import PresentationContext

from vlib.stubs.loopback import LoopbackWire

silence_loggers()

AB = ["1.2.840.10008.1.1", "1.2.840.10008.5.1.4.1.1.2", "1.2.840.10008.5.1.4.1.1.4"]
TS = ["1.2.840.10008.1.2", "1.2.840.10008.1.2.1", "1.2.840.10008.1.2.2"]
# index 3, 4: only used with the unrestricted storage service (private root / unassigned DICOM-root UID)
AB5 = AB + ["1.2.826.0.1.3680043.9.3811.9.9", "1.2.840.10008.5.1.4.1.1.9999"]


def _opt(is_set, value):
    if not is_set:
        return None
    return True if value else False


def _cx(cid, ab, tss, scu=None, scp=None):
    cx = PresentationContext()
    cx.context_id = cid
    cx.abstract_syntax = ab
    cx.transfer_syntax = list(tss)
    cx.scu_role = scu
    cx.scp_role = scp
    return cx


def _role_item(uid, scu, scp):
    it = SCP_SCU_RoleSelectionNegotiation()
    it.sop_class_uid = uid
    it.scu_role = scu
    it.scp_role = scp
    return it


def _pair():
    """Two real Associations joined by the loopback wire (call inside untraced())."""
    rq = Association(AE(ae_title="RQ"), MODE_REQUESTOR)
    ac = Association(AE(ae_title="AC"), MODE_ACCEPTOR)
    rq.requestor.ae_title = "RQ"
    rq.acceptor.ae_title = "AC"
    ac.acceptor.ae_title = "AC"
    wire = LoopbackWire(rq, ac)
    return rq, ac, wire


def agree(rq, ac, wire, requested):
    """The assertions of C11 on the two associations after negotiation.  True or a reason string.

    requested: [(id, abstract syntax, [ts...])]"""
    if len(wire.log) < 2 or not isinstance(wire.log[0][2], A_ASSOCIATE_RQ) or not isinstance(wire.log[1][2], A_ASSOCIATE_AC):
        return "no A-ASSOCIATE-RQ / A-ASSOCIATE-AC exchange on the wire"
    for _d, data, _p in wire.log:
        if has_sentinel(bytes(data)):
            return "formatted-number sentinel on the wire"
    r_acc, r_rej = rq.accepted_contexts, rq.rejected_contexts
    a_acc = ac.accepted_contexts
    # every requested context exactly once on the requestor side, as accepted or rejected
    for (cid, ab, _tss) in requested:
        n_acc = len([c for c in r_acc if c.context_id == cid])
        n_rej = len([c for c in r_rej if c.context_id == cid])
        if n_acc + n_rej != 1:
            return "requested id %r appears %d times on the requestor side" % (cid, n_acc + n_rej)
        c = [c for c in r_acc + r_rej if c.context_id == cid][0]
        if c.abstract_syntax != ab:
            return "requestor side: id %r has abstract syntax %r" % (cid, c.abstract_syntax)
    if len(r_acc) + len(r_rej) != len(requested):
        return "requestor side holds contexts that were not requested"
    if any(c.result != 0 for c in r_acc) or any(c.result == 0 for c in r_rej):
        return "requestor side: accepted/rejected bookkeeping mixes results"
    # same accepted ids, abstract and transfer syntaxes; complementary roles
    if sorted(c.context_id for c in r_acc) != sorted(c.context_id for c in a_acc):
        return "accepted ids differ: requestor %r, acceptor %r" % (
            sorted(c.context_id for c in r_acc), sorted(c.context_id for c in a_acc))
    for c in r_acc:
        d = [x for x in a_acc if x.context_id == c.context_id][0]
        if c.abstract_syntax != d.abstract_syntax:
            return "id %r: abstract syntaxes differ" % (c.context_id,)
        if len(c.transfer_syntax) != 1 or c.transfer_syntax != d.transfer_syntax:
            return "id %r: transfer syntaxes differ: %r / %r" % (c.context_id, c.transfer_syntax, d.transfer_syntax)
        if c.as_scu != d.as_scp or c.as_scp != d.as_scu:
            return "id %r: roles not complementary: requestor (scu=%r, scp=%r), acceptor (scu=%r, scp=%r)" % (
                c.context_id, c.as_scu, c.as_scp, d.as_scu, d.as_scp)
    return True


def _e2e(requested, roles, supported, unrestricted):
    """End-to-end reproducer without any stub: two real AEs over a localhost socket (ephemeral port), public API only.
    Returns (reproduced, detail): reproduced = the two sides' accepted contexts are not complementary / equal."""
    from pynetdicom import evt, build_role, build_context

    if not supported and not unrestricted:
        return False, "not expressible through the public API: AE.start_server refuses an empty supported list"
    seen = {}

    def on_established(event):
        seen["ac"] = [(c.context_id, str(c.abstract_syntax), [str(t) for t in c.transfer_syntax], c.as_scu, c.as_scp)
                      for c in event.assoc.accepted_contexts]

    saved = _config.UNRESTRICTED_STORAGE_SERVICE
    _config.UNRESTRICTED_STORAGE_SERVICE = bool(unrestricted)
    srv = None
    try:
        scp = AE(ae_title="AC")
        for (ab, tss, cu, cp) in supported:
            scp.add_supported_context(ab, list(tss), scu_role=cu, scp_role=cp)
        srv = scp.start_server(("127.0.0.1", 0), block=False, evt_handlers=[(evt.EVT_ESTABLISHED, on_established)])
        port = srv.socket.getsockname()[1]
        scu = AE(ae_title="RQ")
        cxs = [build_context(ab, list(tss)) for (_cid, ab, tss) in requested]     # AE.associate numbers them 1, 3, ...
        ext = [build_role(uid, scu_role=r[0], scp_role=r[1]) for uid, r in roles.items()]
        assoc = scu.associate("127.0.0.1", port, contexts=cxs, ae_title="AC", ext_neg=ext)
        rq_view = [(c.context_id, str(c.abstract_syntax), [str(t) for t in c.transfer_syntax], c.as_scu, c.as_scp)
                   for c in assoc.accepted_contexts]
        if assoc.is_established:
            assoc.release()
        ac_view = seen.get("ac", [])
        bad = sorted(v[:3] for v in rq_view) != sorted(v[:3] for v in ac_view)
        for v in rq_view:
            for w in ac_view:
                if v[0] == w[0] and (v[3] != w[4] or v[4] != w[3]):
                    bad = True
        return bad, "requestor view (id, abstract, ts, as_scu, as_scp) %r / acceptor view %r" % (rq_view, ac_view)
    finally:
        _config.UNRESTRICTED_STORAGE_SERVICE = saved
        if srv is not None:
            srv.shutdown()


def _b(v):
    return v is True or v == "True"


def _e2e_two_sided(args, sh):
    a2 = A2[sh.get("a2", 1)]
    tss = [TS[0], TS[1]] if sh.get("wide", 1) else [TS[2]]
    ts3 = [TS[0]] if sh.get("n3", 0) else [TS[0], TS[2]]
    requested = [(1, AB[1], tss)] + ([(3, AB[a2], ts3)] if a2 is not None else [])
    roles = {AB[1]: (_b(args["rq_scu"]), _b(args["rq_scp"]))} if _b(args["has_role"]) else {}
    if roles and _b(args.get("as_none", False)):
        roles = {AB[1]: (roles[AB[1]][0] or None, roles[AB[1]][1] or None)}
    supported = []
    if _b(args["sup1"]):
        supported.append((AB[1], [TS[1], TS[2]], _opt(_b(args["scu_set"]), _b(args["cfg_scu"])),
                          _opt(_b(args["scp_set"]), _b(args["cfg_scp"]))))
    if sh.get("sup0", 1):
        supported.append((AB[0], [TS[2], TS[0]], None, None))
    return _e2e(requested, roles, supported, False)


def _e2e_unrestricted(args, sh):
    a1 = AB5[sh.get("u", 1)]
    requested = [(1, a1, [TS[0], TS[1]]), (3, AB5[0], [TS[0]])]
    roles = {a1: (_b(args["rq_scu"]), _b(args["rq_scp"]))} if _b(args["has_role"]) else {}
    supported = [(AB5[0], [TS[0]], None, None)]
    if _b(args["sup1"]):
        cfg = True if _b(args["cfg_set"]) else None
        if a1 != AB5[0]:
            supported.append((a1, [TS[1]], cfg, cfg))
        else:
            supported = [(AB5[0], [TS[0]], cfg, cfg)]
    return _e2e(requested, roles, supported, True)


A2 = [None, 0, 1, 2]
NONE_FLAGS = tier(False, True)          # thorough: a not-proposed role may also be given as None instead of False
A2_TIER = tier([1, 2], [0, 1, 2, 3])     # quick: second context = Verification or the same abstract syntax again


def _two_sided_shards():
    base = [{"a2": i, "wide": w, "sup0": s0} for i in A2_TIER for w in (0, 1) for s0 in (0, 1)]
    # same abstract syntax proposed twice, the second time with a transfer syntax the acceptor does not support:
    # accepted context + rejected duplicate (seeded change C11-role-reply-dropped-by-later-rejected-duplicate)
    return base + [{"a2": 2, "wide": w, "sup0": s0, "n3": 1} for w in (0, 1) for s0 in (0, 1)]


@harness(
    "C11", timeout=(170, 900),
    functions=["acse:ACSE._negotiate_as_requestor", "acse:ACSE.send_request", "presentation:negotiate_as_requestor",
               "association:Association.run_reactor", "acse:ACSE._negotiate_as_acceptor", "acse:ACSE.send_accept",
               "presentation:negotiate_as_acceptor", "pdu:A_ASSOCIATE_RQ.from_primitive", "pdu:PDU.encode", "pdu:PDU.decode",
               "pdu:A_ASSOCIATE_RQ.to_primitive", "pdu:A_ASSOCIATE_AC.from_primitive", "pdu:A_ASSOCIATE_AC.to_primitive",
               "association:ServiceUser.role_selection"],
    bounds="requested contexts: id 1 = abstract syntax AB[1] with one of two transfer-syntax lists, id 3 = "
           + ("Verification or AB[1] again" if len(A2_TIER) == 2 else "absent or any of the pool of 3")
           + " (one shard per choice; the repeated AB[1] also with a transfer-syntax list the acceptor does not support, so that "
           "an accepted context is followed by a rejected duplicate); role item for AB[1] absent or any of the three proposals a requestor can encode"
           + (" (not-proposed flag given as False or as None)" if NONE_FLAGS else "") + "; AB[1] "
           "supported or not on the acceptor with role settings in {None, True, False}^2; Verification supported or not; role "
           "flags and settings solver-symbolic, list shapes are shard parameters",
    stubs=["LoopbackWire/FakeDUL: the real RQ/AC PDU classes encode and decode, delivery is synchronous; DUL state machine, "
           "TCP, timers and threads are not in the loop (vlib/stubs/loopback.py)",
           "the acceptor's DIMSE reactor loop (_run_reactor) is switched off",
           "AE() and Association() are built untraced (concrete)",
           "abstract/transfer syntax UIDs are fixed pool members",
           "a role item proposing neither role cannot be encoded by a pynetdicom requestor "
           "(SCP_SCU_RoleSelectionNegotiation.from_primitive raises, documented) and is excluded"],
    outside="more than 2 requested / 2 supported contexts; extended negotiation other than role selection; the "
            "unrestricted storage mode (harness two_sided_unrestricted)",
    shards=_two_sided_shards,
    e2e=_e2e_two_sided,
)
def two_sided(has_role: bool, rq_scu: bool, rq_scp: bool, as_none: bool, sup1: bool, scu_set: bool, cfg_scu: bool,
              scp_set: bool, cfg_scp: bool) -> bool:
    """
    pre: (not has_role) or rq_scu or rq_scp
    pre: NONE_FLAGS or not as_none
    post: _ == True
    """
    a2 = A2[shard("a2", 1)]
    wide, sup0 = shard("wide", 1), shard("sup0", 1)
    with untraced():
        rq, ac, wire = _pair()
    tss = [TS[0], TS[1]] if wide else [TS[2]]
    requested = [(1, AB[1], tss)]
    if a2 is not None:
        requested.append((3, AB[a2], [TS[0]] if shard("n3", 0) else [TS[0], TS[2]]))
    roles = {}
    if has_role:
        roles[AB[1]] = (True if rq_scu else False, True if rq_scp else False)
    supported = []
    if sup1:
        supported.append((AB[1], [TS[1], TS[2]], _opt(scu_set, cfg_scu), _opt(scp_set, cfg_scp)))
    if sup0:
        supported.append((AB[0], [TS[2], TS[0]], None, None))
    rq.requestor.requested_contexts = [_cx(c, a, t) for (c, a, t) in requested]
    for uid in roles:
        # a role the user leaves unset (None) is documented to mean False
        unset = None if (has_role and as_none) else False
        rq.requestor.add_negotiation_item(_role_item(uid, roles[uid][0] or unset, roles[uid][1] or unset))
    ac.acceptor.supported_contexts = [_cx(None, a, t, u, p) for (a, t, u, p) in supported]
    rq.acse.negotiate_association()
    return agree(rq, ac, wire, requested)


# ------------------------------------------------------------------------------------------------------------
U_TIER = tier([0, 1, 3], [0, 1, 2, 3, 4])


@harness(
    "C11", timeout=(170, 900),
    functions=["acse:ACSE._negotiate_as_requestor", "presentation:negotiate_as_requestor",
               "association:Association.run_reactor", "acse:ACSE._negotiate_as_acceptor",
               "presentation:negotiate_unrestricted", "presentation:negotiate_as_acceptor",
               "pdu:A_ASSOCIATE_RQ.from_primitive", "pdu:PDU.encode", "pdu:PDU.decode", "pdu:A_ASSOCIATE_AC.to_primitive"],
    bounds="acceptor with _config.UNRESTRICTED_STORAGE_SERVICE = True; requested: id 1 = one of the pool "
           "(Verification, CT storage, MR storage, private root, unassigned DICOM-root UID; one shard each"
           + (", quick: 3 of the 5" if len(U_TIER) == 3 else "") + ") and id 3 = Verification; role item for the first "
           "abstract syntax absent or any encodable proposal; first abstract syntax also configured as supported or not "
           "(roles None or (True, True)); Verification supported",
    stubs=["LoopbackWire/FakeDUL as in two_sided", "_config.UNRESTRICTED_STORAGE_SERVICE is set for the call and restored",
           "storage / not-storage classification of the pool written down from PS3.4 in the harness"],
    outside="as two_sided",
    shards=[{"u": u} for u in U_TIER],
    findings=["C11-unrestricted-default-role"],
    e2e=_e2e_unrestricted,
)
def two_sided_unrestricted(has_role: bool, rq_scu: bool, rq_scp: bool, sup1: bool, cfg_set: bool) -> bool:
    """
    pre: (not has_role) or rq_scu or rq_scp
    pre: not kf.skip("C11-unrestricted-default-role", has_role=has_role)
    post: _ == True
    """
    a1 = AB5[shard("u", 1)]
    with untraced():
        rq, ac, wire = _pair()
    requested = [(1, a1, [TS[0], TS[1]]), (3, AB5[0], [TS[0]])]
    roles = {}
    if has_role:
        roles[a1] = (True if rq_scu else False, True if rq_scp else False)
    supported = [(AB5[0], [TS[0]], None, None)]
    if sup1:
        cfg = True if cfg_set else None
        if a1 != AB5[0]:
            supported.append((a1, [TS[1]], cfg, cfg))
        else:       # supported abstract syntaxes are unique: Verification itself carries the role settings
            supported = [(AB5[0], [TS[0]], cfg, cfg)]
    rq.requestor.requested_contexts = [_cx(c, a, t) for (c, a, t) in requested]
    for uid in roles:
        rq.requestor.add_negotiation_item(_role_item(uid, roles[uid][0], roles[uid][1]))
    ac.acceptor.supported_contexts = [_cx(None, a, t, u, p) for (a, t, u, p) in supported]
    saved = _config.UNRESTRICTED_STORAGE_SERVICE
    _config.UNRESTRICTED_STORAGE_SERVICE = True
    try:
        rq.acse.negotiate_association()
    finally:
        _config.UNRESTRICTED_STORAGE_SERVICE = saved
    return agree(rq, ac, wire, requested)
