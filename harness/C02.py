"""C02 - arbitrary received bytes never crash the provider or yield unstable PDUs.

Real code: DULServiceProvider._read_pdu_data / _decode_pdu, AssociationSocket.recv, and everything on the
decode side of pdu.py / pdu_items.py / utils.py (plus encode, for the stability check).
Environment: a FakeRawSocket holding the (symbolic) bytes the peer sent; after them the peer either closes or
stays silent (socket timeout configured -> TimeoutError).

Assertions on every path (function `judge`):
  (a) `_read_pdu_data` returns: no exception escapes (the exhaustive exploration itself shows the decoder
      terminates on every input inside the bound);
  (b) exactly one event is queued; it is the event of a PDU type (Evt3/4/6/10/12/13/16) with exactly one PDU of
      the matching class queued, or Evt17 / Evt19 with no PDU queued;
  (c) a queued PDU is stable: pdu.encode() succeeds, decodes again without error, and the result equals pdu;
  (d) no false rejection: bytes produced by the reference encoder (spec/ps38_layout.py) from a legal value,
      and fixed-size / P-DATA-TF buffers the reference parser accepts with legal field values, yield the event
      of their type.
"""
from typing import List

from vlib.shim import *  # noqa: F401,F403
from vlib.h import excluded, harness, tier, shard
from vlib import kf
from vlib.stubs.fakesocket import FakeRawSocket, make_provider, drain

from spec import ps38_layout as L

from pynetdicom import pdu as P

silence_loggers()
# pydicom.uid.UID.__new__ validates its value and calls warnings.warn(); Python's warning registry ("show once per
# location") is state that survives from one explored path to the next (CrossHair: NotDeterministic).  Warnings
# are not a subject of the property.
import warnings  # noqa: E402

warnings.simplefilter("ignore")

PDU_EVENTS = {"Evt6": P.A_ASSOCIATE_RQ, "Evt3": P.A_ASSOCIATE_AC, "Evt4": P.A_ASSOCIATE_RJ, "Evt10": P.P_DATA_TF,
              "Evt12": P.A_RELEASE_RQ, "Evt13": P.A_RELEASE_RP, "Evt16": P.A_ABORT_RQ}


def concrete(x):
    if is_tracing():
        from crosshair.core import realize
        return realize(x)
    return x


def fixlen(b):
    """Same bytes, length realised first (solver-enumerated), content symbolic (see harness/C01.py).
    Only for buffers whose *structure* is concrete: when item lengths inside the buffer are symbolic, CrossHair's
    native symbolic bytes (slices stay symbolic) are far cheaper than a list of symbolic ints (every slice bound
    is realised) - measured on P-DATA-TF: 4 paths against > 800."""
    n = concrete(len(b))
    return bytes([b[i] for i in range(n)])


import builtins

from pynetdicom import dul as dul_mod


def receive(data, closed, size=None):
    """Run the real receive path once on the peer bytes `data` (`size` = their concrete number, if known);
    returns (events, pdus) or None when an exception escaped `_read_pdu_data`.

    `_decode_pdu` starts with `b = bytes(bytestream)`: the bytearray pynetdicom accumulated chunk by chunk.  Under
    CrossHair that value is a concatenation tree whose slices realise every symbolic bound (measured: > 800 paths
    for a 5-byte P-DATA-TF body against 4).  For the duration of the call the name `bytes` inside pynetdicom.dul
    is bound to a function that returns the *equal* prefix `data[:len(x)]` of the source buffer - only after
    checking `x == data[:len(x)]`; if the provider assembled anything else, the real bytes(x) is used."""
    raw = FakeRawSocket(data, (), closed=closed, timeout=30, size=size)
    with untraced():
        d = make_provider(raw)

    def same_bytes(x=b"", *a):
        if a or not isinstance(x, bytearray):
            return builtins.bytes(x, *a)
        total = len(data) if size is None else size
        src = data if len(x) == total else data[:len(x)]     # (a slice with concrete bounds is list-backed again)
        if len(src) == len(x) and x == src:
            return src
        return builtins.bytes(x)

    had = "bytes" in dul_mod.__dict__
    saved = dul_mod.__dict__.get("bytes")
    dul_mod.bytes = same_bytes
    try:
        d._read_pdu_data()
    except Exception:
        return None
    finally:
        if had:
            dul_mod.bytes = saved
        else:
            del dul_mod.bytes
    return drain(d.event_queue), drain(d._recv_pdu)


def stable(pdu):
    """(c): encode, decode again, equal - and none of the three steps raises."""
    try:
        enc = pdu.encode()
        q = type(pdu)()
        q.decode(enc)
        return bool(q == pdu) and not (q != pdu)
    except Exception:
        return False


def judge(res, must_accept=None):
    """(a)-(c); with `must_accept` = an event name also (d)."""
    if res is None:
        return False
    events, pdus = res
    if len(events) != 1:
        return False
    ev = events[0]
    if must_accept is not None and ev != must_accept:
        return False
    if ev == "Evt17" or ev == "Evt19":
        return len(pdus) == 0
    cls = PDU_EVENTS.get(ev)
    if cls is None or len(pdus) != 1 or type(pdus[0]) is not cls:
        return False
    return stable(pdus[0])


# ---------------------------------------------------------------------------------------------
# 1. the 6-byte header alone: type, reserved, length all symbolic, a short body
# ---------------------------------------------------------------------------------------------
@harness(
    "C02", timeout=(90, 600),
    functions=["dul:DULServiceProvider._read_pdu_data", "dul:DULServiceProvider._decode_pdu", "transport:AssociationSocket.recv"],
    bounds="PDU type any 0..255, reserved byte any, length field any 0..2^32-1, 0..3 body bytes (any), or a header "
           "truncated to 0..5 bytes; afterwards the peer closes or stays silent (socket timeout set)",
    stubs=["FakeRawSocket (vlib/stubs/fakesocket.py); provider built without Thread/Association (make_provider)"],
    outside="a silent peer with no socket timeout configured (blocking for ever is C08)",
)
def header(t: int, r: int, ln: int, body: bytes, keep: int, closed: bool) -> bool:
    """
    pre: 0 <= t <= 255 and 0 <= r <= 255 and 0 <= ln <= 4294967295
    pre: len(body) <= 3 and 0 <= keep <= 6
    pre: keep == 6 or (len(body) == 0 and t == 1 and r == 0 and ln == 4)
    post: _ == True
    """
    body = fixlen(body)
    keep = concrete(keep)
    data = (L.u8(t) + L.u8(r) + L.u32(ln))[:keep] + (body if keep == 6 else b"")
    res = receive(data, closed)
    if not judge(res):
        return False
    ev = res[0][0]
    if keep < 6:
        return ev == "Evt17"                       # connection ended inside the header
    if not (1 <= t <= 7):
        return ev == "Evt19"                       # unrecognised PDU type
    if ln > len(body):
        return ev == "Evt17"                       # connection ended inside the PDU
    return True


# ---------------------------------------------------------------------------------------------
# 2. fixed-size PDUs: all ten bytes symbolic
# ---------------------------------------------------------------------------------------------
def legal_fixed(v):
    """Field values PS3.8 Tables 9-21 / 9-24..9-26 allow (reserved bytes are not tested on receipt)."""
    if v[0] == "RJ":
        _, result, source, reason = v
        if not (1 <= result <= 2):
            return False
        if source == 1:
            return reason in (1, 2, 3, 7)
        if source == 2:
            return reason in (1, 2)
        if source == 3:
            return reason in (1, 2)
        return False
    if v[0] == "ABORT":
        _, source, reason = v
        if source == 0:
            return True                            # reason not significant for a service-user abort
        if source == 2:
            return reason in (0, 1, 2, 4, 5, 6)
        return False
    return True


@harness(
    "C02", timeout=(90, 600),
    functions=["dul:DULServiceProvider._read_pdu_data", "dul:DULServiceProvider._decode_pdu", "pdu:A_ASSOCIATE_RJ.decode/encode",
               "pdu:A_RELEASE_RQ.*", "pdu:A_RELEASE_RP.*", "pdu:A_ABORT_RQ.decode/encode"],
    bounds="any 10 bytes whose first byte is 3, 5, 6 or 7 (A-ASSOCIATE-RJ, A-RELEASE-RQ/RP, A-ABORT), optionally followed by one more byte",
    stubs=["FakeRawSocket; make_provider"],
    outside="",
)
def fixed_pdu(data: bytes, closed: bool) -> bool:
    """
    pre: 10 <= len(data) <= 11
    pre: data[0] == 3 or data[0] == 5 or data[0] == 6 or data[0] == 7
    post: _ == True
    """
    data = fixlen(data)
    res = receive(data, closed)
    if not judge(res):
        return False
    # (d) what the reference parser accepts with legal field values must be accepted
    ln = ((data[2] * 256 + data[3]) * 256 + data[4]) * 256 + data[5]
    if ln == 4:
        t = data[0]
        v = (("RJ", data[7], data[8], data[9]) if t == 3 else ("RELRQ",) if t == 5 else ("RELRP",) if t == 6
             else ("ABORT", data[8], data[9]))
        if legal_fixed(v):
            if res[0][0] != L.EVENT_OF[v[0]]:
                return False
            pdu = res[1][0]
            if t == 3:
                return pdu.result == v[1] and pdu.source == v[2] and pdu.reason_diagnostic == v[3]
            if t == 7:
                return pdu.source == v[1] and pdu.reason_diagnostic == v[2]
    return True


# ---------------------------------------------------------------------------------------------
# 3. P-DATA-TF with a fully symbolic body
# ---------------------------------------------------------------------------------------------
N_PDATA = tier(12, 18)


@harness(
    "C02", timeout=(120, 900),
    shards=lambda: [{"n": n} for n in range(0, N_PDATA + 1)],
    functions=["dul:DULServiceProvider._read_pdu_data", "pdu:P_DATA_TF.decode/_generate_items/_wrap_generate_items/encode",
               "pdu_items:PresentationDataValueItem.encode"],
    bounds="04 00 + correct length + any body of 0..%d bytes (one shard per body length)" % N_PDATA,
    stubs=["FakeRawSocket; make_provider"],
    outside="longer bodies",
)
def pdata_body(body: bytes, closed: bool) -> bool:
    """
    pre: len(body) == shard("n", 0)
    post: _ == True
    """
    n = shard("n", 0)
    data = b"\x04\x00" + L.u32(n) + body
    res = receive(data, closed, 6 + n)
    if not judge(res):
        return False
    # (d): the reference parser accepts it as >= 1 well-formed PDV items, each with a control header byte
    try:
        v = L.parse_pdu(data)
    except L.LayoutError:
        return True
    if len(v[1]) >= 1 and all(len(d) >= 1 for _, d in v[1]):
        if res[0][0] != "Evt10":
            return False
        got = [(i.presentation_context_id, i.presentation_data_value) for i in res[1][0].presentation_data_value_items]
        if len(got) != len(v[1]):
            return False
        return all(g[0] == w[0] and bytes(g[1]) == w[1] for g, w in zip(got, v[1]))
    return True


# ---------------------------------------------------------------------------------------------
# 4./5. A-ASSOCIATE-RQ / -AC from templates: concrete bytes with symbolic "holes"
# ---------------------------------------------------------------------------------------------
# The whole PDU is ONE symbolic `bytes` argument; the concrete parts of the template are imposed by slice-equality
# preconditions.  (A buffer assembled as concrete + symbolic + concrete is a concatenation tree for CrossHair and
# every slice with a symbolic bound - i.e. every item length read from the buffer - is realised value by value;
# a single symbolic bytes object keeps such slices symbolic.)
#
# Strings: pydicom.uid.UID and the AE-title validator (unicodedata) are C code, so every symbolic character that
# reaches them is enumerated (one path per character value).  Templates therefore keep at most one or two
# symbolic characters inside any string field and spend the symbolic bytes on types, reserved bytes, length
# fields, numbers and binary payloads - the corners the property text names (length fields pointing past the end,
# items nested in items, trailing padding, unknown types, zero and oversize lengths).
FIXED = L.u16(1) + b"\x00\x00" + L.ae16("ANY-SCP") + L.ae16("ECHOSCU") + b"\x00" * 32      # bytes 7..74
APP = L.encode_item(("app", "1.2.840.10008.3.1.1.1"))
PC = {"RQ": L.encode_item(("pcrq", 1, [("abs", "1.2.840.10008.1.1"), ("ts", "1.2.840.10008.1.2")])),
      "AC": L.encode_item(("pcac", 1, 0, [("ts", "1.2.840.10008.1.2")]))}
UI_MIN = L.encode_item(("ui", [("maxlen", 16382), ("impl_uid", "1.2.3")]))
ML = L.encode_subitem(("maxlen", 16382))


def S(n):
    """n symbolic bytes"""
    return ("S", n)


def ISL(b):
    """concrete bytes that belong to the symbolic part (an "island"): used to start the symbolic part on an item
    boundary and to keep everything that follows a symbolic length field inside it"""
    return ("I", b)


def _seglen(x):
    return len(x) if isinstance(x, bytes) else (x[1] if x[0] == "S" else len(x[1]))


def layout(which, segs, fixed=None):
    """Split an A-ASSOCIATE-RQ/-AC template (fixed part + variable-item segments; bytes = concrete, S(n) = n
    symbolic bytes; PDU length field correct) into
        prefix  - the concrete bytes before the first symbolic byte (plain bytes: parsed without the solver),
        n, cons - the length of the symbolic middle (first to last symbolic byte) and its concrete islands
                  [(i, j, bytes)] (imposed with assume_fixed),
        suffix  - the concrete bytes after the last symbolic byte.
    Returns (prefix, n, cons, suffix)."""
    fixed = [FIXED] if fixed is None else fixed
    body = list(fixed) + list(segs)
    ln = sum(_seglen(x) for x in body)
    allsegs = [(b"\x01" if which == "RQ" else b"\x02") + b"\x00" + L.u32(ln)] + body
    first = min(k for k, x in enumerate(allsegs) if not isinstance(x, bytes))
    last = max(k for k, x in enumerate(allsegs) if not isinstance(x, bytes))
    if any((not isinstance(x, bytes)) and x[0] == "I" for x in allsegs):
        # a template with symbolic length fields: the WHOLE PDU is one symbolic bytes object.  (Measured: as soon as
        # a part of the buffer is concrete, CrossHair slices it into Python lists, every slice of those with a
        # symbolic bound is realised value by value, and a 4-byte hole costs > 900 paths instead of 5.)
        first, last = 0, len(allsegs) - 1
    prefix = b"".join(allsegs[:first])
    suffix = b"".join(allsegs[last + 1:])
    pos, cons = 0, []
    for x in allsegs[first:last + 1]:
        if isinstance(x, bytes) or x[0] == "I":
            c = x if isinstance(x, bytes) else x[1]
            cons.append((pos, pos + len(c), c))
            pos += len(c)
        else:
            pos += x[1]
    return prefix, pos, cons, suffix


def ui_wrap(n_inner, segs):
    """user-information item (correct length) holding a valid maximum-length sub-item followed by `segs`
    (n_inner = their total length)."""
    return [b"\x50\x00" + L.u16(len(ML) + n_inner) + ML] + list(segs)


N_TAIL = tier(4, 5)
U123 = b"1.2.3"


TH = tier(False, True)


def _templates():
    """name -> (which, segments[, fixed segments]).

    The symbolic part of a template runs from its first to its last symbolic byte; the concrete bytes in between
    ("islands") are imposed as solver constraints, the concrete prefix is ordinary bytes.  Per-path cost grows with
    the number of island bytes (each is a solver-constrained symbol), so templates put only the item under attack after
    the 74-byte fixed part (pynetdicom does not require the other items to decode a PDU).  A concrete suffix is only possible when no symbolic
    byte is a length field (AE-title / version / reserved-byte templates).
    Sub-item templates: the sub-item's own length field is symbolic (2 bytes), so it may be right, short, long,
    zero or oversize.  The quick tier uses smaller variants, the thorough tier all."""
    t = {}
    AB, TS = b"1.2.840.10008.1.1", b"1.2.840.10008.1.2"
    for w in ("RQ", "AC"):
        for n in range(1, N_TAIL + 1):
            t["%s-tail%d" % (w, n)] = (w, [S(n)])                       # ANY bytes right after the fixed part
            if TH or w == "RQ":
                t["%s-app_pc-tail%d" % (w, n)] = (w, [ISL(APP + PC[w]), S(n)])  # ... after valid app-context + pres-context
        # the user-information item header itself (type, reserved, length) symbolic, valid content
        t[w + "-ui-header"] = (w, [S(4), ISL(ML)])
    sub = {
        0x51: [S(4)], 0x53: [S(4)], 0x58: [S(8 if TH else 5)], 0x59: [S(6 if TH else 3)],
        0x52: [U123, S(1)], 0x55: [b"VER", S(1)],
        0x54: [S(2), U123, S(1), ISL(b"\x00")],
        0x56: [S(2), U123, S(3 if TH else 1)],
        0x57: ([S(2), b"1.2", S(2), b"1.3", S(2), S(2), ISL(b"1.4")] if TH else [b"\x00\x03", b"1.2", S(2), b"1.3", S(2), ISL(b"\x00\x03" + b"1.4")]),
    }
    for typ, body in sub.items():
        n = 2 + 2 + sum(_seglen(x) for x in body)
        t["RQ-sub%02x" % typ] = ("RQ", ui_wrap(n, [ISL(L.u8(typ)), S(1), S(2)] + body))
    n = 4 + (6 if TH else 3)
    t["AC-sub59"] = ("AC", ui_wrap(n, [ISL(b"\x59"), S(1), S(2), S(6 if TH else 3)]))
    n = 4 + 2 + 5 + 2
    t["AC-sub54"] = ("AC", ui_wrap(n, [ISL(b"\x54"), S(1), S(2), S(2), U123, S(1), ISL(b"\x01")]))
    # variable items with symbolic header fields (placed last)
    t["RQ-app"] = ("RQ", [ISL(b"\x10"), S(1), S(2), b"1.2.840.10008.3.1.1.", S(1)])
    if TH:
        t["RQ-pc"] = ("RQ", [ISL(b"\x20"), S(1), S(2), S(4), b"\x30", S(1), S(2), AB, b"\x40", S(1), S(2), TS])
        t["AC-pc"] = ("AC", [ISL(b"\x21"), S(1), S(2), S(4), b"\x40", S(1), S(2), TS])
        t["AC-pc-empty-ts"] = ("AC", [ISL(b"\x21"), S(1), S(2), S(4), b"\x40", S(1), S(2)])
    # smaller cuts of the same (quick and thorough)
    t["RQ-pc-head"] = ("RQ", [ISL(b"\x20"), S(1), S(2), S(4), b"\x30\x00" + L.u16(len(AB)) + AB, ISL(b"\x40\x00" + L.u16(len(TS)) + TS)])
    t["RQ-pc-sublens"] = ("RQ", [b"\x20\x00" + L.u16(4 + 4 + len(AB) + 4 + len(TS)) + b"\x01\x00\x00\x00",
                                 ISL(b"\x30\x00"), S(2), AB, b"\x40\x00", S(2), ISL(TS)])
    t["AC-pc-head"] = ("AC", [ISL(b"\x21"), S(1), S(2), S(4), ISL(b"\x40\x00" + L.u16(len(TS)) + TS)])
    t["AC-pc-ts"] = ("AC", [b"\x21\x00" + L.u16(4 + 4 + len(TS)) + b"\x01\x00", S(1), b"\x00\x40", S(1), S(2), ISL(TS)])
    t["AC-pc-empty-ts-head"] = ("AC", [ISL(b"\x21\x00"), S(2), b"\x03\x00", S(1), b"\x00\x40\x00", S(2)])
    t["AC-pc-two-subitems"] = ("AC", [ISL(b"\x21\x00"), S(2), b"\x01\x00", S(1), b"\x00\x40\x00\x00\x00", ISL(ML)])
    t["RQ-pc-in-pc"] = ("RQ", [ISL(b"\x20\x00"), S(2), b"\x01\x00\x00\x00", S(1), S(1), S(2), S(2)])
    # one symbolic character inside each AE-title field (first, middle, last position); protocol version and reserved bytes
    for pos in ((0, 7, 15) if TH else (0, 15)):
        called = [L.ae16("ANY-SCP")[:pos], S(1), L.ae16("ANY-SCP")[pos + 1:]]
        calling = [L.ae16("ECHOSCU")[:pos], S(1), L.ae16("ECHOSCU")[pos + 1:]]
        for w in ("RQ", "AC"):
            t["%s-called%d" % (w, pos)] = (w, [APP, PC[w], UI_MIN],
                                           [L.u16(1) + b"\x00\x00"] + called + [L.ae16("ECHOSCU") + b"\x00" * 32])
            if TH or w == "RQ":
                t["%s-calling%d" % (w, pos)] = (w, [APP, PC[w], UI_MIN],
                                                [L.u16(1) + b"\x00\x00" + L.ae16("ANY-SCP")] + calling + [b"\x00" * 32])
    for w in ("RQ", "AC"):
        t[w + "-version"] = (w, [APP, PC[w], UI_MIN], [S(4), L.ae16("ANY-SCP") + L.ae16("ECHOSCU") + b"\x00" * 32])
        t[w + "-reserved"] = (w, [APP, PC[w], UI_MIN], [L.u16(1) + b"\x00\x00" + L.ae16("ANY-SCP") + L.ae16("ECHOSCU"), S(2), b"\x00" * 28, S(2)])
    return t


def assume_fixed(data, cons):
    """Precondition `all(data[i:j] == c for i, j, c in cons)`, imposed as ONE conjunction of solver constraints.
    (Written as a `pre:` line, each byte comparison forks and the false branch is explored as a path of its own:
    measured 128 paths for 6 that reach the assertion.)  In a concrete replay: plain check, IgnoreAttempt outside."""
    if not is_tracing():
        if not all(data[i:j] == c for i, j, c in cons):
            out_of_bounds()
        return
    from crosshair.libimpl.builtinslib import SymbolicBool
    from crosshair.statespace import context_statespace
    from crosshair.util import IgnoreAttempt

    conds = [data[k] == c[k - i] for i, j, c in cons for k in range(i, j)]
    space = context_statespace()
    with NoTracing():
        for cnd in conds:
            if isinstance(cnd, SymbolicBool):
                space.add(cnd.var)
            elif not cnd:
                raise IgnoreAttempt("outside the template")


TEMPLATES = _templates()
# quick tier: the templates whose exhaustive exploration takes < ~1 min CPU (binary fields, lengths, types); templates
# in which a symbolic character reaches pydicom's UID / the AE validator cost one path per character value and run
# in the thorough tier only
QUICK = ["RQ-tail1", "RQ-tail2", "RQ-tail3", "RQ-tail4", "AC-tail1", "AC-tail2", "AC-tail3", "AC-tail4",
         "RQ-sub51", "RQ-sub53", "RQ-sub58", "RQ-sub59", "AC-sub59", "RQ-pc-head", "AC-pc-head",
         "AC-pc-empty-ts-head", "AC-pc-two-subitems", "RQ-version", "AC-version", "RQ-reserved"]
_T = TEMPLATES[shard("t", "RQ-tail1")]
T_PREFIX, T_N, T_FIXED, T_SUFFIX = layout(*_T)
T_SIZE = len(T_PREFIX) + T_N + len(T_SUFFIX)


def _template_shards():
    return [{"t": k} for k in TEMPLATES if TH or k in QUICK]


@harness(
    "C02", timeout=(200, 1500),
    shards=_template_shards,
    functions=["dul:DULServiceProvider._read_pdu_data", "dul:DULServiceProvider._decode_pdu", "transport:AssociationSocket.recv",
               "pdu:A_ASSOCIATE_RQ.decode/encode", "pdu:A_ASSOCIATE_AC.decode/encode", "pdu:PDU._generate_items/_wrap_generate_items",
               "pdu_items:<every item class>.decode/encode/_decoders/_generate_items", "utils:decode_bytes/set_uid/set_ae"],
    bounds="A-ASSOCIATE-RQ / -AC with a correct PDU length; one shard per template: (a) valid fixed part (+ valid application-context "
           "and presentation-context items) followed by ANY 0..%d bytes; (b) each user-information sub-item kind 0x51..0x59 with "
           "symbolic reserved byte, symbolic 2-byte item length and a body whose numbers / inner lengths / payload bytes are symbolic "
           "and whose strings hold at most one symbolic character; (c) application-context / presentation-context (RQ and AC, also "
           "with an empty transfer-syntax sub-item, also a context item nested in a context item) / user-information item "
           "headers symbolic; (d) one symbolic character at position 0, 7 or 15 of the called / calling AE title; protocol "
           "version and reserved bytes of the fixed part symbolic" % N_TAIL,
    stubs=["FakeRawSocket; make_provider; bytes() inside pynetdicom.dul returns the equal source buffer (checked); warnings silenced"],
    outside="more than one or two symbolic characters per string field; fully arbitrary tails longer than %d bytes" % N_TAIL,
)
def assoc_template(sym: bytes) -> bool:
    """
    pre: len(sym) == T_N
    post: _ == True
    """
    assume_fixed(sym, T_FIXED)
    data = T_PREFIX + sym + T_SUFFIX if T_SUFFIX else T_PREFIX + sym
    return judge(receive(data, True, T_SIZE))      # the PDU is complete: what the peer does afterwards is irrelevant


# ---------------------------------------------------------------------------------------------
# 6. no false rejection: what the reference encoder produces from a legal value is accepted
# ---------------------------------------------------------------------------------------------
def legal_assoc(which, npc, cid0, cid1, res, a, b, c, f, g, extra):
    """A legal A-ASSOCIATE-RQ / -AC value (PS3.8 9.3.2 / 9.3.3, PS3.7 Annex D): application context, 1-2 presentation
    contexts (AC: first with any result 0..4 - a rejected context carries an EMPTY transfer-syntax name, which PS3.8
    Table 9-18 allows: 'not significant' -, second accepted), user information = maximum length + implementation class
    UID + one optional further sub-item chosen by `extra`."""
    items = [("app", "1.2.840.10008.3.1.1.1")]
    for n, cid in enumerate([cid0, cid1][:npc]):
        if which == "RQ":
            items.append(("pcrq", cid, [("abs", "1.2.840.10008.1.1"), ("ts", "1.2.840.10008.1.2")] + ([("ts", "1.2.840.10008.1.2.1")] if n == 0 else [])))
        else:
            r = res if n == 0 else 0
            items.append(("pcac", cid, r, [("ts", "1.2.840.10008.1.2" if (n == 1 or res == 0) else "")]))
    ui = [("maxlen", a), ("impl_uid", "1.2.826.0.1.3680043.9.3811.2.1.0")]
    if extra == 1:
        ui.append(("impl_ver", "PYNETDICOM_210"))
    elif extra == 2:
        ui.append(("async", b, c))
    elif extra == 3:
        ui.append(("role", "1.2.840.10008.5.1.4.1.1.2", 1 if f else 0, 1 if g else 0))
    elif extra == 4:
        ui.append(("ext", "1.2.840.10008.5.1.4.1.1.2", bytes([b % 256, c % 256])))
    elif extra == 5:
        ui.append(("cext", "1.2.840.10008.5.1.4.1.1.88.22", "1.2.840.10008.4.2", ["1.2.840.10008.5.1.4.1.1.88.11"]))
    elif extra == 6:
        ui.append(("uid_rq", 1 + b % 5, 1 if f else 0, b"user", b"pw") if which == "RQ" else ("uid_ac", bytes([c % 256])))
    items.append(("ui", ui))
    return (which, 1, "ANY-SCP", "ECHOSCU", items)


@harness(
    "C02", timeout=(250, 900),
    shards=[{"pdu": "RQ"}, {"pdu": "AC"}],
    functions=["dul:DULServiceProvider._read_pdu_data", "dul:DULServiceProvider._decode_pdu", "pdu:A_ASSOCIATE_RQ.decode", "pdu:A_ASSOCIATE_AC.decode",
               "pdu_items:<every item class>.decode"],
    bounds="legal A-ASSOCIATE-RQ / -AC values encoded by the reference encoder: 1-2 presentation contexts with any odd id, AC result any "
           "0..4 (rejected context with empty transfer-syntax name), maximum length any 32-bit value, one optional user-information "
           "sub-item of each kind with symbolic numbers / role bits",
    stubs=["FakeRawSocket; make_provider; reference encoder spec/ps38_layout.py"],
    outside="other strings than the fixed legal ones (C01 enumerates string lengths)",
)
def accept_legal(npc: int, cid0: int, cid1: int, res: int, a: int, b: int, c: int, f: bool, g: bool, extra: int) -> bool:
    """
    pre: 1 <= npc <= 2 and 0 <= cid0 <= 127 and 0 <= cid1 <= 127 and 0 <= res <= 4
    pre: 0 <= a <= 4294967295 and 0 <= b <= 65535 and 0 <= c <= 65535 and 0 <= extra <= 6
    post: _ == True
    """
    which = shard("pdu", "RQ")
    npc, extra = concrete(npc), concrete(extra)
    if which == "RQ" and res != 0:
        return True
    if extra == 3 and not (f or g):
        return True
    v = legal_assoc(which, npc, 2 * cid0 + 1, 2 * cid1 + 1, res, a, b, c, f, g, extra)
    data = L.encode_pdu(v)
    return judge(receive(data, True, len(data)), must_accept=L.EVENT_OF[which])


# ---------------------------------------------------------------------------------------------
# 6. items nested inside items: the decoder recurses once per level (no level is "too deep" to classify)
# ---------------------------------------------------------------------------------------------
_RQ_FIXED = (b"\x00\x01\x00\x00" + b"ANY-SCP         " + b"ECHOSCU         " + bytes(32))


def _nested(depth, item_type, inner):
    """`depth` items of `item_type` wrapped around the innermost bytes `inner` (lengths correct at every level)."""
    body = inner
    for _ in range(depth):
        head = 4 if item_type != 0x50 else 0
        fill = b"\x01\x00\x00\x00" if head else b""        # presentation-context items: id, reserved bytes
        body = bytes([item_type, 0]) + L.u16(len(fill) + len(body)) + fill + body
    return body


DEPTHS = tier([1, 3, 40, 100, 400, 700], [1, 2, 3, 10, 40, 100, 150, 300, 400, 700, 1500])
KF_NEST = "C02-deep-nesting-reencode"
UNSTABLE_ZONE = (300, 400)      # shards in the region of the listed finding (accepted, but encode() exceeds the recursion limit)


@harness(
    "C02", timeout=(120, 600),
    shards=[{"depth": d, "itype": t} for d in DEPTHS for t in (0x50, 0x20)],
    functions=["dul:DULServiceProvider._read_pdu_data", "dul:DULServiceProvider._decode_pdu", "pdu:PDU._generate_items",
               "pdu_items:PDUItem._generate_items", "pdu_items:UserInformationItem.decode",
               "pdu_items:PresentationContextItemRQ.decode"],
    bounds="A-ASSOCIATE-RQ whose variable part is a User Information item (or a Presentation Context item) nested inside "
           "itself `depth` times (shard: 1 .. 400, thorough .. 700; every length field correct) around 0..2 arbitrary bytes",
    stubs=["as `header`"],
    outside="nesting deeper than the largest shard (a 64 KiB item allows ~16000 levels)",
    findings=[KF_NEST],
)
def nested_items(inner: bytes, closed: bool) -> bool:
    """
    pre: len(inner) <= 2
    post: _ == True
    """
    depth, itype = shard("depth", 3), shard("itype", 0x50)
    inner = fixlen(inner)
    with untraced():
        pass
    var = _nested(depth, itype, inner)
    body = _RQ_FIXED + var
    data = b"\x01\x00" + L.u32(len(body)) + body
    res = receive(data, closed)
    if res is not None and excluded(KF_NEST) and depth in UNSTABLE_ZONE:
        # listed finding: only the stability clause is waived - still: nothing escapes, exactly one event, and a PDU
        # event comes with exactly one PDU of its class
        events, pdus = res
        if len(events) != 1:
            return False
        if events[0] in ("Evt17", "Evt19"):
            return len(pdus) == 0
        return len(pdus) == 1 and type(pdus[0]) is PDU_EVENTS.get(events[0])
    return judge(res)
