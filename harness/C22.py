"""C22 - C-GET / C-MOVE sub-operation counters stay consistent.

Real code: `QueryRetrieveServiceClass.SCP` -> `_get_scp` / `_move_scp` (with `validate_status`,
`_wrap_handler`, `attempt`, `evt.trigger`).  `Association.send_c_store` (C-GET) and the association
returned by `AE.associate` (C-MOVE) are scripted stand-ins: the outcome of every C-STORE sub-operation
is an input.

Assertion (property text): every Pending response has remaining + completed + failed + warning = N,
remaining never increases, the others never decrease; the final response has completed + failed +
warning <= N (and no counter below the last Pending one); when the SCP itself computes the final
status (handler finished, all N sub-operations done, or the handler yielded Success) it is 0x0000
with no failures/warnings, 0xA702 when all N failed, 0xB000 otherwise, and the Failed SOP Instance
UID List the SCP builds names exactly the instances whose sub-operation failed.

Outside the quantifier (excluded by precondition, not a finding): a sub-operation *answered* with a
status of a category other than success / warning / failure (0xFE00 Cancel is the only such code in
the Storage table; it decrements `remaining` and increments nothing).
"""
from typing import List

from vlib.shim import *  # noqa: F401,F403
from vlib.h import harness, tier, shard
from vlib import kf
from vlib.stubs import scp_f as S
from spec import status_docs as D

N_Y = tier(2, 3)
N_OUT = tier(3, 5)      # sub-operation outcome kinds 0..N_OUT: success, warning, failure, exception[, unknown code, no Status]

Y_VALID, Y_JUNK, Y_NONE, Y_EMPTY, Y_STATUS = range(5)   # what a handler result is
_DK = {Y_VALID: S.DK_VALID, Y_JUNK: S.DK_JUNK, Y_NONE: S.DK_NONE, Y_EMPTY: S.DK_EMPTY, Y_STATUS: S.DK_NONE}

STUBS = [
    "StubAssoc/RecordingDimse/StubACSE/StubAE/StubStoreAssoc (record only); Association.send_c_store / the move-destination "
    "association answer each sub-operation from the symbolic outcome list",
    "service_class.encode stub (contract of dsutils.encode); status tables as IntervalDicts of the live tables",
]
FUNCS = ["service_class:QueryRetrieveServiceClass.SCP", "service_class:QueryRetrieveServiceClass._get_scp",
         "service_class:QueryRetrieveServiceClass._move_scp", "service_class:ServiceClass.validate_status",
         "service_class:ServiceClass._wrap_handler", "events:trigger"]
OUTSIDE = ("sub-operations answered with a Cancel-category status; datasets without SOP Instance UID (no instance to list); the "
           "real C-STORE exchange of a sub-operation (C16/C18/C19); more results than the bound")


def _uid_list(ds):
    """Non-empty entries of (0008,0058) in a dataset the SCP built (invalid objects are listed as '')."""
    if ds is None or not hasattr(ds, "FailedSOPInstanceUIDList"):
        return None
    v = ds.FailedSOPInstanceUIDList
    if isinstance(v, str):
        v = [v]
    return [str(x) for x in v if str(x) != ""]


def judge(r, script, n, ykinds, outcomes, log):
    if r.escaped is not None:
        return False
    sent = r.sent
    if not sent:
        return False
    prev = None
    n_pending = 0
    for x in sent[:-1]:
        if x.status != 0xFF00:
            return False
        if x.remaining + x.completed + x.failed + x.warning != n:
            return False
        if prev is not None and (x.remaining > prev.remaining or x.completed < prev.completed or x.failed < prev.failed
                                 or x.warning < prev.warning):
            return False
        prev = x
        n_pending += 1
    fin = sent[-1]
    if D.is_pending(fin.status):
        return False        # (C20's subject; cannot judge a final response that does not exist)
    if fin.completed is None or fin.failed is None or fin.warning is None:
        # a final response relayed for an unknown handler status before any counter was set: nothing reported
        if n_pending > 0:
            return False
    else:
        if fin.completed + fin.failed + fin.warning > n:
            return False
        if prev is not None and (fin.completed < prev.completed or fin.failed < prev.failed or fin.warning < prev.warning):
            return False
    # which sub-operations failed, in the order the SCP performed them (one Pending response each)
    failed_uids = []
    nfail = nwarn = ndone = 0
    k = nsub = 0
    for i in range(len(ykinds)):
        if k >= n_pending:
            break
        if ykinds[i] == Y_VALID:
            o = outcomes[nsub]      # the outcome list is consumed per sub-operation actually performed
            nsub += 1
            if o == S.SUB_SUCCESS:
                ndone += 1
            elif o == S.SUB_WARNING:
                nwarn += 1
            else:
                nfail += 1
                failed_uids.append(str(script.valid_ds(i).SOPInstanceUID))
            k += 1
        elif ykinds[i] == Y_JUNK:
            nfail += 1
            k += 1
    if prev is not None and (prev.completed != ndone or prev.warning != nwarn or prev.failed != nfail):
        return False
    # did the SCP compute the final status itself?
    remaining = prev.remaining if prev is not None else n
    t = script.produced - 1
    computed = script.exhausted or script.raised is False and remaining <= 0
    by_success = (not computed) and t >= 0 and ykinds[t] == Y_STATUS and script.statuses[t] == 0x0000 and not script.raised
    if computed or by_success:
        if fin.status != D.retrieve_final_status(n, nfail, nwarn):
            return False
        if fin.completed != ndone or fin.failed != nfail or fin.warning != nwarn:
            return False
        if nfail or nwarn:
            with untraced():
                lst = _uid_list(log.dataset_of(fin.data))
            if lst != failed_uids:
                return False
        elif fin.data is not None:
            return False
    return True


def _run(kname, n, ykinds, finals, outcomes, codes, raise_at):
    ny = len(ykinds)
    skinds = [S.SK_INT] * ny
    statuses = [finals[i] if ykinds[i] == Y_STATUS else 0xFF00 for i in range(ny)]
    dkinds = [S.DK_NONE] * ny
    for i in range(ny):
        for yk, dk in _DK.items():
            if ykinds[i] == yk:
                dkinds[i] = dk
    script = S.Script(skinds, statuses, dkinds, raise_at=raise_at)
    with S.scp_env() as log:
        r = S.run_kernel(kname, 11, 9, script, log, n_sub=n, outcomes=outcomes, codes=codes)
        return judge(r, script, n, ykinds, outcomes, log)


@harness(
    "C22", timeout=(200, 1500), functions=FUNCS, stubs=STUBS, outside=OUTSIDE, findings=["C22-invalid-dataset-keeps-remaining"],
    shards=tier([{"kernel": k, "first": f} for k in ("get_qr", "move_qr") for f in range(5)],
                [{"kernel": k, "first": f, "second": g} for k in ("get_qr", "move_qr") for f in range(5) for g in range(5)]),
    bounds="C-GET / C-MOVE (shard); announced N ANY int 1..65535 (solver-symbolic); handler yields <= %d results, each one of "
           "{(Pending, valid dataset), (Pending, non-Dataset object), (Pending, None), (Pending, empty dataset), (status S, None) "
           "with S from a pool of every category + unknown} (first [thorough: and second] result's kind = shard); C-STORE "
           "sub-operation outcome per result from {success, warning, failure, exception[, thorough: unknown status code, response "
           "without Status]}; handler exception at any point" % N_Y)
def c22_counters(n: int, ykinds: List[int], fpool: List[int], outcomes: List[int], raise_at: int) -> bool:
    """
    pre: 1 <= n <= 65535
    pre: 1 <= len(ykinds) <= N_Y and len(fpool) == len(ykinds) and len(outcomes) == len(ykinds)
    pre: ykinds[0] == shard("first", 0)
    pre: len(ykinds) < 2 or shard("second") is None or ykinds[1] == shard("second")
    pre: all(0 <= y <= 4 for y in ykinds) and all(0 <= f < len(FINALS) for f in fpool) and all(0 <= o <= N_OUT for o in outcomes)
    pre: -1 <= raise_at <= len(ykinds)
    pre: not kf.skip("C22-invalid-dataset-keeps-remaining", n=n, ykinds=ykinds, raise_at=raise_at)
    post: _ == True
    """
    return _run(shard("kernel", "get_qr"), n, ykinds, S.LazyPool(fpool, FINALS), outcomes, (), raise_at)


FINALS = tier([0x0000, 0xB000, 0xA701, 0xFE00, 0xFFFF], [0x0000, 0xB000, 0xA701, 0xFE00, 0xC001, 0xFFFF, 0x0107])


@harness(
    "C22", timeout=(150, 900), functions=FUNCS, stubs=STUBS, outside=OUTSIDE, shards=[{"kernel": k} for k in ("get_qr", "move_qr")],
    bounds="more results than announced: N ANY int 1..65535, the handler yields exactly %d (Pending, valid dataset) results, each "
           "sub-operation succeeds, warns or fails" % (N_Y + 2))
def c22_overrun(n: int, outcomes: List[int]) -> bool:
    """
    pre: 1 <= n <= 65535
    pre: len(outcomes) == N_Y + 2
    pre: all(0 <= o <= 2 for o in outcomes)
    post: _ == True
    """
    return _run(shard("kernel", "get_qr"), n, [Y_VALID] * len(outcomes), [0] * len(outcomes), outcomes, (), -1)


def _storage_category(c):
    """Category of a C-STORE response status as the retrieve SCP must count it: PS3.7 class rule on the
    codes of the Storage table (success 0000; warning B000, B006, B007, 0107, 0116); everything else
    that is known is a failure and an unknown code raises KeyError = failure (0xFE00 is excluded)."""
    if c == 0x0000:
        return S.SUB_SUCCESS
    if c == 0xB000 or c == 0xB006 or c == 0xB007 or c == 0x0107 or c == 0x0116:
        return S.SUB_WARNING
    return S.SUB_FAILURE


@harness(
    "C22", timeout=(200, 1500), functions=FUNCS, stubs=STUBS, outside=OUTSIDE,
    shards=[{"kernel": k} for k in ("get_qr", "move_qr")],
    bounds="C-GET / C-MOVE; N ANY int 1..65535; first result (Pending, valid dataset) whose C-STORE sub-operation is answered with "
           "ANY status 0..65535 except the Cancel category (0xFE00); optionally a second (Pending, valid dataset) that succeeds "
           "or fails")
def c22_subop_code(n: int, code: int, second: int) -> bool:
    """
    pre: 1 <= n <= 65535
    pre: 0 <= code <= 65535 and code != 0xFE00
    pre: 0 <= second <= 2
    post: _ == True
    """
    ny = 1 if second == 0 else 2
    codes = [code, 0x0000 if second == 1 else 0xA700]
    script = S.Script([S.SK_INT] * ny, [0xFF00] * ny, [S.DK_VALID] * ny)
    cat = [_storage_category(code), S.SUB_SUCCESS if second == 1 else S.SUB_FAILURE]
    with S.scp_env() as log:
        r = S.run_kernel(shard("kernel", "get_qr"), 11, 9, script, log, n_sub=n, outcomes=[S.SUB_SYMBOLIC] * ny, codes=codes)
        return judge(r, script, n, [Y_VALID] * ny, cat, log)


@harness(
    "C22", timeout=(200, 1500), functions=FUNCS, stubs=STUBS, outside=OUTSIDE,
    shards=[{"kernel": k} for k in ("get_qr", "move_qr")],
    bounds="C-GET / C-MOVE; N ANY int 1..65535; optionally one (Pending, valid dataset) whose sub-operation succeeds, warns or "
           "fails; then (S, None) with S ANY int 0..65535 except 0xFF00 / 0xFF01 (statuses of every other category; 0xFF01 is "
           "C20's known finding)")
def c22_final_status(n: int, first: int, final: int) -> bool:
    """
    pre: 1 <= n <= 65535
    pre: 0 <= first <= 3
    pre: 0 <= final <= 65535 and final != 0xFF00 and final != 0xFF01
    post: _ == True
    """
    if first == 0:
        ykinds, statuses, dkinds, outcomes = [Y_STATUS], [final], [S.DK_NONE], []
    else:
        ykinds, statuses, dkinds, outcomes = [Y_VALID, Y_STATUS], [0xFF00, final], [S.DK_VALID, S.DK_NONE], [first - 1]
    script = S.Script([S.SK_INT] * len(ykinds), statuses, dkinds)
    with S.scp_env() as log:
        r = S.run_kernel(shard("kernel", "get_qr"), 11, 9, script, log, n_sub=n, outcomes=outcomes)
        return judge(r, script, n, ykinds, outcomes + [0], log)
