"""End-to-end reproducers for the C05 / C27 findings: plain programs against the real library (real sockets, real
threads, no stub).  Where an order has to be forced, a thread is only *delayed* at a point where the OS scheduler
could delay it as well (the provider thread between two reactor iterations through the object behind
`assoc._dul_ready`, a user thread before it queues its primitive).  They open localhost sockets, so they are run
through `isopy` (private network namespace) when that wrapper exists.  Exit status 0 = reproduced."""
import os
import shutil
import subprocess
import sys
import tempfile

SCRIPTS = {}

SCRIPTS['artim'] = r'''"""End-to-end (no stubs): a requestor whose A-ASSOCIATE-RQ completes just after the acceptor's ARTIM deadline
makes the acceptor's DUL thread die with InvalidEventError('Evt18' in 'Sta3')."""
import os, sys, socket, threading, time, logging
sys.path.insert(0, os.environ.get("VERIF_REPO", "/repo"))
sys.path.insert(1, "/verif")
logging.disable(logging.CRITICAL)
from pynetdicom import AE, evt
from pynetdicom.pdu import A_ASSOCIATE_RQ
from pynetdicom.pdu_primitives import A_ASSOCIATE, MaximumLengthNotification, ImplementationClassUIDNotification
from pynetdicom.presentation import build_context

def rq_bytes():
    p = A_ASSOCIATE()
    p.application_context_name = "1.2.840.10008.3.1.1.1"
    p.calling_ae_title, p.called_ae_title = "REQ", "ANY-SCP"
    cx = build_context("1.2.840.10008.1.1", "1.2.840.10008.1.2"); cx.context_id = 1
    p.presentation_context_definition_list = [cx]
    ml = MaximumLengthNotification(); ml.maximum_length_received = 16382
    ic = ImplementationClassUIDNotification(); ic.implementation_class_uid = "1.2.3.4"
    p.user_information = [ml, ic]
    return A_ASSOCIATE_RQ(p).encode()

crashes = []
threading.excepthook = lambda a: crashes.append((a.thread.name, repr(a.exc_value)))
transitions = []
ae = AE(); ae.acse_timeout = 1.0; ae.network_timeout = 10
ae.add_supported_context("1.2.840.10008.1.1")
srv = ae.start_server(("127.0.0.1", 11512), block=False,
                      evt_handlers=[(evt.EVT_FSM_TRANSITION, lambda e: transitions.append((e.current_state, e.fsm_event, e.next_state)))])
data = rq_bytes()
s = socket.create_connection(("127.0.0.1", 11512))
time.sleep(0.8)            # ARTIM (acse_timeout = 1.0 s) started at accept time
s.sendall(data[:6])        # header arrives before the deadline: the reactor's expiry check has passed, recv() blocks
time.sleep(0.5)            # ... the deadline passes while the provider is inside _read_pdu_data
s.sendall(data[6:])        # AE-6 now stops the timer late
time.sleep(1.0)
print("transitions:", transitions)
print("thread crashes:", crashes)
s.close(); srv.shutdown()
ok = any("Evt18" in c[1] and "Sta3" in c[1] for c in crashes)
print("REPRODUCED" if ok else "not reproduced")
sys.exit(0 if ok else 1)
'''

SCRIPTS['abort_sta2'] = r'''"""End-to-end (no stubs): AE.shutdown() while a client has connected but not yet sent its A-ASSOCIATE-RQ."""
import os, sys, socket, threading, time, logging
sys.path.insert(0, os.environ.get("VERIF_REPO", "/repo"))
logging.disable(logging.CRITICAL)
from pynetdicom import AE
crashes = []
threading.excepthook = lambda a: crashes.append((a.thread.name, repr(a.exc_value)))
ae = AE(); ae.acse_timeout = 5; ae.network_timeout = 10
ae.add_supported_context("1.2.840.10008.1.1")
srv = ae.start_server(("127.0.0.1", 11513), block=False)
s = socket.create_connection(("127.0.0.1", 11513))
t0 = time.time()
while not ae.active_associations and time.time() - t0 < 5:
    time.sleep(0.01)
assoc = ae.active_associations[0]
while assoc.dul.state_machine.current_state != "Sta2" and time.time() - t0 < 5:
    time.sleep(0.01)
print("acceptor state before shutdown:", assoc.dul.state_machine.current_state)
ae.shutdown()
time.sleep(0.5)
print("thread crashes:", crashes, "final state:", assoc.dul.state_machine.current_state)
s.close()
ok = any("Evt15" in c[1] and "Sta2" in c[1] for c in crashes)
print("REPRODUCED" if ok else "not reproduced")
sys.exit(0 if ok else 1)
'''

SCRIPTS['rel_sta8'] = r'''"""End-to-end (real sockets, real threads): both sides call release(); the local user thread is merely slow
between pausing its reactor and queueing its A-RELEASE request, so the provider reads the peer's A-RELEASE-RQ
first (Sta8) and then gets the local request: Evt11 in Sta8."""
import os, sys, threading, time, logging
sys.path.insert(0, os.environ.get("VERIF_REPO", "/repo"))
logging.disable(logging.CRITICAL)
from pynetdicom import AE
crashes = []
threading.excepthook = lambda a: crashes.append((a.thread.name, repr(a.exc_value)))
UID = "1.2.840.10008.1.1"
scp = AE(); scp.acse_timeout = 3; scp.add_supported_context(UID)
srv = scp.start_server(("127.0.0.1", 11514), block=False)
scu = AE(); scu.acse_timeout = 3; scu.add_requested_context(UID)
A = scu.associate("127.0.0.1", 11514)
assert A.is_established
t0 = time.time()
while not scp.active_associations and time.time() - t0 < 5:
    time.sleep(0.01)
B = scp.active_associations[0]
while not B.is_established and time.time() - t0 < 5:
    time.sleep(0.01)
about_to_send, go = threading.Event(), threading.Event()
real_send_release = A.acse.send_release
def slow_send_release(is_response=False):
    if not is_response and not go.is_set():
        about_to_send.set()      # A.release() has paused A's reactor and is about to queue its request
        go.wait(5)
    return real_send_release(is_response)
A.acse.send_release = slow_send_release
tA = threading.Thread(target=A.release); tA.start()
about_to_send.wait(5)
tB = threading.Thread(target=B.release); tB.start()     # the peer's A-RELEASE-RQ goes onto the wire
while A.dul.state_machine.current_state != "Sta8" and time.time() - t0 < 8:
    time.sleep(0.001)
print("A state when its own release request is queued:", A.dul.state_machine.current_state)
go.set()
tA.join(10); tB.join(10)
time.sleep(0.3)
print("thread crashes:", crashes)
print("A: released", A.is_released, "aborted", A.is_aborted, "state", A.dul.state_machine.current_state,
      "socket open", A.dul.socket.socket is not None)
print("B: released", B.is_released, "aborted", B.is_aborted, "state", B.dul.state_machine.current_state)
srv.shutdown()
ok = any("Evt11" in c[1] and "Sta8" in c[1] for c in crashes)
print("REPRODUCED" if ok else "not reproduced")
sys.exit(0 if ok else 1)
'''

SCRIPTS['pdata_sta13'] = r'''"""End-to-end (real sockets, real threads; two threads are merely delayed at points where the OS scheduler may
delay them): the peer sends an unrecognised PDU, the provider aborts (AA-8 -> Sta13, A-P-ABORT indication queued),
and the local user - already inside send_c_echo() - queues its P-DATA before consuming the indication: Evt9 in Sta13."""
import os, sys, socket, threading, time, logging
sys.path.insert(0, os.environ.get("VERIF_REPO", "/repo"))
logging.disable(logging.CRITICAL)
from pynetdicom import AE
from pynetdicom.pdu import A_ASSOCIATE_AC
from pynetdicom.pdu_primitives import A_ASSOCIATE, MaximumLengthNotification, ImplementationClassUIDNotification
from pynetdicom.presentation import build_context
crashes = []
threading.excepthook = lambda a: crashes.append((a.thread.name, repr(a.exc_value)))
UID = "1.2.840.10008.1.1"

def ac_bytes():
    p = A_ASSOCIATE(); p.application_context_name = "1.2.840.10008.3.1.1.1"
    p.calling_ae_title, p.called_ae_title = "PYNETDICOM", "ANY-SCP"; p.result, p.result_source = 0, 1
    cx = build_context(UID, "1.2.840.10008.1.2"); cx.context_id, cx.result = 1, 0
    p.presentation_context_definition_results_list = [cx]
    ml = MaximumLengthNotification(); ml.maximum_length_received = 16382
    ic = ImplementationClassUIDNotification(); ic.implementation_class_uid = "1.2.3.4"
    p.user_information = [ml, ic]
    return A_ASSOCIATE_AC(p).encode()

lsock = socket.socket(); lsock.setsockopt(socket.SOL_SOCKET, socket.SO_REUSEADDR, 1)
lsock.bind(("127.0.0.1", 11515)); lsock.listen(1)
conn_box, send_junk = [], threading.Event()
def peer():
    c, _ = lsock.accept(); conn_box.append(c)
    hdr = c.recv(6); n = int.from_bytes(hdr[2:6], "big"); got = b""
    while len(got) < n: got += c.recv(n - len(got))
    c.sendall(ac_bytes())
    send_junk.wait(10)
    c.sendall(b"\x09\x00\x00\x00\x00\x00")          # unrecognised PDU type
    time.sleep(2); c.close()
threading.Thread(target=peer, daemon=True).start()

scu = AE(); scu.acse_timeout = 3; scu.dimse_timeout = 3; scu.network_timeout = 5
scu.add_requested_context(UID, "1.2.840.10008.1.2")
A = scu.associate("127.0.0.1", 11515)
assert A.is_established

class Gate:
    """behind assoc._dul_ready: the provider thread can be delayed between two reactor iterations"""
    def __init__(s): s.hold = False; s.sem = threading.Semaphore(0); s.waiting = False
    def is_set(s):
        if s.hold:
            s.waiting = True; s.sem.acquire(); s.waiting = False
        return True
    def set(s): pass
    def wait(s, *a): return True
    def step(s): s.sem.release()
gate = Gate(); A._dul_ready = gate

about_to_send, go = threading.Event(), threading.Event()
real_send_msg = A.dimse.send_msg
def slow_send_msg(*a, **k):
    about_to_send.set(); go.wait(5)
    return real_send_msg(*a, **k)
A.dimse.send_msg = slow_send_msg
result = []
def user():
    try: result.append(A.send_c_echo())
    except Exception as e: result.append(repr(e))
tU = threading.Thread(target=user); tU.start()
about_to_send.wait(5)                 # the user is inside send_c_echo(), its reactor is paused
gate.hold = True
t0 = time.time()
while not gate.waiting and time.time() - t0 < 5: time.sleep(0.001)
send_junk.set(); time.sleep(0.2)      # junk is in the socket buffer
gate.step()                           # one reactor iteration: Evt19 in Sta6 -> AA-8 -> Sta13
while not gate.waiting and time.time() - t0 < 5: time.sleep(0.001)
print("provider state after the invalid PDU:", A.dul.state_machine.current_state, "| unconsumed indication:",
      type(A.dul.peek_next_pdu()).__name__)
go.set()                              # the user now queues its P-DATA request
while A.dul.to_provider_queue.empty() and time.time() - t0 < 5: time.sleep(0.001)
gate.hold = False; gate.step()
tU.join(10); time.sleep(0.3)
print("thread crashes:", crashes)
print("state", A.dul.state_machine.current_state, "socket open", A.dul.socket.socket is not None, "send_c_echo ->", result)
ok = any("Evt9" in c[1] and "Sta13" in c[1] for c in crashes)
print("REPRODUCED" if ok else "not reproduced")
try: A.abort()
except Exception: pass
os._exit(0 if ok else 1)
'''

SCRIPTS['close_no_open'] = r'''"""End-to-end (no stubs): associate() to a port nobody listens on -> EVT_CONN_CLOSE is notified although no
connection was ever opened (no EVT_CONN_OPEN)."""
import os, sys, logging
sys.path.insert(0, os.environ.get("VERIF_REPO", "/repo"))
logging.disable(logging.CRITICAL)
from pynetdicom import AE, evt
seen = []
ae = AE(); ae.add_requested_context("1.2.840.10008.1.1")
hh = [(evt.EVT_CONN_OPEN, lambda e: seen.append("EVT_CONN_OPEN")), (evt.EVT_CONN_CLOSE, lambda e: seen.append("EVT_CONN_CLOSE"))]
a = ae.associate("127.0.0.1", 11599, evt_handlers=hh)
print("established:", a.is_established, "notifications:", seen)
ok = seen == ["EVT_CONN_CLOSE"]
print("REPRODUCED" if ok else "not reproduced")
sys.exit(0 if ok else 1)
'''

SCRIPTS['pdu_sent_unsent'] = r'''"""End-to-end (real sockets, real threads; the provider thread is merely delayed between two iterations): the peer
resets the connection while a P-DATA request of the local user is queued -> the send fails, yet EVT_PDU_SENT fires."""
import os, sys, socket, struct, threading, time, logging
sys.path.insert(0, os.environ.get("VERIF_REPO", "/repo"))
logging.disable(logging.CRITICAL)
from pynetdicom import AE, evt
from pynetdicom.pdu import A_ASSOCIATE_AC
from pynetdicom.pdu_primitives import A_ASSOCIATE, MaximumLengthNotification, ImplementationClassUIDNotification
from pynetdicom.presentation import build_context
UID = "1.2.840.10008.1.1"
def ac_bytes():
    p = A_ASSOCIATE(); p.application_context_name = "1.2.840.10008.3.1.1.1"
    p.calling_ae_title, p.called_ae_title = "PYNETDICOM", "ANY-SCP"; p.result, p.result_source = 0, 1
    cx = build_context(UID, "1.2.840.10008.1.2"); cx.context_id, cx.result = 1, 0
    p.presentation_context_definition_results_list = [cx]
    ml = MaximumLengthNotification(); ml.maximum_length_received = 16382
    ic = ImplementationClassUIDNotification(); ic.implementation_class_uid = "1.2.3.4"
    p.user_information = [ml, ic]
    return A_ASSOCIATE_AC(p).encode()
lsock = socket.socket(); lsock.setsockopt(socket.SOL_SOCKET, socket.SO_REUSEADDR, 1)
lsock.bind(("127.0.0.1", 11516)); lsock.listen(1)
do_reset = threading.Event()
def peer():
    c, _ = lsock.accept()
    hdr = c.recv(6); n = int.from_bytes(hdr[2:6], "big"); got = b""
    while len(got) < n: got += c.recv(n - len(got))
    c.sendall(ac_bytes())
    do_reset.wait(10)
    c.setsockopt(socket.SOL_SOCKET, socket.SO_LINGER, struct.pack("ii", 1, 0)); c.close()   # abortive close: RST
threading.Thread(target=peer, daemon=True).start()
seen = []
hh = [(evt.EVT_PDU_SENT, lambda e: seen.append(("PDU_SENT", type(e.pdu).__name__))),
      (evt.EVT_DATA_SENT, lambda e: seen.append(("DATA_SENT", len(e.data))))]
scu = AE(); scu.acse_timeout = 3; scu.dimse_timeout = 2; scu.network_timeout = 5
scu.add_requested_context(UID, "1.2.840.10008.1.2")
A = scu.associate("127.0.0.1", 11516, evt_handlers=hh)
assert A.is_established
before = list(seen)
class Gate:
    def __init__(s): s.hold = False; s.sem = threading.Semaphore(0); s.waiting = False
    def is_set(s):
        if s.hold:
            s.waiting = True; s.sem.acquire(); s.waiting = False
        return True
    def set(s): pass
    def wait(s, *a): return True
gate = Gate(); A._dul_ready = gate
gate.hold = True
t0 = time.time()
while not gate.waiting and time.time() - t0 < 5: time.sleep(0.001)
do_reset.set(); time.sleep(0.3)                       # the RST has arrived
res = []
tU = threading.Thread(target=lambda: res.append(A.send_c_echo())); tU.start()
while A.dul.to_provider_queue.empty() and time.time() - t0 < 5: time.sleep(0.001)
gate.hold = False; gate.sem.release()                 # the provider thread continues: primitive first, then the socket
tU.join(10); time.sleep(0.3)
after = seen[len(before):]
print("notifications during association set-up:", before)
print("notifications for the C-ECHO request:", after)
ok = ("PDU_SENT", "P_DATA_TF") in after and not any(k == "DATA_SENT" for k, _ in after)
print("REPRODUCED" if ok else "not reproduced")
os._exit(0 if ok else 1)
'''


def run(name, timeout=120):
    """Run one reproducer against $VERIF_REPO (default /repo).  Returns (reproduced, output tail)."""
    with tempfile.NamedTemporaryFile("w", suffix="_%s.py" % name, delete=False) as f:
        f.write(SCRIPTS[name])
        path = f.name
    try:
        from vlib.e2e import runner as _runner; runner = _runner()
        env = dict(os.environ)
        env.setdefault("VERIF_REPO", "/repo")
        p = subprocess.run(runner + [path], capture_output=True, text=True, timeout=timeout, env=env, cwd=tempfile.gettempdir())
        return p.returncode == 0, (p.stdout + p.stderr)[-1200:]
    except Exception as exc:  # noqa: BLE001
        return False, "reproducer could not be run: %r" % (exc,)
    finally:
        try:
            os.unlink(path)
        except OSError:
            pass


if __name__ == "__main__":
    for n in (sys.argv[1:] or list(SCRIPTS)):
        ok, tail = run(n)
        print("==", n, "REPRODUCED" if ok else "not reproduced")
        print(tail)
