"""C05 - no schedule drives the upper-layer provider into an undefined event; it returns to idle.

Real code, executed in the harness thread: DULServiceProvider.run_reactor (with _process_recv_primitive,
_is_transport_event, _read_pdu_data, _decode_pdu, _send, send_pdu, receive_pdu, kill_dul), StateMachine.do_action
and every action function, AssociationSocket (ready / recv / send / close / connect / _shutdown_socket), Timer,
queue.Queue, the PDU decoders/encoders.  The loop is single-stepped through the stub behind
`assoc._dul_ready.is_set()` (first statement of every iteration): before iteration i the environment performs
action steps[i] - the peer delivers a PDU / closes / resets, the ARTIM timer expires, the local user consumes an
indication or issues a primitive that its *view* allows (contract automaton vlib.stubs.reactor.UserView).

Assertions (statement of C05):
  (a) run_reactor never raises - in particular no InvalidEventError (an event undefined for the current state);
  (b) when the reactor leaves its loop the state is Sta1 and the transport connection is closed; while it is
      still running the state is neither Sta1 (after anything happened) nor Sta13 once the schedule and an idle
      tail are over, its socket is open and every primitive of the user has been processed;
  (c) after a terminating stimulus (peer closed / reset the connection, peer's A-ABORT was delivered on the open
      connection, the local user issued an abort, ARTIM expired while running) the reactor has left its loop.
"""
from typing import List

from vlib.shim import *  # noqa: F401,F403
from vlib import h
from vlib.h import harness, shard, tier
from vlib import kf

from spec import ps38_fsm as spec
from vlib.stubs import reactor as R
from vlib.stubs.reactor import (V_ACC_IND, V_ACC_WAIT, V_COLL, V_COLL_CNF, V_COLL_RP, V_DONE, V_EST, V_REL_IND,
                                V_REL_SENT, V_REQ_IDLE, V_REQ_SENT)

from pynetdicom.fsm import InvalidEventError
from pynetdicom.pdu_primitives import A_ABORT, A_P_ABORT

# ------------------------------------------------------------------------------------------------------------
# environment actions
(A_IDLE, A_P_RQ, A_P_AC, A_P_RJ, A_P_DATA, A_P_RELRQ, A_P_RELRP, A_P_ABORT, A_P_JUNK, A_P_CLOSE, A_T, A_CONSUME,
 A_U_PDATA, A_U_RELRQ, A_U_RELRP, A_U_ABORT, A_U_ACCEPT, A_U_REJECT, A_U_ASSOC_RQ,
 A_P_RQ_LATE, A_U_PDATA_RST, A_P_RESET, A_P_BADRQ, A_P_BADAC, A_P_TRUNC, A_P_PABORT, A_U_ABORT2,
 A_U_PABORT, A_T_RQ, A_L_CLOSE) = range(30)
NA_QUICK, NA_FULL = 22, 30
# the quick alphabet is actions 0..21 plus the two added last (numbering is kept: recorded witnesses refer to it)
QUICK_EXTRA = (A_T_RQ, A_L_CLOSE)


def in_alphabet(a):
    if NA == NA_FULL:
        return 0 <= a and a < NA_FULL
    return (0 <= a and a < NA_QUICK) or a == A_T_RQ or a == A_L_CLOSE
ACTION_NAMES = ["idle", "peer:A-ASSOCIATE-RQ", "peer:A-ASSOCIATE-AC", "peer:A-ASSOCIATE-RJ", "peer:P-DATA-TF",
                "peer:A-RELEASE-RQ", "peer:A-RELEASE-RP", "peer:A-ABORT", "peer:unknown-PDU-type", "peer:close(FIN)",
                "ARTIM-expires", "user:consume-indication", "user:P-DATA", "user:A-RELEASE-rq", "user:A-RELEASE-rp",
                "user:A-ABORT", "user:A-ASSOCIATE-accept", "user:A-ASSOCIATE-reject", "user:A-ASSOCIATE-rq",
                "peer:A-ASSOCIATE-RQ-while-ARTIM-expires", "user:P-DATA-queued-when-RST-arrives", "peer:reset(RST)",
                "peer:A-ASSOCIATE-RQ-bad-version", "peer:malformed-A-ASSOCIATE-AC", "peer:4-bytes-then-FIN",
                "peer:A-ABORT(provider)", "user:A-ABORT(source2)", "user:A-P-ABORT",
                "ARTIM-expired-and-peer:A-ASSOCIATE-RQ-readable", "local:AssociationSocket.close()"]
PEER_BYTES = {A_P_RQ: R.RQ_BYTES, A_P_AC: R.AC_BYTES, A_P_RJ: R.RJ_BYTES, A_P_DATA: R.PDATA_BYTES,
              A_P_RELRQ: R.RELRQ_BYTES, A_P_RELRP: R.RELRP_BYTES, A_P_ABORT: R.ABORT_BYTES, A_P_JUNK: R.JUNK_BYTES,
              A_P_RQ_LATE: R.RQ_BYTES, A_P_BADRQ: R.RQ_BAD_VERSION_BYTES, A_P_BADAC: R.BAD_AC_BYTES,
              A_P_TRUNC: R.TRUNC_BYTES, A_P_PABORT: R.P_ABORT_BYTES, A_T_RQ: R.RQ_BYTES}
USER_ACTS = {A_U_PDATA: R.U_PDATA, A_U_RELRQ: R.U_RELRQ, A_U_RELRP: R.U_RELRP, A_U_ABORT: R.U_ABORT,
             A_U_ACCEPT: R.U_ACCEPT, A_U_REJECT: R.U_REJECT, A_U_ASSOC_RQ: R.U_ASSOC_RQ, A_U_ABORT2: R.U_ABORT2,
             A_U_PABORT: R.U_PABORT}

def _concrete(v):
    """A concrete int for a solver-enumerated input: under CrossHair the value is realised, i.e. the search
    tree branches on it and comes back for every other value the path condition admits."""
    if is_tracing():
        from crosshair.core import realize
        return realize(v)
    return v


# start configurations: (state, requestor, the user's view, connect() fails)
STARTS = [
    ("Sta2", False, V_ACC_WAIT, False),   # 0
    ("Sta3", False, V_ACC_IND, False),    # 1
    ("Sta5", True, V_REQ_SENT, False),    # 2
    ("Sta6", True, V_EST, False),         # 3
    ("Sta6", False, V_EST, False),        # 4
    ("Sta7", True, V_REL_SENT, False),    # 5
    ("Sta7", False, V_REL_SENT, False),   # 6
    ("Sta8", True, V_REL_IND, False),     # 7
    ("Sta8", False, V_REL_IND, False),    # 8
    ("Sta13", True, V_DONE, False),       # 9
    ("Sta13", False, V_DONE, False),      # 10
    ("Sta1", True, V_REQ_IDLE, False),    # 11  requestor before its request (AE-1 connect, AE-2)
    ("Sta1", True, V_REQ_IDLE, True),     # 12  ... and the TCP connection attempt fails
    ("Sta9", True, V_COLL, False),        # 13  release collision states
    ("Sta10", False, V_COLL, False),      # 14
    ("Sta11", True, V_COLL_RP, False),    # 15
    ("Sta12", False, V_COLL_CNF, False),  # 16
]

N = tier(2, 3)                # schedule length
IDLE_TAIL = N + 3             # idle iterations after the schedule
NA = tier(NA_QUICK, NA_FULL)

# known-finding families (see proposed_fixes/C05-known.json / known_findings.json)
KF_STALE = "C05-stale-user-view"
KF_ABORT_STA2 = "C05-abort-before-request"
KF_ARTIM = "C05-artim-expiry-after-stop"


# (event, state) cells of each listed, unrepaired family - read once, outside any traced execution
_KF_CELLS = {e["id"]: {tuple(c) for c in e.get("cells", [])}
             for e in kf.load() if e.get("property") == "C05" and e.get("status") == "known"}


def _kf_cells(fid):
    return _KF_CELLS.get(fid, set())


class Run:
    """One execution of the real reactor under one schedule."""

    def __init__(self, start, steps):
        self.steps = steps
        state, requestor, view, connect_fails = STARTS[start]
        self.clock = R.TickClock()
        with untraced():
            self.p = R.Provider(state, requestor, self.clock, connected=(state != "Sta1"))
            if state != "Sta1":
                self.p.raw.connected_to = R.ACC_ADDR if requestor else R.REQ_ADDR
            if connect_fails:
                def refuse(address):
                    raise ConnectionRefusedError(111, "Connection refused")
                self.p.raw.connect = refuse
            self.user = R.UserView(view, requestor)
            self.p.concrete_codec()
        self.start_state = state
        self.must_end = False
        self.anything = False
        self.trace = []        # (iteration, action name, state before) - diagnostics for replays
        self.issued = {}       # id(primitive) -> (user action, the view it was issued in)
        self.offender = None   # ... of the primitive whose event the state machine refused
        self.refused = None    # the last event handed to StateMachine.do_action
        self.failed = None
        self.late_jump = False  # the clock passed the ARTIM deadline in the middle of an iteration (A_P_RQ_LATE)

    # -- one environment action -------------------------------------------------------------------------
    def perform(self, a):
        p, raw, dul = self.p, self.p.raw, self.p.dul
        if a == A_IDLE:
            return
        self.anything = True
        if a in PEER_BYTES:
            if raw.connected_to is None or not raw.deliver(PEER_BYTES[a]):
                out_of_bounds()          # no open connection: the bytes go nowhere (same as idle)
            if a in (A_P_ABORT, A_P_PABORT):
                self.must_end = True
            if a == A_P_TRUNC:
                raw.peer_closed = True
                self.must_end = True
            if a == A_P_RQ_LATE:
                if not dul.artim_timer.running:
                    out_of_bounds()
                self.clock.jump_after = 1   # after the reactor's expiry check of this iteration
                self.late_jump = True
            if a == A_T_RQ:
                # two environment events between two iterations: the ARTIM deadline has passed AND the peer's
                # request has become readable; PS3.8: the expiry is what the provider sees first (ARTIM is checked
                # at the top of every iteration)
                if not dul.artim_timer.running:
                    out_of_bounds()
                self.clock.jump_after = 0
                self.must_end = True
        elif a == A_P_CLOSE or a == A_P_RESET:
            if raw.connected_to is None or raw.peer_closed or raw.reset or raw.closed_local:
                out_of_bounds()
            if a == A_P_CLOSE:
                raw.peer_closed = True
            else:
                raw.reset = True
            self.must_end = True
        elif a == A_L_CLOSE:
            # the local side drops the connection through the public transport API
            if raw.connected_to is None or raw.peer_closed or raw.reset or raw.closed_local or dul.socket is None:
                out_of_bounds()
            dul.socket.close()               # real code: shuts the socket down and queues Evt17
            self.must_end = True
        elif a == A_T:
            if not dul.artim_timer.running:
                out_of_bounds()          # a jump of the clock while ARTIM is not running changes nothing
            self.clock.jump_after = 0
            self.must_end = True
        elif a == A_CONSUME:
            if dul.to_user_queue.empty():
                out_of_bounds()          # nothing to consume (same as idle)
            item = dul.receive_pdu(wait=False)     # real code (triggers EVT_ACSE_RECV)
            self.user.consumed(item)
        else:
            if a == A_U_PDATA_RST:
                # two environment events between two iterations: the user's P-DATA request is queued and the
                # peer's RST arrives before the reactor looks at either
                if raw.connected_to is None or raw.peer_closed or raw.reset or raw.closed_local:
                    out_of_bounds()
                raw.reset = True
                self.must_end = True
                a = A_U_PDATA
            u = USER_ACTS[a]
            if not self.user.admissible(u):
                out_of_bounds()          # the contract does not allow this primitive in the user's view
            with untraced():
                prim = R.user_primitive(u)
            self.issued[id(prim)] = (u, self.user.view)
            self._keep = getattr(self, "_keep", []) + [prim]   # keep ids unique for the run
            dul.send_pdu(prim)                     # real code (triggers EVT_ACSE_SENT)
            self.user.sent(u)
            if u in (R.U_ABORT, R.U_ABORT2, R.U_PABORT):
                self.must_end = True

    def on_step(self, i):
        if self.p.dul._kill_thread:
            return                       # the reactor is about to leave its loop
        n = len(self.steps)
        if i < n:
            k = _concrete(self.steps[i])     # realise the action index (the search tree enumerates its values)
            with untraced():
                self.trace.append((i, ACTION_NAMES[k], self.p.state))
            self.perform(k)
        elif i >= n + IDLE_TAIL:
            raise R.Stop()

    # -- classification of an InvalidEventError ------------------------------------------------------
    def stale_user_primitive(self):
        """True iff the refused event stems from a primitive of the local user that was admissible in the
        user's view when it was issued although the provider had already issued an indication - still
        unconsumed on to_user_queue - whose consumption would have made it inadmissible."""
        if self.refused not in spec.USER_EVENTS or self.offender is None:
            return False
        pending = list(self.p.dul.to_user_queue.queue)
        if not pending:
            return False
        u, view_at_issue = self.offender
        v = R.UserView(view_at_issue, self.user.requestor)
        for item in pending:
            v.consumed(item)
        return not v.admissible(u)

    def run(self):
        """Run the schedule; returns "ok", "bad" or "invalid-event"."""
        p, dul = self.p, self.p.dul
        # observation only: remember the event handed to the state machine
        real_do_action = dul.state_machine.do_action

        def do_action(event):
            self.refused = event
            return real_do_action(event)
        dul.state_machine.do_action = do_action
        with R.patched_modules(self.clock):
            try:
                how = p.run(self.on_step)
            except InvalidEventError:
                # raised before anything is consumed: the offending primitive is still the head of the queue
                self.failed = (self.refused, p.state)
                q = dul.to_provider_queue.queue
                self.offender = self.issued.get(id(q[0])) if len(q) else None
                return "invalid-event"
            except Exception as exc:   # noqa: BLE001 - any other exception escaping the reactor is a failure
                self.failed = ("exception", repr(exc))
                return "bad"
        self.how = how
        if how == "returned":
            ok = p.state == "Sta1" and p.transport_closed and dul._kill_thread
        else:
            ok = not dul._kill_thread and p.state != "Sta13" and not p.raw.closed_local
            ok = ok and dul.to_provider_queue.empty() and dul.event_queue.empty()
            if p.state == "Sta1":
                ok = ok and self.start_state == "Sta1" and not self.anything
            ok = ok and not self.must_end
        return "ok" if ok else "bad"


def _run(start, steps):
    r = Run(start, steps)
    return r, r.run()


def _judge(start, steps):
    r, out = _run(start, steps)
    if out == "ok":
        return True
    if out == "invalid-event":
        ev, state = r.failed
        cell = (ev, state)
        if h.excluded(KF_STALE) and cell in _kf_cells(KF_STALE) and r.stale_user_primitive():
            out_of_bounds()
        if (h.excluded(KF_ABORT_STA2) and cell in _kf_cells(KF_ABORT_STA2) and r.offender is not None
                and r.offender[1] == V_ACC_WAIT):
            out_of_bounds()
        if h.excluded(KF_ARTIM) and cell in _kf_cells(KF_ARTIM) and not r.p.dul.artim_timer.running and r.late_jump:
            out_of_bounds()
    return False


def classify(start, steps):
    """Concrete classification of a schedule (used by the `match` expressions of the known findings)."""
    r, out = _run(start, list(steps))
    if out != "invalid-event":
        return out
    ev, state = r.failed
    if r.stale_user_primitive():
        return KF_STALE
    if ev == "Evt15" and state in ("Sta2", "Sta13") and r.offender is not None and r.offender[1] == V_ACC_WAIT:
        return KF_ABORT_STA2
    if ev == "Evt18" and not r.p.dul.artim_timer.running and r.late_jump:
        return KF_ARTIM
    return "invalid-event"


def explain(start, steps):
    """Human-readable replay of a schedule (diagnostics)."""
    r, out = _run(start, list(steps))
    return {"start": STARTS[start][:2], "outcome": out, "failed": getattr(r, "failed", None),
            "how": getattr(r, "how", None), "final_state": r.p.state, "trace": r.trace,
            "steps": [ACTION_NAMES[a] for a in steps], "class": classify(start, steps)}


def _e2e(args, sh):
    """End-to-end reproducer for the family the counterexample belongs to (real sockets and threads, no stub)."""
    from harness import C05_e2e

    start, steps = sh.get("start", 3), list(args["steps"])
    cls = classify(start, steps)
    r, _out = _run(start, steps)
    cell = r.failed
    if cls == KF_ARTIM:
        name = "artim"
    elif cls == KF_ABORT_STA2:
        name = "abort_sta2"           # representative of the family: Evt15 in Sta2 through AE.shutdown()
    elif cls == KF_STALE:
        name = "rel_sta8" if cell == ("Evt11", "Sta8") else "pdata_sta13"   # representative of the Sta13 cells: Evt9
    else:
        return False, "no end-to-end reproducer for class %r cell %r" % (cls, cell)
    ok, tail = C05_e2e.run(name)
    return ok, "cell %r, class %s, reproducer %s: %s" % (cell, cls, name, tail)


_STARTS_QUICK = list(range(13))
_STARTS_THOROUGH = list(range(17))


def first_admissible(run_cls, start, first):
    """Is `first` an admissible first environment action in start configuration `start`?  (Decided by executing
    that single step concretely; an inadmissible first action makes every schedule of the shard fall outside the
    precondition, so such shards are not generated.)"""
    from crosshair.util import IgnoreAttempt

    try:
        r = run_cls(start, [first])
        with R.patched_modules(r.clock):
            r.on_step(0)
    except IgnoreAttempt:
        return False
    return True


def wholly_known(start, first):
    """True iff every schedule of the shard (start, first) lies in the region of a listed, unrepaired finding (the
    provider thread dies with that finding whatever follows).  Such a shard would be vacuous once the regions are
    excluded, so it is not generated; the finding itself is replayed from its recorded witness on every run."""
    import itertools

    from crosshair.util import IgnoreAttempt

    listed = set(_KF_CELLS)
    if not listed or classify(start, [first] + [A_IDLE] * (N - 1)) not in listed:
        return False
    for rest in itertools.product(range(NA_FULL), repeat=N - 1):
        try:
            if classify(start, [first] + list(rest)) not in listed:
                return False
        except IgnoreAttempt:
            continue
    return True


def _shards():
    starts = tier(_STARTS_QUICK, _STARTS_THOROUGH)
    if tier(True, False):
        return [{"start": s} for s in starts]
    return [{"start": s, "first": f} for s in starts for f in range(NA_FULL)
            if first_admissible(Run, s, f) and not wholly_known(s, f)]


_FIRST = shard("first", -1)
_START = shard("start", 3)


@harness(
    "C05",
    timeout=(600, 1500),
    shards=_shards,
    functions=["dul:DULServiceProvider.run_reactor", "dul:DULServiceProvider._process_recv_primitive",
               "dul:DULServiceProvider._is_transport_event", "dul:DULServiceProvider._read_pdu_data",
               "dul:DULServiceProvider._decode_pdu", "dul:DULServiceProvider._send", "dul:DULServiceProvider.send_pdu",
               "dul:DULServiceProvider.receive_pdu", "fsm:StateMachine.do_action", "fsm:AE_*/DT_*/AR_*/AA_*",
               "transport:AssociationSocket.ready/recv/send/close/connect/_shutdown_socket", "timer:Timer.*"],
    bounds="start configuration enumerated (quick: Sta1 requestor with/without connect failure, Sta2, Sta3, Sta5, Sta6, Sta7, "
           "Sta8, Sta13 in the roles that can be in them, 13 configurations; thorough: also Sta9-Sta12, 17 configurations); "
           "every schedule of exactly %d environment actions (idle is one of them, so shorter schedules are included) from an "
           "alphabet of %d actions (quick) / 30 (thorough), followed by %d idle iterations.  Solver-enumerated." % (
               N, NA_QUICK + 2, IDLE_TAIL),
    stubs=R.STUBS + ["UserView: the local user's primitives are restricted by the contract automaton of DESIGN C05 (its view "
                     "= what it has sent and consumed); consuming the oldest indication is itself an environment action"],
    outside="schedules longer than the bound; pre-emption inside one reactor iteration (except the clock passing the ARTIM "
            "deadline between the expiry check and the action, which is an action of the alphabet); TCP segmentation of "
            "PDUs (C03); the association thread itself (C06/C07)",
    findings=[KF_STALE, KF_ABORT_STA2, KF_ARTIM],
    e2e=_e2e,
)
def reactor_schedule(steps: List[int]) -> bool:
    """
    pre: len(steps) == N
    pre: all(in_alphabet(a) for a in steps)
    pre: _FIRST < 0 or steps[0] == _FIRST
    post: _ == True
    """
    return _judge(_START, steps)
