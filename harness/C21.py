"""C21 - handler results map to response status and data as documented.

Same executions as C20 (real `<ServiceClass>.SCP` and kernels against the recording stubs of
vlib/stubs/scp_f.py), judged against the documented mapping in spec/status_docs.py:

  int status                     -> that status
  Dataset with Status            -> that status, and every optional status element of the dataset
                                    that the response primitive knows is copied (ErrorComment,
                                    OffendingElement)
  Dataset without Status         -> 0xC001          other type -> 0xC002
  handler exception              -> 0xC211 / 0xC311 / 0xC411 / 0xC511 / 0x0110, C-ECHO -> 0x0000
                                    (C-ECHO also answers 0x0000 for an invalid status object)
  Pending C-FIND result whose identifier cannot be encoded -> 0xC312; DIMSE-N Success/Warning whose
  dataset cannot be encoded -> 0x0110
  C-GET / C-MOVE preamble        -> 0xC413 / 0xC513 (bad count), 0xC416 / 0xC516 (> 65535), 0xC514,
                                    0xC515, 0xA801
  the dataset encoded into a response is the very object the handler supplied.

The expected *sequence* of statuses is computed by a small reference model (`expected_find`,
`expected_retrieve` below) that only uses the documented rules: a Pending status continues, 0xB001
continues on Repository Query, everything else ends the operation with that status; the SCP adds
0x0000 when the handler finishes (C-FIND) or the status computed from the counters (C-GET/C-MOVE).
"""
from typing import List

from vlib.shim import *  # noqa: F401,F403
from vlib.h import harness, tier, shard
from vlib import kf  # noqa: F401
from vlib.stubs import scp_f as S
from spec import status_docs as D
from harness.C20 import POOL, STUBS, OUTSIDE, RET_FUNCS, N_FUNCS, later_restricted, run_preamble  # same stubs, same bounds vocabulary
from harness import C20 as _C20

N_SEQ = tier(2, 3)
N_OUT21 = tier(2, 3)
OUTSIDE21 = OUTSIDE + ("; 'reaches the requestor unchanged apart from the transfer syntax' is pydicom's codec (C25): here only that "
                       "the handler's dataset object is the one handed to encode(); optional status elements left over from an "
                       "EARLIER result of the same operation are not judged")


def _kshards(names):
    return [{"kernel": k} for k in names]


def _encodable(dk):
    return dk == S.DK_VALID


def _opt_ok(rec, script, i, service="C-FIND"):
    """Optional status elements of a status dataset are copied into the response (those the
    response of this DIMSE service has, spec.OPTIONAL_STATUS_ELEMENTS)."""
    if script.skinds[i] != S.SK_DS_STATUS and script.skinds[i] != S.SK_REAL_DS:
        return True
    known = D.OPTIONAL_STATUS_ELEMENTS[service]
    if "ErrorComment" in known and script.comment[i] and rec.opt["ErrorComment"] != "comment %d" % i:
        return False
    if "OffendingElement" in known and script.offending[i]:
        v = rec.opt["OffendingElement"]
        if v is None:
            return False
        with untraced():
            ok = [int(x) for x in (v if isinstance(v, (list, tuple)) or hasattr(v, "__iter__") else [v])] == [0x00100020]
        if not ok:
            return False
    return True


# ---------------------------------------------------------------------------------------------
def expected_find(kernel, script):
    """[(status, index of the handler result whose dataset must be the Identifier or None, result index or None)]"""
    pend = D.FIND_PENDING[kernel.find_model]
    repo = kernel.uid == D.REPOSITORY_QUERY_UID
    relevant = kernel.find_model == "relevant_patient"
    exp = []
    i = 0
    while True:
        if script.raise_at == i:
            exp.append((D.HANDLER_EXCEPTION["C-FIND"], None, None))
            return exp
        if i >= script.n:
            exp.append((D.SUCCESS, None, None))
            return exp
        kind = S.SK_NAME[script.skinds[i]]
        st = D.status_from_handler("C-FIND", kind, script.statuses[i] if kind in ("int", "ds_status") else None)
        is_p = False
        for p in pend:
            if st == p:
                is_p = True
        if is_p:
            if not _encodable(script.dkinds[i]):
                exp.append((D.UNENCODABLE["C-FIND"], None, i))
                return exp
            exp.append((st, i, i))
            if relevant:
                exp.append((D.SUCCESS, None, None))   # at most one match: PS3.4 Q.4.1.1
                return exp
            i += 1
            continue
        if repo and st == D.RESPONSE_LIMIT_WARNING:
            exp.append((st, None, i))
            i += 1
            continue
        exp.append((st, None, i))
        return exp


def judge_seq(r, script, exp, log, no_stale_data=False):
    """no_stale_data: a response for which the handler supplied no data set carries none (asserted for the kernels
    built on ServiceClass._c_find_scp, where only Pending responses carry an Identifier)."""
    if r.escaped is not None:
        return False
    if len(r.sent) != len(exp):
        return False
    for rec, (st, data_i, res_i) in zip(r.sent, exp):
        if rec.status != st:
            return False
        if data_i is not None:
            if rec.data is None:
                return False
            with untraced():
                same = log.dataset_of(rec.data) is script.data_objs[data_i]
            if not same:
                return False
        elif no_stale_data and rec.data is not None:
            return False
        if res_i is not None and rec.status == script.statuses[res_i] and not _opt_ok(rec, script, res_i):
            return False
    return True


FIND_FUNCS = ["service_class:ServiceClass._c_find_scp", "service_class:RelevantPatientInformationQueryServiceClass.SCP",
              "service_class:QueryRetrieveServiceClass.SCP", "service_class:ServiceClass.validate_status",
              "service_class:ServiceClass._wrap_handler", "service_class:attempt.__exit__", "events:trigger"]
DK2 = [S.DK_VALID, S.DK_NONE]


@harness(
    "C21", timeout=(200, 1200), shards=_kshards(tier(["find_qr", "find_repo", "find_relevant"], S.FIND_KERNELS)),
    functions=FIND_FUNCS, stubs=STUBS, outside=OUTSIDE21,
    bounds="C-FIND (shard = service class); ONE handler result: status object of every kind {int, Dataset with Status + "
           "ErrorComment + OffendingElement, Dataset without Status, other type}, its value ANY int 0..65535; identifier valid or "
           "None; or the handler raises before it")
def c21_find_one(skind: int, status: int, with_ds: bool, raises: bool) -> bool:
    """
    pre: 0 <= skind <= 3
    pre: 0 <= status <= 65535
    post: _ == True
    """
    k = S.KERNELS[shard("kernel", "find_qr")]
    script = S.Script([skind], [status], [S.DK_VALID if with_ds else S.DK_NONE], raise_at=0 if raises else -1, comment=[True],
                      offending=[True])
    with S.scp_env() as log:
        r = S.run_kernel(k.name, 21, 3, script, log)
        return judge_seq(r, script, expected_find(k, script), log, no_stale_data=(k.name != "find_relevant"))


@harness(
    "C21", timeout=(200, 1200),
    shards=tier(_kshards(["find_qr", "find_repo"]), _kshards(S.FIND_KERNELS) + [{"kernel": k, "full": 1} for k in ("find_qr", "find_repo")]),
    functions=FIND_FUNCS, stubs=STUBS, outside=OUTSIDE21,
    bounds="C-FIND; handler yields <= %d results; status object of every kind with a value from the %d-element pool; identifier "
           "of every kind {None, valid, empty, non-Dataset, unencodable} (every kind on the first result, later results int "
           "status and identifier in {None, valid, non-Dataset}; thorough 'full' shards: every kind on each of 2 results); exception point" % (N_SEQ, len(POOL)))
def c21_find_seq(skinds: List[int], spool: List[int], dkinds: List[int], raise_at: int) -> bool:
    """
    pre: len(skinds) <= (N_SEQ if later_restricted() else 2) and len(spool) == len(skinds) and len(dkinds) == len(skinds)
    pre: all(0 <= k <= 3 for k in skinds) and all(0 <= p < len(POOL) for p in spool) and all(0 <= d <= 4 for d in dkinds)
    pre: -1 <= raise_at <= len(skinds)
    pre: not later_restricted() or (all(k == 0 for k in skinds[1:]) and all(d == 0 or d == 1 or d == 3 for d in dkinds[1:]))
    post: _ == True
    """
    k = S.KERNELS[shard("kernel", "find_qr")]
    script = S.Script(skinds, S.LazyPool(spool, POOL), dkinds, raise_at=raise_at)
    with S.scp_env() as log:
        r = S.run_kernel(k.name, 21, 3, script, log)
        return judge_seq(r, script, expected_find(k, script), log, no_stale_data=(k.name != "find_relevant"))


# ---------------------------------------------------------------------------------------------
def judge_pair(r, script, kernel, log):
    """DIMSE-N kernels returning (status, dataset): one response."""
    if r.escaped is not None or len(r.sent) != 1:
        return False
    rec = r.sent[0]
    svc = kernel.service
    if script.raise_at == 0:
        return rec.status == D.HANDLER_EXCEPTION[svc] and rec.data is None
    kind = S.SK_NAME[script.skinds[0]]
    st = D.status_from_handler(svc, kind, script.statuses[0] if kind in ("int", "ds_status") else None)
    dk = script.dkinds[0]
    truthy_bad = dk == S.DK_JUNK or dk == S.DK_UNENCODABLE
    if rec.data is not None:
        # a dataset is only attached to Success / Warning, and it is the handler's
        if not (st == D.SUCCESS or D.is_warning_class(st)):
            return False
        with untraced():
            same = log.dataset_of(rec.data) is script.data_objs[0]
        if not same or rec.status != st:
            return False
        return _opt_ok(rec, script, 0, svc)
    if st == D.SUCCESS:
        if dk == S.DK_VALID:
            return False                     # the handler's dataset is missing
        if truthy_bad:
            return rec.status == D.UNENCODABLE[svc]
        return rec.status == D.SUCCESS
    if rec.status == st:
        return _opt_ok(rec, script, 0, svc)
    # only documented deviation: a Warning-class status whose dataset cannot be encoded
    return truthy_bad and D.is_warning_class(st) and rec.status == D.UNENCODABLE[svc]


QUICK_PAIR = ["PrintManagement.N_CREATE", "PrintManagement.N_EVENT_REPORT", "PrintManagement.N_GET", "PrintManagement.N_SET",
              "PrintManagement.N_ACTION"]


PAIR_OUTSIDE = OUTSIDE21 + ("; whether a Warning-class status is attached a dataset depends on the service class table and is only "
                            "judged one way (a dataset is never attached to a Failure/unknown status, a valid one always to Success)")
DK3 = [S.DK_NONE, S.DK_VALID, S.DK_UNENCODABLE]


@harness(
    "C21", timeout=(150, 900), shards=_kshards(tier(QUICK_PAIR, S.PAIR_KERNELS)), functions=N_FUNCS, stubs=STUBS,
    outside=PAIR_OUTSIDE,
    bounds="DIMSE-N (status, dataset) services, every (service class, primitive) pair (quick: the five kernels on Print "
           "Management); status object of every kind (status datasets carry ErrorComment), value ANY int 0..65535; dataset in "
           "{None, valid, unencodable}; handler raises")
def c21_n_pair(skind: int, status: int, dk: int, raises: bool) -> bool:
    """
    pre: 0 <= skind <= 3 and 0 <= dk <= 2
    pre: 0 <= status <= 65535
    post: _ == True
    """
    k = S.KERNELS[shard("kernel", "PrintManagement.N_ACTION")]
    script = S.Script([skind], [status], [DK3[dk]], raise_at=0 if raises else -1, comment=[True])
    with S.scp_env() as log:
        r = S.run_kernel(k.name, 21, 3, script, log)
        return judge_pair(r, script, k, log)


@harness(
    "C21", timeout=(100, 600), shards=_kshards(tier(QUICK_PAIR, S.PAIR_KERNELS)), functions=N_FUNCS, stubs=STUBS, outside=PAIR_OUTSIDE,
    bounds="DIMSE-N (status, dataset) services: status object of every kind with a value from the %d-element pool, optional "
           "ErrorComment; dataset of every kind {None, valid, empty, non-Dataset, unencodable}" % len(POOL))
def c21_n_pair_kinds(skind: int, sp: int, dkind: int, with_opt: bool) -> bool:
    """
    pre: 0 <= skind <= 3 and 0 <= dkind <= 4 and 0 <= sp < len(POOL)
    post: _ == True
    """
    k = S.KERNELS[shard("kernel", "PrintManagement.N_ACTION")]
    script = S.Script([skind], S.LazyPool([sp], POOL), [dkind], comment=[with_opt])
    with S.scp_env() as log:
        r = S.run_kernel(k.name, 21, 3, script, log)
        return judge_pair(r, script, k, log)


TS_POOL4 = ["1.2.840.10008.1.2", "1.2.840.10008.1.2.1", "1.2.840.10008.1.2.1.99", "1.2.840.10008.1.2.2"]
TS_FLAGS = [(True, True, False), (False, True, False), (False, True, True), (False, False, False)]   # PS3.5 Annex A
ENC_KERNELS = ["find_qr", "find_relevant", "PrintManagement.N_CREATE", "PrintManagement.N_EVENT_REPORT", "PrintManagement.N_GET",
               "PrintManagement.N_SET", "PrintManagement.N_ACTION"]


@harness(
    "C21", timeout=(100, 400), shards=_kshards(tier(ENC_KERNELS, ENC_KERNELS + [n for n in S.PAIR_KERNELS if n not in ENC_KERNELS])),
    functions=["service_class:ServiceClass._c_find_scp", "service_class:ServiceClass._n_*_scp"], stubs=STUBS,
    outside=OUTSIDE21,
    bounds="the request's presentation context has transfer syntax Implicit VR LE / Explicit VR LE / Deflated Explicit VR LE / "
           "Explicit VR BE (solver-enumerated); the handler supplies a valid data set with Pending (C-FIND) or Success (DIMSE-N): "
           "every data set handed to the encoder is encoded with exactly the (implicit VR, little endian, deflated) flags of "
           "that transfer syntax")
def c21_reply_encoding(t: int) -> bool:
    """
    pre: 0 <= t <= 3
    post: _ == True
    """
    k = S.KERNELS[shard("kernel", "PrintManagement.N_ACTION")]
    if k.style == "find":
        script = S.Script([S.SK_INT], [0xFF00], [S.DK_VALID])
    else:
        script = S.Script([S.SK_INT], [0x0000], [S.DK_VALID])
    want = None
    ts = None
    for i in range(4):
        if t == i:
            ts, want = TS_POOL4[i], TS_FLAGS[i]
    with S.scp_env() as log:
        r = S.run_kernel(k.name, 21, 3, script, log, ts=ts)
        if r.escaped is not None:
            return False
        if len(log.flags) < 1:
            return False
        for f in log.flags:
            if (bool(f[0]), bool(f[1]), bool(f[2])) != want:
                return False
    return True


def _drop_instance_uid(req):
    req.AffectedSOPInstanceUID = None


@harness(
    "C21", timeout=(100, 600), shards=_kshards(tier(["PrintManagement.N_CREATE"], [n for n in S.PAIR_KERNELS if n.endswith("N_CREATE")])),
    functions=["service_class:ServiceClass._n_create_scp", "service_class:ServiceClass.validate_status"], stubs=STUBS,
    outside=PAIR_OUTSIDE,
    bounds="N-CREATE request WITHOUT an Affected SOP Instance UID; handler returns (status, dataset) with the status object of "
           "every kind, value ANY int 0..65535, dataset in {None, valid (without an AffectedSOPInstanceUID element), "
           "unencodable}: Success cannot be honoured (PS3.7 10.1.5.1.4: 0x0110, no data), every other status is mapped as for a "
           "request that carries the UID")
def c21_n_create_no_uid(skind: int, status: int, dk: int) -> bool:
    """
    pre: 0 <= skind <= 3 and 0 <= dk <= 2
    pre: 0 <= status <= 65535
    post: _ == True
    """
    k = S.KERNELS[shard("kernel", "PrintManagement.N_CREATE")]
    script = S.Script([skind], [status], [DK3[dk]], comment=[True])
    with S.scp_env() as log:
        r = S.run_kernel(k.name, 21, 3, script, log, req_edit=_drop_instance_uid)
        if r.escaped is not None or len(r.sent) != 1:
            return False
        kind = S.SK_NAME[skind]
        st = D.status_from_handler(k.service, kind, status if kind in ("int", "ds_status") else None)
        if st == D.SUCCESS:
            return r.sent[0].status == 0x0110 and r.sent[0].data is None
        return judge_pair(r, script, k, log)


@harness(
    "C21", timeout=(100, 600), shards=_kshards(S.STATUS_KERNELS), stubs=STUBS, outside=OUTSIDE21,
    functions=["service_class:VerificationServiceClass.SCP", "service_class:StorageServiceClass.SCP",
               "service_class:ServiceClass._n_delete_scp", "service_class:ServiceClass.validate_status", "events:trigger"],
    bounds="C-ECHO, C-STORE (Storage, Non-Patient Object Storage), N-DELETE: status object of every kind, value ANY int "
           "0..65535 (status datasets carry ErrorComment); handler raises")
def c21_status_only(skind: int, status: int, raises: bool) -> bool:
    """
    pre: 0 <= skind <= 3
    pre: 0 <= status <= 65535
    post: _ == True
    """
    k = S.KERNELS[shard("kernel", "echo")]
    script = S.Script([skind], [status], [S.DK_NONE], raise_at=0 if raises else -1, comment=[True])
    with S.scp_env() as log:
        r = S.run_kernel(k.name, 21, 3, script, log)
    if r.escaped is not None or len(r.sent) != 1:
        return False
    rec = r.sent[0]
    if raises:
        return rec.status == D.HANDLER_EXCEPTION[k.service]
    kind = S.SK_NAME[skind]
    st = D.status_from_handler(k.service, kind, status if kind in ("int", "ds_status") else None)
    return rec.status == st and rec.data is None and _opt_ok(rec, script, 0, k.service)


# ---------------------------------------------------------------------------------------------
def expected_retrieve(kernel, script, n, outcomes):
    """Statuses a C-GET / C-MOVE SCP sends for N announced sub-operations (reference model)."""
    svc = kernel.service
    exp = []
    rem, nf, nw = n, 0, 0
    i = sub = 0
    while True:
        exc = script.raise_at == i
        if i >= script.n and not exc:
            break
        if rem <= 0:
            break                      # further results are ignored once all sub-operations are done
        if exc:
            exp.append(D.HANDLER_EXCEPTION[svc])
            return exp
        kind = S.SK_NAME[script.skinds[i]]
        st = D.status_from_handler(svc, kind, script.statuses[i] if kind in ("int", "ds_status") else None)
        if st == 0xFF00:
            dk = script.dkinds[i]
            if dk == S.DK_JUNK:
                # counted as a failed sub-operation; `remaining` is left alone (behaviour pinned by
                # test_service_qr.py::test_*_handler_invalid_dataset; the counter arithmetic is C22's subject)
                nf += 1
                exp.append(0xFF00)
            elif dk == S.DK_VALID or dk == S.DK_UNENCODABLE:
                o = outcomes[sub]
                sub += 1
                if o == S.SUB_SUCCESS:
                    pass
                elif o == S.SUB_WARNING:
                    nw += 1
                else:
                    nf += 1
                rem -= 1
                exp.append(0xFF00)
            i += 1
            continue
        if st == D.SUCCESS:
            exp.append(D.RETRIEVE_WARNING if (nf or nw) else D.SUCCESS)
            return exp
        exp.append(st)
        return exp
    exp.append(D.retrieve_final_status(n, nf, nw))
    return exp


@harness(
    "C21", timeout=(400, 1200), functions=RET_FUNCS, stubs=STUBS, outside=OUTSIDE21,
    shards=tier(_kshards(["get_qr", "move_qr"]),
                [{"kernel": k, "n": n} for k in ("get_qr", "move_qr") for n in (1, 2, 3)]
                + [{"kernel": k, "n": n, "full": 1} for k in ("get_qr", "move_qr") for n in (1, 2, 3)]),
    bounds="C-GET / C-MOVE; N in {1, 2, 3} (quick: 2); handler yields <= %d results; status object of every kind with a value from "
           "the %d-element pool; dataset of every kind (every kind on the first result; thorough 'full' shards: on each of 2 results); sub-operation outcome from "
           "{success, warning, failure[, exception]}; exception point" % (N_SEQ, len(POOL)))
def c21_retrieve_seq(n_sub: int, skinds: List[int], spool: List[int], dkinds: List[int], outcomes: List[int], raise_at: int) -> bool:
    """
    pre: _C20.N_SUBMIN <= n_sub <= _C20.N_SUBMAX
    pre: shard("n") is None or n_sub == shard("n")
    pre: len(skinds) <= (N_SEQ if later_restricted() else 2) and len(spool) == len(skinds) and len(dkinds) == len(skinds) and len(outcomes) == len(skinds)
    pre: all(0 <= k <= 3 for k in skinds) and all(0 <= p < len(POOL) for p in spool) and all(0 <= d <= 4 for d in dkinds)
    pre: all(0 <= o <= N_OUT21 for o in outcomes)
    pre: -1 <= raise_at <= len(skinds)
    pre: not later_restricted() or (all(k == 0 for k in skinds[1:]) and all(d == 0 or d == 1 or d == 3 for d in dkinds[1:]))
    post: _ == True
    """
    k = S.KERNELS[shard("kernel", "get_qr")]
    script = S.Script(skinds, S.LazyPool(spool, POOL), dkinds, raise_at=raise_at)
    with S.scp_env() as log:
        r = S.run_kernel(k.name, 21, 3, script, log, n_sub=n_sub, outcomes=outcomes)
    if r.escaped is not None:
        return False
    return [x.status for x in r.sent] == expected_retrieve(k, script, n_sub, outcomes)


@harness(
    "C21", timeout=(100, 600), shards=_kshards(["get_qr", "move_qr"]), functions=RET_FUNCS, stubs=STUBS, outside=OUTSIDE21,
    bounds="C-GET / C-MOVE preamble (see c20_retrieve_preamble): announced count ANY int -70000..70000, a non-number, missing; "
           "handler raises before its first / second yield or is no generator; destination (addr, port) / (None, None) / "
           "non-sequence / with kwargs; AE.associate raises / returns a rejected association")
def c21_retrieve_preamble(kind: int, count: int) -> bool:
    """
    pre: 0 <= kind <= 10
    pre: -70000 <= count <= 70000
    post: _ == True
    """
    k = S.KERNELS[shard("kernel", "get_qr")]
    svc = k.service
    with S.scp_env() as log:
        r = run_preamble(k.name, 21, kind, count, log)
    if r.escaped is not None:
        return False
    got = [x.status for x in r.sent]
    P = _C20
    move = k.style == "move"
    # the handler could not even be asked for its first value
    if kind == P.PRE_RAISE_FIRST or kind == P.PRE_NOT_GENERATOR:
        return got == [D.MOVE_NO_DESTINATION_YIELD if move else D.BAD_SUBOP_COUNT[svc]]
    if move:
        if kind == P.PRE_DEST_NONE:
            return got == [D.MOVE_UNKNOWN_DESTINATION]
        if kind == P.PRE_DEST_JUNK:
            return got == [D.MOVE_BAD_DESTINATION]
        if kind == P.PRE_RAISE_SECOND:
            return got == [D.BAD_SUBOP_COUNT[svc]]
    if kind == P.PRE_COUNT_JUNK or kind == P.PRE_COUNT_MISSING:
        return got == [D.BAD_SUBOP_COUNT[svc]]
    if count < 1:
        return got == [D.SUCCESS]
    if count > 65535:
        return got == [D.TOO_MANY_SUBOPS[svc]]
    if move and kind == P.PRE_ASSOC_RAISES:
        return got == [D.MOVE_BAD_DESTINATION]
    if move and kind == P.PRE_ASSOC_REJECTED:
        return got == [D.MOVE_UNKNOWN_DESTINATION]
    # one (Pending, dataset) result, sub-operation succeeds
    return got == [0xFF00, D.SUCCESS]


# ---------------------------------------------------------------------------------------------
REAL_KERNELS = ["find_qr", "echo", "store", "PrintManagement.N_ACTION", "get_qr"]


@harness(
    "C21", timeout=(150, 600), shards=_kshards(REAL_KERNELS), functions=["service_class:ServiceClass.validate_status",
                                                                         "service_class:VerificationServiceClass.SCP"],
    stubs=[s for s in STUBS if "StatusDS" not in s], outside=OUTSIDE21,
    bounds="fidelity of the StatusDS stand-in: the status object is a GENUINE pydicom Dataset with Status from the %d-element pool "
           "and optional ErrorComment / OffendingElement; one result; kernels: C-FIND, C-ECHO, C-STORE, N-ACTION, C-GET" % len(POOL))
def c21_real_status_ds(sp: int, with_comment: bool, with_offending: bool, dk: int) -> bool:
    """
    pre: 0 <= sp < len(POOL)
    pre: 0 <= dk <= 1
    post: _ == True
    """
    k = S.KERNELS[shard("kernel", "find_qr")]
    script = S.Script([S.SK_REAL_DS], [POOL[sp]], [S.DK_VALID if dk else S.DK_NONE], comment=[with_comment],
                      offending=[with_offending])
    with S.scp_env() as log:
        if k.style == "find":
            r = S.run_kernel(k.name, 21, 3, script, log)
            return judge_seq(r, script, expected_find(k, script), log, no_stale_data=(k.name != "find_relevant"))
        if k.style == "get":
            r = S.run_kernel(k.name, 21, 3, script, log, n_sub=2, outcomes=[S.SUB_SUCCESS])
            return r.escaped is None and [x.status for x in r.sent] == expected_retrieve(k, script, 2, [S.SUB_SUCCESS])
        r = S.run_kernel(k.name, 21, 3, script, log)
        if k.style == "pair":
            return judge_pair(r, script, k, log)
        if r.escaped is not None or len(r.sent) != 1:
            return False
        return r.sent[0].status == POOL[sp] and _opt_ok(r.sent[0], script, 0, k.service)


# ---------------------------------------------------------------------------------------------
EXC_TYPES = [S.Boom, ValueError, KeyError, TypeError, RuntimeError]


@harness(
    "C21", timeout=(60, 300), shards=_kshards(["find_relevant", "find_qr", "get_qr", "store", "PrintManagement.N_GET"]),
    functions=FIND_FUNCS, stubs=STUBS, outside=OUTSIDE21, findings=["C21-relevant-patient-typeerror-answered-success"],
    bounds="the TYPE of the exception a handler raises instead of producing its first (status, dataset) result: {custom Exception, "
           "ValueError, KeyError, TypeError, RuntimeError}; kernels: Relevant Patient C-FIND, Q/R C-FIND, C-GET, C-STORE, N-GET")
def c21_exception_type(exc: int) -> bool:
    """
    pre: 0 <= exc < len(EXC_TYPES)
    pre: not kf.skip("C21-relevant-patient-typeerror-answered-success", exc=exc)
    post: _ == True
    """
    k = S.KERNELS[shard("kernel", "find_relevant")]
    exc_type = S.Boom
    for i, t in enumerate(EXC_TYPES):      # (no list lookup by symbolic index: the element is a class)
        if exc == i:
            exc_type = t
    script = S.Script([S.SK_INT], [0xFF00], [S.DK_VALID], raise_at=0, exc_type=exc_type)
    with S.scp_env() as log:
        r = S.run_kernel(k.name, 21, 3, script, log, n_sub=1, outcomes=[S.SUB_SUCCESS])
    if r.escaped is not None or len(r.sent) != 1:
        return False
    return r.sent[0].status == D.HANDLER_EXCEPTION[k.service]
