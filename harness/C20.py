"""C20 - each service request gets Pending* then exactly one final response carrying the request's
message ID on the request's context; nothing after the final one; the final one may be missing only
when the handler or the peer ended the association first.

Real code: `<ServiceClass>.SCP` of every service class (dispatch), `ServiceClass._c_find_scp`,
`QueryRetrieveServiceClass._get_scp/_move_scp`, `ServiceClass._n_*_scp`, `VerificationServiceClass.SCP`,
`StorageServiceClass.SCP`, `RelevantPatientInformationQueryServiceClass.SCP`, `attempt`,
`validate_status`, `_wrap_handler`, `evt.trigger`, `Event.__init__`.
Environment (vlib/stubs/scp_f.py): StubAssoc / RecordingDimse / StubACSE / StubAE / StubStoreAssoc,
`dsutils.encode` stub, status tables as IntervalDicts of the live tables.  The handler behaviour is
the symbolic input.

An exception that escapes `SCP` counts as a missing final response: in the real reactor
`Association._serve_request` logs it and aborts the association itself, which the statement does not
allow as an excuse ("only when the handler or the peer aborted or released").
"""
from typing import List

from vlib.shim import *  # noqa: F401,F403
from vlib.h import harness, tier, shard
from vlib import kf
from vlib.stubs import scp_f as S
from spec import status_docs as D

N_SYM = tier(2, 3)       # results with solver-symbolic status
N_KIND = tier(2, 3)      # results with enumerated kinds
N_RET = tier(2, 3)       # C-GET / C-MOVE results

# statuses used where the *kind* of object is what varies (one representative per category + unknown)
POOL = tier([0xFF00, 0x0000, 0xB001, 0xA700, 0xFE00, 0xFFFF],
            [0xFF00, 0x0000, 0xB001, 0xA700, 0xFE00, 0xFFFF, 0xB000, 0x0107, 0xC000])
# 0xFF01 is left to the *_statuses harnesses (solver-symbolic status), where the known finding
# C20-pending-class-final-* delimits its region exactly
# Only the FIRST result varies over every kind; later ones: int status, dataset in {None, valid, non-Dataset} -
# except in the thorough shards marked "full" (every kind on each of 2 results).
LATER_INT = True


def later_restricted():
    return shard("full") is None


def n_kind():
    return N_KIND if shard("full") is None else 2
EVENTS = ["none", "raise", "end", "peer"]     # shard parameter "ev" of the *_kinds harnesses

STUBS = [
    "StubAssoc/RecordingDimse/StubACSE/StubAE/StubStoreAssoc stand in for the association, DIMSE provider, ACSE, AE and "
    "move-destination association (record only, no protocol logic)",
    "service_class.encode replaced by a stub with dsutils.encode's contract (bytes for a Dataset, b'' for an empty one, "
    "None for a non-Dataset or a dataset declared unencodable)",
    "status tables replaced by IntervalDict copies of the live tables (same membership and values)",
    "status datasets are StatusDS objects (a pydicom Dataset answering `in`/iteration from (keyword, value) pairs) so that "
    "their Status stays symbolic; fidelity checked against genuine pydicom datasets by the *_real_status_ds harness of C21",
    "SCP is called directly: Association._serve_request's lookup of the service class / context is C19's subject",
]
OUTSIDE = ("statuses outside 0..65535 (they fail in the DIMSE encoder, C16/C17); more results than the bound; handlers that "
           "block; pre-emption between threads; the bytes on the wire (C15-C17)")


def _ids_ok(r, msg_id, cx_id):
    for x in r.sent:
        if x.msg_id_rsp != msg_id or x.cx_id != cx_id:
            return False
    return True


def judge(r, msg_id, cx_id):
    """The C20 assertion on one observed run."""
    if r.escaped is not None:
        return False
    if not _ids_ok(r, msg_id, cx_id):
        return False
    repo = r.kernel.uid == D.REPOSITORY_QUERY_UID
    return D.well_formed_sequence([x.status for x in r.sent], repo, r.ended)


def _kshards(names):
    return [{"kernel": k} for k in names]


QUICK_FIND = ["find_qr", "find_repo", "find_relevant", "find_ups"]
ALL_FIND = S.FIND_KERNELS


# ---------------------------------------------------------------------------------------------
@harness(
    "C20", timeout=(150, 1200), shards=_kshards(tier(QUICK_FIND, ALL_FIND)),
    functions=["service_class:ServiceClass._c_find_scp", "service_class:RelevantPatientInformationQueryServiceClass.SCP",
               "service_class:QueryRetrieveServiceClass.SCP", "service_class:ServiceClass.validate_status",
               "service_class:ServiceClass._wrap_handler", "service_class:attempt.__exit__", "events:trigger"],
    bounds="C-FIND on each find-capable service class (shard); handler yields <= %d (status, identifier) pairs, each status ANY "
           "int 0..65535 (solver-symbolic), identifier a valid dataset; handler exception before any result, instead of "
           "any result, or after the last; message id any 0..65535; context id any odd 1..255" % N_SYM,
    stubs=STUBS, outside=OUTSIDE, findings=["C20-pending-class-final-relevant-patient", "C20-find-warning-not-final",
                                          "C20-relevant-patient-warning-no-response"])
def c20_find_statuses(msg_id: int, cx_id: int, statuses: List[int], raise_at: int) -> bool:
    """
    pre: 0 <= msg_id <= 65535
    pre: 1 <= cx_id <= 255 and cx_id % 2 == 1
    pre: len(statuses) <= N_SYM
    pre: all(0 <= s <= 65535 for s in statuses)
    pre: -1 <= raise_at <= len(statuses)
    pre: not kf.skip("C20-pending-class-final-relevant-patient", statuses=statuses, raise_at=raise_at)
    pre: not kf.skip("C20-find-warning-not-final", statuses=statuses, raise_at=raise_at)
    pre: not kf.skip("C20-relevant-patient-warning-no-response", statuses=statuses, raise_at=raise_at)
    post: _ == True
    """
    n = len(statuses)
    script = S.Script([S.SK_INT] * n, statuses, [S.DK_VALID] * n, raise_at=raise_at)
    with S.scp_env() as log:
        r = S.run_kernel(shard("kernel", "find_qr"), msg_id, cx_id, script, log)
    return judge(r, msg_id, cx_id)


def _kev(names):
    return [{"kernel": k, "ev": e} for k in names for e in EVENTS]


def _event_args(at, flag):
    """(raise_at, end_at, end_release, peer_end_at, peer_release) for this shard's event kind."""
    ev = shard("ev", "none")
    if ev == "raise":
        return at, -1, False, -1, False
    if ev == "end":
        return -1, at, flag, -1, False
    if ev == "peer":
        return -1, -1, False, at, flag
    return -1, -1, False, -1, False


def _event_pre(at, flag, n):
    ev = shard("ev", "none")
    if ev == "none":
        return at == -1 and not flag
    if ev == "raise":
        return 0 <= at <= n and not flag
    return 0 <= at <= n


@harness(
    "C20", timeout=(250, 1200),
    shards=tier(_kev(["find_qr", "find_repo"]) + [{"kernel": "find_relevant", "ev": e} for e in ("none", "raise")],
                _kev(ALL_FIND) + [{"kernel": k, "ev": e, "full": 1} for k in ("find_qr", "find_repo") for e in EVENTS]),
    functions=["service_class:ServiceClass._c_find_scp", "service_class:RelevantPatientInformationQueryServiceClass.SCP",
               "service_class:ServiceClass.validate_status", "service_class:ServiceClass._wrap_handler"],
    bounds="C-FIND; handler yields <= %d pairs; status object of every kind {int, Dataset with Status, Dataset without Status, "
           "other type} with the status value from a %d-element pool (one per category + unknown); identifier of every kind "
           "{None, valid, empty, non-Dataset, unencodable} (every kind on the first result, later results int status and identifier in {None, valid, non-Dataset}; thorough 'full' shards: every kind on each of 2 results); one event (shard): none / handler exception at any point / handler "
           "abort or release at any point / _wrap_handler notices a peer abort or release at any check" % (N_KIND, len(POOL)),
    stubs=STUBS, outside=OUTSIDE)
def c20_find_kinds(msg_id: int, skinds: List[int], spool: List[int], dkinds: List[int], at: int, flag: bool) -> bool:
    """
    pre: 0 <= msg_id <= 65535
    pre: len(skinds) <= n_kind() and len(spool) == len(skinds) and len(dkinds) == len(skinds)
    pre: all(0 <= k <= 3 for k in skinds) and all(0 <= p < len(POOL) for p in spool) and all(0 <= d <= 4 for d in dkinds)
    pre: _event_pre(at, flag, len(skinds))
    pre: not later_restricted() or (all(k == 0 for k in skinds[1:]) and all(d == 0 or d == 1 or d == 3 for d in dkinds[1:]))
    post: _ == True
    """
    raise_at, end_at, end_release, peer_end_at, peer_release = _event_args(at, flag)
    script = S.Script(skinds, S.LazyPool(spool, POOL), dkinds, raise_at=raise_at, end_at=end_at, end_release=end_release)
    with S.scp_env() as log:
        r = S.run_kernel(shard("kernel", "find_qr"), msg_id, 3, script, log, peer_end_at=peer_end_at,
                         peer_end_release=peer_release)
    return judge(r, msg_id, 3)


# ---------------------------------------------------------------------------------------------
RET_FUNCS = ["service_class:QueryRetrieveServiceClass.SCP", "service_class:QueryRetrieveServiceClass._get_scp",
             "service_class:QueryRetrieveServiceClass._move_scp", "service_class:ServiceClass.validate_status",
             "service_class:ServiceClass._wrap_handler", "service_class:attempt.__exit__", "events:trigger"]
RET_KERNELS = ["get_qr", "move_qr"]
N_SUBMIN = tier(2, 1)
N_SUBMAX = tier(2, 3)
N_OUTK = tier(2, 5)
OUTK = tier([S.SUB_SUCCESS, S.SUB_EXCEPTION, S.SUB_UNKNOWN_CODE],
            [S.SUB_SUCCESS, S.SUB_WARNING, S.SUB_FAILURE, S.SUB_EXCEPTION, S.SUB_UNKNOWN_CODE, S.SUB_NO_STATUS])


@harness(
    "C20", timeout=(150, 1200), shards=_kshards(RET_KERNELS), functions=RET_FUNCS,
    bounds="C-GET / C-MOVE (shard); announced number of sub-operations ANY int 1..65535; handler yields <= %d (status, dataset) "
           "pairs, each status ANY int 0..65535 with a valid dataset whose C-STORE sub-operation succeeds; handler "
           "exception point; message id any 0..65535" % N_RET,
    stubs=STUBS, outside=OUTSIDE, findings=["C20-pending-class-final-retrieve"])
def c20_retrieve_statuses(msg_id: int, n_sub: int, statuses: List[int], raise_at: int) -> bool:
    """
    pre: 0 <= msg_id <= 65535
    pre: 1 <= n_sub <= 65535
    pre: len(statuses) <= N_RET
    pre: all(0 <= s <= 65535 for s in statuses)
    pre: -1 <= raise_at <= len(statuses)
    pre: not kf.skip("C20-pending-class-final-retrieve", statuses=statuses, raise_at=raise_at, n_sub=n_sub)
    post: _ == True
    """
    n = len(statuses)
    script = S.Script([S.SK_INT] * n, statuses, [S.DK_VALID] * n, raise_at=raise_at)
    with S.scp_env() as log:
        r = S.run_kernel(shard("kernel", "get_qr"), msg_id, 5, script, log, n_sub=n_sub, outcomes=[S.SUB_SUCCESS] * n)
    return judge(r, msg_id, 5)


def _outk(o):
    return OUTK[o]


@harness(
    "C20", timeout=(400, 1200), functions=RET_FUNCS,
    shards=tier(_kev(["get_qr"]) + [{"kernel": "move_qr", "ev": e} for e in ("none", "end")],
                _kev(RET_KERNELS + ["get_nobulk"]) + [{"kernel": k, "ev": "none", "full": 1} for k in RET_KERNELS]),
    bounds="C-GET / C-MOVE; N in 1..%d (quick: N = 2); handler yields <= %d pairs; status object of every kind (first result; later "
           "results int; thorough 'full' shards: every kind on each of 2 results) with a value from a %d-element pool; dataset of every kind {None, valid, empty, non-Dataset, unencodable}; "
           "sub-operation outcome from %d kinds (quick {success, exception}; thorough {success, warning, failure, exception}); message id "
           "<= 60000 (the wrap-around of sub-operation ids is walked by c20_retrieve_statuses); one event (shard): none / handler exception / handler abort or release / peer abort or release noticed, at "
           "any point" % (N_SUBMAX, N_KIND, len(POOL), N_OUTK + 1),
    stubs=STUBS, outside=OUTSIDE)
def c20_retrieve_kinds(msg_id: int, n_sub: int, skinds: List[int], spool: List[int], dkinds: List[int], outcomes: List[int],
                       at: int, flag: bool) -> bool:
    """
    pre: 0 <= msg_id <= 60000
    pre: N_SUBMIN <= n_sub <= N_SUBMAX
    pre: len(skinds) <= n_kind() and len(spool) == len(skinds) and len(dkinds) == len(skinds) and len(outcomes) == len(skinds)
    pre: all(0 <= k <= 3 for k in skinds) and all(0 <= p < len(POOL) for p in spool) and all(0 <= d <= 4 for d in dkinds)
    pre: all(0 <= o <= N_OUTK for o in outcomes)
    pre: _event_pre(at, flag, len(skinds))
    pre: not later_restricted() or (all(k == 0 for k in skinds[1:]) and all(d == 0 or d == 1 or d == 3 for d in dkinds[1:]))
    post: _ == True
    """
    raise_at, end_at, end_release, peer_end_at, peer_release = _event_args(at, flag)
    script = S.Script(skinds, S.LazyPool(spool, POOL), dkinds, raise_at=raise_at, end_at=end_at, end_release=end_release)
    with S.scp_env() as log:
        r = S.run_kernel(shard("kernel", "get_qr"), msg_id, 5, script, log, n_sub=n_sub, outcomes=S.LazyMap(outcomes, _outk),
                         peer_end_at=peer_end_at, peer_end_release=peer_release)
    return judge(r, msg_id, 5)


# what the handler does before the (status, dataset) pairs: the announced count and, for C-MOVE, the destination
PRE_OK, PRE_COUNT_JUNK, PRE_COUNT_MISSING, PRE_RAISE_FIRST, PRE_NOT_GENERATOR, PRE_DEST_NONE, PRE_DEST_JUNK, \
    PRE_DEST_KWARGS, PRE_ASSOC_RAISES, PRE_ASSOC_REJECTED, PRE_RAISE_SECOND, PRE_END_FIRST = range(12)


def preamble_handler(kind, style, count, script, log):
    dest = ("127.0.0.1", 11112)

    def gen(event):
        if kind == PRE_RAISE_FIRST:
            raise S.Boom("before the first yield")
        if kind == PRE_END_FIRST:
            event.assoc.abort()
        if style == "move":
            if kind == PRE_DEST_NONE:
                yield (None, None)
            elif kind == PRE_DEST_JUNK:
                yield 42
            elif kind == PRE_DEST_KWARGS:
                yield ("127.0.0.1", 11112, {"ae_title": "OTHER"})
            else:
                yield dest
            if kind == PRE_RAISE_SECOND:
                raise S.Boom("before the second yield")
        if kind == PRE_COUNT_MISSING:
            return
        if kind == PRE_COUNT_JUNK:
            yield "three"
        else:
            yield count
        for i in range(script.n):
            script.produced = i + 1
            yield script.result(i, log)

    def not_gen(event):
        return None

    return not_gen if kind == PRE_NOT_GENERATOR else gen


def run_preamble(kname, msg_id, kind, count, log):
    k = S.KERNELS[kname]
    script = S.Script([S.SK_INT], [0xFF00], [S.DK_VALID])
    subops = S.SubOps([S.SUB_SUCCESS])
    store_assoc = S.StubStoreAssoc(subops, established=(kind != PRE_ASSOC_REJECTED))
    ae = S.StubAE(store_assoc, associate_raises=(kind == PRE_ASSOC_RAISES))
    assoc = S.StubAssoc(preamble_handler(kind, k.style, count, script, log), subops, ae)
    req, cx = k.request(msg_id), k.context(7)
    out = S.Run()
    out.escaped = None
    try:
        k.cls(assoc).SCP(req, cx)
    except Exception as e:
        out.escaped = e
    out.kernel, out.assoc, out.sent, out.subops, out.store_assoc, out.ae = k, assoc, assoc.dimse.sent, subops, store_assoc, ae
    out.ended = assoc.ended_by_handler
    out.script = script
    return out


@harness(
    "C20", timeout=(100, 600), shards=_kshards(RET_KERNELS), functions=RET_FUNCS,
    bounds="C-GET / C-MOVE preamble: announced count ANY int -70000..70000 or a non-number or missing; handler raises before its "
           "first / second yield; handler is not a generator; handler aborts first; C-MOVE destination (addr, port), (None, None), "
           "a non-sequence, or with kwargs; AE.associate raises or returns a rejected association; then one (Pending, dataset) pair",
    stubs=STUBS, outside=OUTSIDE)
def c20_retrieve_preamble(msg_id: int, kind: int, count: int) -> bool:
    """
    pre: 0 <= msg_id <= 65535
    pre: 0 <= kind <= 11
    pre: -70000 <= count <= 70000
    post: _ == True
    """
    with S.scp_env() as log:
        r = run_preamble(shard("kernel", "get_qr"), msg_id, kind, count, log)
    return judge(r, msg_id, 7)


# ---------------------------------------------------------------------------------------------
def judge_single(r, msg_id, cx_id):
    """C-ECHO / C-STORE / DIMSE-N: one request, one response (the response IS the final one whatever
    its status); none only if the handler ended the association."""
    if r.escaped is not None:
        return False
    if not _ids_ok(r, msg_id, cx_id):
        return False
    if len(r.sent) == 1:
        return True
    return len(r.sent) == 0 and r.ended


N_FUNCS = ["service_class:ServiceClass._n_action_scp", "service_class:ServiceClass._n_create_scp",
           "service_class:ServiceClass._n_delete_scp", "service_class:ServiceClass._n_event_report_scp",
           "service_class:ServiceClass._n_get_scp", "service_class:ServiceClass._n_set_scp",
           "service_class_n:*.SCP", "service_class:ServiceClass.validate_status", "service_class:attempt.__exit__",
           "events:trigger"]
QUICK_PAIR = ["PrintManagement.N_CREATE", "PrintManagement.N_EVENT_REPORT", "PrintManagement.N_GET", "PrintManagement.N_SET",
              "PrintManagement.N_ACTION"]


@harness(
    "C20", timeout=(100, 600), shards=_kshards(tier(QUICK_PAIR, S.PAIR_KERNELS)), functions=N_FUNCS,
    bounds="every (service class, DIMSE-N request) pair that returns (status, dataset) (shard; quick: 5 pairs covering the five "
           "_n_*_scp kernels, thorough: all %d); status object of every kind, its value ANY int 0..65535; dataset of every kind; "
           "handler raises / aborts / releases; message id any 0..65535; context id any odd 1..255" % len(S.PAIR_KERNELS),
    stubs=STUBS, outside=OUTSIDE)
def c20_n_pair(msg_id: int, cx_id: int, skind: int, status: int, dkind: int, raises: bool, ends: bool, end_release: bool) -> bool:
    """
    pre: 0 <= msg_id <= 65535
    pre: 1 <= cx_id <= 255 and cx_id % 2 == 1
    pre: 0 <= skind <= 3 and 0 <= dkind <= 4
    pre: 0 <= status <= 65535
    post: _ == True
    """
    script = S.Script([skind], [status], [dkind], raise_at=0 if raises else -1, end_at=0 if ends else -1, end_release=end_release)
    with S.scp_env() as log:
        r = S.run_kernel(shard("kernel", "PrintManagement.N_ACTION"), msg_id, cx_id, script, log)
    return judge_single(r, msg_id, cx_id)


@harness(
    "C20", timeout=(100, 600), shards=_kshards(S.STATUS_KERNELS),
    functions=["service_class:VerificationServiceClass.SCP", "service_class:StorageServiceClass.SCP",
               "service_class:ServiceClass._n_delete_scp", "service_class:ServiceClass.validate_status", "events:trigger"],
    bounds="C-ECHO, C-STORE (Storage and Non-Patient Object Storage), N-DELETE (Print Management, RT Machine Verification): "
           "status object of every kind, its value ANY int 0..65535; handler raises / aborts / releases; message id any "
           "0..65535; context id any odd 1..255",
    stubs=STUBS, outside=OUTSIDE)
def c20_status_only(msg_id: int, cx_id: int, skind: int, status: int, raises: bool, ends: bool, end_release: bool) -> bool:
    """
    pre: 0 <= msg_id <= 65535
    pre: 1 <= cx_id <= 255 and cx_id % 2 == 1
    pre: 0 <= skind <= 3
    pre: 0 <= status <= 65535
    post: _ == True
    """
    script = S.Script([skind], [status], [S.DK_NONE], raise_at=0 if raises else -1, end_at=0 if ends else -1,
                      end_release=end_release)
    with S.scp_env() as log:
        r = S.run_kernel(shard("kernel", "echo"), msg_id, cx_id, script, log)
    return judge_single(r, msg_id, cx_id)


# ---------------------------------------------------------------------------------------------
SHAPE_KERNELS = ["find_qr", "get_qr", "move_qr", "PrintManagement.N_ACTION", "PrintManagement.N_CREATE",
                 "PrintManagement.N_EVENT_REPORT", "PrintManagement.N_GET", "PrintManagement.N_SET", "find_relevant"]


@harness(
    "C20", timeout=(60, 300), shards=_kshards(SHAPE_KERNELS), functions=RET_FUNCS + N_FUNCS, stubs=STUBS, outside=OUTSIDE,
    findings=["C20-malformed-result-escapes-scp"],
    bounds="the SHAPE of a handler result for the services whose handler must supply (status, dataset): a pair, the bare status, "
           "a 3-tuple, or None; status from the pool; for generators the malformed result may be the first or the second")
def c20_result_shape(msg_id: int, shape: int, sp: int, second: bool) -> bool:
    """
    pre: 0 <= msg_id <= 65535
    pre: 0 <= shape <= 3 and 0 <= sp < len(POOL)
    pre: not kf.skip("C20-malformed-result-escapes-scp", shape=shape)
    post: _ == True
    """
    k = S.KERNELS[shard("kernel", "find_qr")]
    gen = k.style in ("find", "get", "move")
    two = gen and second
    n = 2 if two else 1
    script = S.Script([S.SK_INT] * n, [0xFF00, POOL[sp]] if two else [POOL[sp]], [S.DK_VALID] * n,
                      shape=([0, shape] if two else [shape]))
    with S.scp_env() as log:
        r = S.run_kernel(k.name, msg_id, 5, script, log, n_sub=3, outcomes=[S.SUB_SUCCESS] * n)
    if gen:
        return judge(r, msg_id, 5)
    return judge_single(r, msg_id, 5)


# ---------------------------------------------------------------------------------------------
# "For every VALID request": the decision what counts as a valid request is taken in
# Association._serve_request (is_valid_request), before the service class is entered.  Boundary values of
# the mandatory parameters (Message ID 0, Priority MEDIUM = 0, Action / Event Type ID 0) are valid.
from harness import C19 as _c19  # noqa: E402  (request builders / recording association of C19)


@harness(
    "C20", timeout=(90, 400), shards=[{"kind": k} for k in _c19.KINDS],
    functions=["association:Association._serve_request", "dimse_primitives:DIMSEPrimitive.is_valid_request",
               "sop_class:uid_to_service_class", "service_class:*.SCP"],
    stubs=["as C19 serve_request_context: recording DIMSE / ACSE / DUL, _abort_blocking recorded, every intervention event "
           "has a recording handler returning a minimal legal result"],
    bounds="one request of each of the 11 DIMSE request types (shard) on an accepted context, served by the real "
           "Association._serve_request: Message ID ANY int 0..65535 (solver-symbolic), Priority any of 0, 1, 2, Action / Event "
           "Type ID ANY int 0..65535",
    outside="handler behaviour (the other C20 harnesses), invalid requests")
def c20_valid_request_served(msg_id: int, priority: int, type_id: int) -> bool:
    """
    pre: 0 <= msg_id <= 65535
    pre: 0 <= priority <= 2
    pre: 0 <= type_id <= 65535
    post: _ == True
    """
    kind = shard("kind", "C_ECHO")
    with untraced():
        assoc = _c19.make_assoc(_c19.MODE_ACCEPTOR)
        calls = []
        _c19.bind_all(assoc, calls)
        msg = _c19.mk_request(kind)
        if kind == "C_MOVE":
            assoc.ae.associate = None  # never reached: the handler reports an unknown destination
        assoc._accepted_cx = _c19._accepted(_c19.sop_of(kind), 3, 5, False)
    msg.MessageID = msg_id
    if kind in ("C_STORE", "C_FIND", "C_GET", "C_MOVE"):
        msg.Priority = priority
    if kind == "N_ACTION":
        msg.ActionTypeID = type_id
    if kind == "N_EVENT_REPORT":
        msg.EventTypeID = type_id
    msg._context_id = 3
    assoc._serve_request(msg, 3)
    sent = assoc.dimse.sent
    if len(calls) != 1 or len(assoc.aborts) != 0 or len(sent) < 1:
        return False
    for s in sent:
        if s.context_id != 3 or not (s.rsp_id == msg_id):
            return False
    return True
