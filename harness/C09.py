"""C09 - protocol timers measure elapsed (monotonic) time, unaffected by wall-clock changes.

Real code: pynetdicom.timer.Timer (start/stop/restart/expired/remaining/timeout).
Environment: the `time` module reference inside pynetdicom.timer is replaced by a tick clock whose
i-th reading returns mono[i] from monotonic() and wall[i] from time(); mono is non-decreasing,
wall is unconstrained (the system clock may be stepped either way at any point).
"""
from typing import List

from vlib.shim import *  # noqa: F401,F403
from vlib.h import harness, shard, tier

import pynetdicom.timer as timer_mod
from pynetdicom.timer import Timer

N_OPS = tier(3, 5)
BIG = 10**9


class TickClock:
    def __init__(self, mono, wall):
        self.mono, self.wall, self.i = mono, wall, 0

    def _next(self, seq):
        v = seq[self.i]
        self.i += 1
        return v

    def monotonic(self):
        return self._next(self.mono)

    def time(self):
        return self._next(self.wall)

    def perf_counter(self):
        return self._next(self.mono)

    # nanosecond variants (same tick sequences, scaled): a timer that reads the wall clock through time_ns() is
    # still reading the wall clock
    def monotonic_ns(self):
        return self._next(self.mono) * 10**9

    def time_ns(self):
        return self._next(self.wall) * 10**9

    def perf_counter_ns(self):
        return self._next(self.mono) * 10**9

    def sleep(self, s):
        return None


class Oracle:
    """Elapsed-time semantics of the property statement, on monotonic readings only."""

    def __init__(self, timeout):
        self.timeout, self.start, self.end = timeout, None, None

    def elapsed(self, now):
        return (self.end if self.end is not None else now) - self.start

    def expired(self, now):
        if self.timeout is None or self.start is None:
            return False
        return self.elapsed(now) > self.timeout

    def remaining(self, now):
        if self.timeout is None:
            return 1
        if self.start is None:
            return self.timeout
        return self.timeout - self.elapsed(now)


def _nondecreasing(xs):
    return all(xs[i] <= xs[i + 1] for i in range(len(xs) - 1))


def _script_shards():
    # one process per script length and (for the longer scripts) first operations: a case split of the same bound
    out = []
    for n in range(N_OPS + 1):
        if n <= 2:
            out.append({"n": n})
        elif n <= 3:
            out += [{"n": n, "o0": a} for a in range(5)]
        else:
            out += [{"n": n, "o0": a, "o1": b} for a in range(5) for b in range(5)]
    return out


_N, _O0, _O1 = shard("n", 0), shard("o0", -1), shard("o1", -1)


@harness(
    "C09",
    timeout=(90, 900),
    shards=_script_shards,
    functions=["timer:Timer.start", "timer:Timer.stop", "timer:Timer.restart", "timer:Timer.expired",
               "timer:Timer.remaining", "timer:Timer.timeout"],
    bounds="operation scripts of <= %d operations from {start, stop, restart, set-timeout, read}; timeout any int "
           "in [0, 1e9] ticks or None; every clock reading any int (monotonic non-decreasing, wall unconstrained)" % N_OPS,
    stubs=["pynetdicom.timer.time replaced by a tick clock returning symbolic ints (float rounding of seconds is outside the claim)"],
    outside="float-valued clocks; scripts longer than the bound",
)
def timer_script(has_timeout: bool, timeout: int, ops: List[int], newto: List[int], mono: List[int], wall: List[int]) -> bool:
    """
    pre: 0 <= timeout <= BIG
    pre: len(ops) == _N and all(0 <= o <= 4 for o in ops)
    pre: _O0 < 0 or ops[0] == _O0
    pre: _O1 < 0 or ops[1] == _O1
    pre: len(newto) == len(ops) and all(-1 <= t <= BIG for t in newto)
    pre: len(mono) == len(ops) + 2 and len(wall) == len(mono)
    pre: all(0 <= m <= BIG for m in mono) and _nondecreasing(mono)
    pre: all(-BIG <= w <= BIG for w in wall)
    post: _ == True
    """
    clock = TickClock(mono, wall)
    saved = timer_mod.time
    timer_mod.time = clock
    try:
        t0 = timeout if has_timeout else None
        t = Timer(t0)
        o = Oracle(t0)
        ok = True
        for k, op in enumerate(ops):
            now = mono[clock.i] if clock.i < len(mono) else None
            if op == 0:
                t.start()
                o.start, o.end = now, None
            elif op == 1:
                t.stop()
                o.end = now
            elif op == 2:
                t.restart()
                o.start, o.end = now, None
            elif op == 3:
                v = None if newto[k] < 0 else newto[k]
                t.timeout = v
                o.timeout = v
            else:
                before = clock.i
                got = t.expired
                ok = ok and (got == o.expired(now))
                # at most one clock reading per query, and none when not running
                running = o.timeout is not None and o.start is not None and o.end is None
                ok = ok and (clock.i - before == (1 if running else 0))
        now = mono[clock.i]
        running = o.timeout is not None and o.start is not None and o.end is None
        ok = ok and (t.expired == o.expired(now))
        now2 = mono[clock.i] if running else now
        ok = ok and (t.remaining == o.remaining(now2))
        ok = ok and (t.timeout == o.timeout)
        return ok
    finally:
        timer_mod.time = saved


@harness(
    "C09",
    timeout=(30, 120),
    functions=["timer:Timer.start", "timer:Timer.expired", "timer:Timer.remaining"],
    bounds="start then one expiry query; timeout any int in [0, 1e9]; two monotonic and two wall readings, any ints",
    stubs=["pynetdicom.timer.time replaced by a tick clock returning symbolic ints"],
)
def timer_start_expired(timeout: int, m0: int, m1: int, w0: int, w1: int) -> bool:
    """
    pre: 0 <= timeout <= BIG
    pre: 0 <= m0 <= m1 <= BIG
    pre: -BIG <= w0 <= BIG and -BIG <= w1 <= BIG
    post: _ == True
    """
    clock = TickClock([m0, m1], [w0, w1])
    saved = timer_mod.time
    timer_mod.time = clock
    try:
        t = Timer(timeout)
        t.start()
        return t.expired == ((m1 - m0) > timeout)
    finally:
        timer_mod.time = saved


# ---------------------------------------------------------------------------------------------
# The ARTIM timer as the provider uses it: the reactor must notice the expiry (Evt18) from elapsed monotonic
# time alone - whatever the wall clock reads while it polls.
from harness import C05 as _c05  # noqa: E402  (single-thread reactor environment of C05)


@harness(
    "C09",
    timeout=(90, 300),
    shards=[{"start": s} for s in (0, 9, 10)],
    functions=["dul:DULServiceProvider.run_reactor", "timer:Timer.expired", "fsm:AA_2"],
    bounds="provider in Sta2 (acceptor) / Sta13 (either role) with ARTIM running; the monotonic clock passes the ARTIM "
           "deadline; every wall-clock reading (time.time) the reactor takes while polling is any int (solver-symbolic, "
           "up to 8 readings, unconstrained: the system clock may be stepped either way): the reactor processes Evt18, "
           "closes the transport and returns to Sta1",
    stubs=_c05.R.STUBS + ["time.time inside pynetdicom.dul / pynetdicom.timer returns the symbolic wall readings, "
                          "time.monotonic the tick clock"],
    outside="float clocks; more wall readings than the bound (further readings return the last one)",
)
def artim_expiry_in_reactor(wall: List[int]) -> bool:
    """
    pre: len(wall) <= 8
    pre: all(-BIG <= w <= BIG for w in wall)
    post: _ == True
    """
    r = _c05.Run(shard("start", 0), [_c05.A_T, _c05.A_IDLE])
    state = {"i": 0}

    def wall_time():
        i = state["i"]
        state["i"] = i + 1
        if i < len(wall):
            return wall[i]
        return wall[len(wall) - 1] if len(wall) > 0 else 0

    r.clock.time = wall_time
    out = r.run()
    return out == "ok" and r.p.state == "Sta1" and r.p.transport_closed
