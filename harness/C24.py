"""C24 - SCU calls surface each response exactly once, in order, stop at the first non-Pending
response, fail cleanly, and hold no lock while the response iterator is suspended.

Real code: Association._wrap_find_responses, _wrap_get_move_responses (with the real
_c_store_scp for interleaved sub-operation requests), _check_received_status, _handle_no_response,
send_c_echo / send_c_store / send_n_* (whole functions).
Environment: assoc.dimse is a stand-in holding the peer's response stream (an exhausted stream =
DIMSE timeout); association.decode is replaced by a stub that raises for the identifiers marked
undecodable (dataset decoding itself is pydicom's, DESIGN C25).
"""
from io import BytesIO
from typing import List

from vlib.shim import *  # noqa: F401,F403
from vlib.h import harness, tier, shard
from vlib import kf

from pydicom.dataset import Dataset
from pydicom.uid import UID

import pynetdicom.association as am
from pynetdicom import evt
from pynetdicom.dimse_primitives import (
    C_ECHO, C_FIND, C_GET, C_MOVE, C_STORE, N_ACTION, N_CREATE, N_DELETE, N_EVENT_REPORT, N_GET, N_SET,
)
from vlib.stubs.assoc_e import RecordingDimse, make_assoc, mk_cx, bio, MODE_REQUESTOR
from spec import assoc_e as spec

silence_loggers()


def _rng(xs, lo, hi):
    """all(lo <= x <= hi for x in xs) with early exit (CrossHair's all() does not short-circuit)"""
    for x in xs:
        if x < lo:
            return False
        if x > hi:
            return False
    return True

N_STREAM = tier(2, 3)

TS = UID("1.2.840.10008.1.2")
FIND_MODEL = UID("1.2.840.10008.5.1.4.1.2.1.1")
CT = "1.2.840.10008.5.1.4.1.1.2"
PRINT_JOB = "1.2.840.10008.5.1.1.14"     # any SOP class with DIMSE-N services


class Undecodable(Exception):
    pass


class BadBytesIO(BytesIO):
    """An identifier / reply data set that cannot be decoded (recognised by the decode stub)."""


def _mk_decode(decoded):
    def fake_decode(b, *a):
        if b is None or isinstance(b, BadBytesIO):
            raise Undecodable()
        ds = Dataset()
        decoded.append(ds)
        return ds

    return fake_decode


class PeerStream(RecordingDimse):
    """The peer's messages, built lazily: element i is only looked at (its kind realised) when the
    code under test asks for the i-th message, so elements after the terminating one stay untouched."""

    def __init__(self, cls, kinds, codes, wrong_cls):
        RecordingDimse.__init__(self)
        self.cls, self.kinds, self.codes, self.wrong_cls = cls, kinds, codes, wrong_cls
        self.pos = 0

    def get_msg(self, block=False):
        self.gets += 1
        i = self.pos
        if i >= len(self.kinds):
            return None, None
        self.pos += 1
        k = self.kinds[i]
        if k == spec.K_STORE_RQ:
            r = C_STORE()
            r.MessageID = 7
            r.AffectedSOPClassUID = CT
            r.AffectedSOPInstanceUID = "1.2.3"
            r.Priority = 2
            r.DataSet = bio()
            r._context_id = 3
            return 3, r
        if k == spec.K_WRONG_TYPE:
            r = self.wrong_cls()
            r.MessageIDBeingRespondedTo = 1
            r.Status = self.codes[i]
            return 1, r
        r = self.cls()
        r.MessageIDBeingRespondedTo = 1
        if k == spec.K_NO_STATUS:
            return 1, r
        r.Status = self.codes[i]
        if k == spec.K_RSP_IDENT_OK:
            r.Identifier = bio(b"ident")
        elif k == spec.K_RSP_IDENT_BAD:
            r.Identifier = BadBytesIO(b"ident")
        return 1, r


def _run_stream(gen_factory, cls, kinds, codes, getmove, repository_query=False):
    with untraced():
        assoc = make_assoc(MODE_REQUESTOR)
        assoc._accepted_cx = {3: mk_cx(CT, TS, 3, True, True)}
        stores = []
        assoc.bind(evt.EVT_C_STORE, lambda e: (stores.append(1), 0x0000)[1])
        assoc._reactor_checkpoint.clear()  # as send_c_find/get/move leave it (reactor paused)
    peer = PeerStream(cls, kinds, codes, C_ECHO)
    assoc.dimse = peer
    decoded = []
    saved = am.decode
    am.decode = _mk_decode(decoded)
    try:
        out = []
        resumed = []
        gen = gen_factory(assoc)
        for st, ident in gen:
            if assoc.lock.locked():
                return False  # a lock is held while the caller owns the suspended iterator
            out.append((st, ident))
            resumed.append(assoc._reactor_checkpoint.is_set())
        if assoc.lock.locked():
            return False
    finally:
        am.decode = saved
    exp, exp_abort, exp_stores = spec.expected_stream(kinds, codes, getmove, repository_query)
    if len(out) != len(exp):
        return False
    for (st, ident), (smark, imark) in zip(out, exp):
        if not isinstance(st, Dataset):
            return False
        if smark == spec.EMPTY:
            if len(st) != 0:
                return False
        else:
            if "Status" not in st or st.Status != codes[smark]:
                return False
        if imark == spec.NONE:
            if ident is not None:
                return False
        elif imark == spec.DATASET:
            if not isinstance(ident, Dataset):
                return False
        elif ident is not None and not isinstance(ident, Dataset):
            return False
    # identifiers are surfaced in order; every decoded object is surfaced exactly once
    surfaced = [i for _, i in out if i is not None]
    if len(surfaced) != len(decoded) or any(a is not b for a, b in zip(surfaced, decoded)):
        return False
    # documented abort on timeout / invalid / unexpected, and only then
    if (len(assoc.aborts) > 0) != exp_abort:
        return False
    # interleaved C-STORE sub-operation requests are served, never surfaced
    if len(stores) != exp_stores:
        return False
    if len(peer.sent) != exp_stores or any(s.kind != "C_STORE" or s.context_id != 3 for s in peer.sent):
        return False
    # fail cleanly: the reactor is resumed once the iterator is exhausted ...
    if not assoc._reactor_checkpoint.is_set():
        return False
    # ... and already when the last result (final status or documented empty result) is handed over: a caller that
    # stops iterating there must not leave the association reactor paused (it could no longer answer a release)
    if resumed and not resumed[-1]:
        return False
    return True


_COMMON_STUBS = [
    "assoc.dimse = stand-in holding the peer's primitives (exhausted = DIMSE timeout); DIMSE/PDU codec not in the loop",
    "pynetdicom.association.decode replaced: raises for absent identifiers and those marked undecodable, else returns a fresh Dataset",
    "assoc.acse / assoc.dul recording stand-ins; Association._abort_blocking replaced by a recorder",
]

_FIRST = lambda ks: [{"first": k} for k in ks]  # noqa: E731


@harness(
    "C24",
    timeout=(240, 900),
    shards=_FIRST([0, 1, 2, 3, 4, -1]),
    functions=["association:Association._wrap_find_responses", "association:Association._handle_no_response",
               "status:code_to_category"],
    bounds="peer streams of <= %d elements (sharded by the shape of the first; -1 = empty stream), each any of "
           "{response with decodable / undecodable / no identifier, response without Status, primitive of another "
           "type}, every Status any value 0..65535 (solver-symbolic), then DIMSE timeout" % N_STREAM,
    stubs=_COMMON_STUBS,
    outside="Repository Query's non-final 0xB001 (Patient Root model is used); streams longer than the bound; real "
            "decoding of identifiers",
)
def find_stream(kinds: List[int], codes: List[int]) -> bool:
    """
    pre: len(kinds) <= N_STREAM and _rng(kinds, 0, 4)
    pre: (len(kinds) == 0) if shard("first", -1) < 0 else (len(kinds) >= 1 and kinds[0] == shard("first", -1))
    pre: len(codes) == len(kinds) and _rng(codes, 0, 65535)
    post: _ == True
    """
    return _run_stream(lambda a: a._wrap_find_responses(TS, FIND_MODEL), C_FIND, kinds, codes, False)


REPO_MODEL = UID("1.2.840.10008.5.1.4.1.1.201.6")   # Repository Query (PS3.4 C.6.4)


@harness(
    "C24",
    timeout=(240, 900),
    shards=_FIRST([0, 1, 2]),
    functions=["association:Association._wrap_find_responses"],
    bounds="as find_stream with the Repository Query model, whose Warning 0xB001 is documented (PS3.4 C.6.4.4) not to end the "
           "exchange; first element a valid response",
    stubs=_COMMON_STUBS,
    outside="as find_stream",
)
def find_stream_repository(kinds: List[int], codes: List[int]) -> bool:
    """
    pre: 1 <= len(kinds) <= N_STREAM and _rng(kinds, 0, 4)
    pre: kinds[0] == shard("first", 0)
    pre: len(codes) == len(kinds) and _rng(codes, 0, 65535)
    post: _ == True
    """
    return _run_stream(lambda a: a._wrap_find_responses(TS, REPO_MODEL), C_FIND, kinds, codes, False, True)


@harness(
    "C24",
    timeout=(240, 900),
    shards=[dict(op=o, first=k) for o in ("get", "move") for k in (0, 1, 2, 3, 4, 5, -1)],
    functions=["association:Association._wrap_get_move_responses", "association:Association._c_store_scp",
               "association:Association._get_valid_context", "association:Association._handle_no_response",
               "status:code_to_category"],
    bounds="peer streams of <= %d elements (sharded by response type C-GET/C-MOVE and the shape of the first element), "
           "each any of {response with decodable / undecodable / no identifier, response without Status, primitive of "
           "another type, interleaved C-STORE request}, every Status any value 0..65535, then DIMSE timeout" % N_STREAM,
    stubs=_COMMON_STUBS + ["EVT_C_STORE handler returns 0x0000; one accepted storage context (id 3)"],
    outside="streams longer than the bound; real decoding of identifiers; a C-MOVE response inside a C-GET exchange",
)
def getmove_stream(kinds: List[int], codes: List[int]) -> bool:
    """
    pre: len(kinds) <= N_STREAM and _rng(kinds, 0, 5)
    pre: (len(kinds) == 0) if shard("first", -1) < 0 else (len(kinds) >= 1 and kinds[0] == shard("first", -1))
    pre: len(codes) == len(kinds) and _rng(codes, 0, 65535)
    post: _ == True
    """
    cls = C_GET if shard("op", "get") == "get" else C_MOVE
    return _run_stream(lambda a: a._wrap_get_move_responses(TS), cls, kinds, codes, True)


# ------------------------------------------------------------------------------------------------
# Operations with a single response: C-ECHO, C-STORE, N-*.
VERIF_UID = "1.2.840.10008.1.1"
FILM_SESSION = "1.2.840.10008.5.1.1.1"
SINGLE_OPS = {
    #  op            (response class, attribute holding the reply data set or None)
    "echo": (C_ECHO, None),
    "store": (C_STORE, None),
    "n_delete": (N_DELETE, None),
    "n_action": (N_ACTION, "ActionReply"),
    "n_create": (N_CREATE, "AttributeList"),
    "n_event_report": (N_EVENT_REPORT, "EventReply"),
    "n_get": (N_GET, "AttributeList"),
    "n_set": (N_SET, "AttributeList"),
}
R_REPLY_OK, R_REPLY_BAD, R_NO_REPLY, R_NO_STATUS, R_WRONG_TYPE, R_NOTHING = 0, 1, 2, 3, 4, 5


def _single_invoke(assoc, op, ds):
    if op == "echo":
        return assoc.send_c_echo()
    if op == "store":
        return assoc.send_c_store(ds)
    if op == "n_delete":
        return assoc.send_n_delete(FILM_SESSION, "1.2.3")
    if op == "n_action":
        return assoc.send_n_action(None, 1, FILM_SESSION, "1.2.3")
    if op == "n_create":
        return assoc.send_n_create(None, FILM_SESSION, "1.2.3")
    if op == "n_event_report":
        return assoc.send_n_event_report(None, 1, FILM_SESSION, "1.2.3")
    if op == "n_get":
        return assoc.send_n_get([], FILM_SESSION, "1.2.3")
    if op == "n_set":
        return assoc.send_n_set(ds, FILM_SESSION, "1.2.3")
    raise AssertionError(op)


def _store_dataset():
    from pydicom.dataset import FileMetaDataset

    ds = Dataset()
    ds.SOPClassUID = CT
    ds.SOPInstanceUID = "1.2.3.4"
    ds.file_meta = FileMetaDataset()
    ds.file_meta.TransferSyntaxUID = TS
    return ds


class _ParkOnSleep:
    """pynetdicom.association.time stand-in: the association reactor is RUNNING when the SCU call starts; it reaches its
    checkpoint - and parks - only while the caller sleeps in its wait loop."""

    def __init__(self, assoc):
        self.assoc, self.n = assoc, 0

    def sleep(self, s):
        self.n += 1
        self.assoc._is_paused = True

    def __getattr__(self, n):
        import time
        return getattr(time, n)


class _SendWatch(RecordingDimse):
    def __init__(self, assoc):
        RecordingDimse.__init__(self, [])
        self._assoc = assoc
        self.parked_at_send = []

    def send_msg(self, primitive, context_id):
        self.parked_at_send.append(self._assoc._is_paused is True and not self._assoc._reactor_checkpoint.is_set())
        RecordingDimse.send_msg(self, primitive, context_id)


_QR_FIND, _QR_GET, _QR_MOVE = ("1.2.840.10008.5.1.4.1.2.1.1", "1.2.840.10008.5.1.4.1.2.1.3", "1.2.840.10008.5.1.4.1.2.1.2")
ALL_SCU_OPS = list(SINGLE_OPS) + ["find", "get", "move"]


@harness(
    "C24",
    timeout=(90, 300),
    shards=[dict(op=o) for o in ALL_SCU_OPS],
    functions=["association:Association.send_c_echo/send_c_store/send_c_find/send_c_get/send_c_move/send_n_*"],
    bounds="every SCU entry point (one shard each), called while the association reactor is still running (it parks only "
           "during the caller's wait loop): the request is handed to the DIMSE provider only AFTER the reactor is parked at "
           "its cleared checkpoint - otherwise the running reactor could take the peer's first response off the queue and "
           "the caller would lose it",
    stubs=_COMMON_STUBS + ["pynetdicom.association.time replaced: sleep() lets the reactor reach its checkpoint",
                           "pynetdicom.association.encode replaced (returns two bytes)"],
    outside="how the reactor treats a message it takes (C19/C20)",
)
def request_after_reactor_parked(prio: int) -> bool:
    """
    pre: 0 <= prio <= 2
    post: _ == True
    """
    op = shard("op", "echo")
    with untraced():
        assoc = make_assoc(MODE_REQUESTOR)
        assoc._accepted_cx = {1: mk_cx(VERIF_UID, TS, 1), 3: mk_cx(CT, TS, 3), 5: mk_cx(FILM_SESSION, TS, 5),
                              7: mk_cx(_QR_FIND, TS, 7), 9: mk_cx(_QR_GET, TS, 9), 11: mk_cx(_QR_MOVE, TS, 11)}
        ds = _store_dataset()
        ident = Dataset()
        ident.QueryRetrieveLevel = "PATIENT"
    assoc._is_paused = False                 # the reactor is running
    assoc.dimse = _SendWatch(assoc)
    saved = (am.time, am.encode)
    am.time = _ParkOnSleep(assoc)
    am.encode = lambda d, *a, **k: b"\x00\x00"
    try:
        if op == "find":
            list(assoc.send_c_find(ident, _QR_FIND, priority=prio))
        elif op == "get":
            list(assoc.send_c_get(ident, _QR_GET, priority=prio))
        elif op == "move":
            list(assoc.send_c_move(ident, "DEST", _QR_MOVE, priority=prio))
        else:
            _single_invoke(assoc, op, ds)
    finally:
        am.time, am.encode = saved
    w = assoc.dimse.parked_at_send
    return len(w) == 1 and w[0] is True and assoc._reactor_checkpoint.is_set()


@harness(
    "C24",
    timeout=(90, 300),
    shards=[dict(op=o) for o in ("store", "n_set", "n_action", "n_create", "n_event_report")],
    functions=["association:Association.send_c_store", "association:Association.send_n_*"],
    bounds="each single-response SCU operation that carries a data set (one shard each) when the data set cannot be "
           "encoded (dsutils.encode returns None) or encoding raises: the call fails cleanly - it raises the documented "
           "ValueError (or returns), nothing is sent, no lock is held and the association reactor is not left paused",
    stubs=_COMMON_STUBS + ["pynetdicom.association.encode replaced (returns None or raises, solver-symbolic choice)"],
    outside="operations without a data set (C-ECHO)",
)
def request_not_encodable(raises: bool) -> bool:
    """
    post: _ == True
    """
    op = shard("op", "store")
    with untraced():
        assoc = make_assoc(MODE_REQUESTOR)
        assoc._accepted_cx = {1: mk_cx(VERIF_UID, TS, 1), 3: mk_cx(CT, TS, 3), 5: mk_cx(FILM_SESSION, TS, 5)}
        ds = _store_dataset()
    assoc.dimse = RecordingDimse([])
    saved = am.encode

    def bad_encode(d, *a, **k):
        if raises:
            raise ValueError("stub: cannot encode")
        return None

    am.encode = bad_encode
    try:
        try:
            _single_invoke(assoc, op, ds)
        except (ValueError, AttributeError, RuntimeError):
            pass                       # documented ways to refuse the request
    finally:
        am.encode = saved
    return len(assoc.dimse.sent) <= 1 and not assoc.lock.locked() and assoc._reactor_checkpoint.is_set()


@harness(
    "C24",
    timeout=(120, 600),
    shards=[dict(op=o) for o in SINGLE_OPS],
    functions=["association:Association.send_c_echo", "association:Association.send_c_store", "association:Association.send_n_*",
               "association:Association._check_received_status", "association:Association._handle_no_response"],
    bounds="each single-response SCU operation (one shard each); the peer's answer is any of {valid response with decodable / "
           "undecodable / no reply data set, response without Status, response primitive of another type, nothing before the "
           "DIMSE timeout}; Status any value 0..65535 (solver-symbolic)",
    stubs=_COMMON_STUBS + ["pynetdicom.association.encode replaced (returns two bytes)"],
    outside="the reply data set's content; which statuses besides 0x0000 / Failure / Cancel / Pending carry a reply",
    findings=["C24-unexpected-response-type"],
)
def single_response(kind: int, code: int) -> bool:
    """
    pre: 0 <= kind <= 5
    pre: 0 <= code <= 65535
    pre: not kf.skip("C24-unexpected-response-type", kind=kind, code=code)
    post: _ == True
    """
    op = shard("op", "echo")
    cls, reply_attr = SINGLE_OPS[op]
    with untraced():
        assoc = make_assoc(MODE_REQUESTOR)
        assoc._accepted_cx = {1: mk_cx(VERIF_UID, TS, 1), 3: mk_cx(CT, TS, 3), 5: mk_cx(FILM_SESSION, TS, 5)}
        ds = _store_dataset()
    incoming = []
    if kind != R_NOTHING:
        if kind == R_WRONG_TYPE:
            r = (N_DELETE if reply_attr is None and cls is not N_DELETE else C_FIND)()
        else:
            r = cls()
        r.MessageIDBeingRespondedTo = 1
        if kind != R_NO_STATUS:
            r.Status = code
        if reply_attr is not None and kind in (R_REPLY_OK, R_REPLY_BAD):
            setattr(r, reply_attr, bio(b"reply") if kind == R_REPLY_OK else BadBytesIO(b"reply"))
        incoming.append((1, r))
    assoc.dimse = RecordingDimse(incoming)
    decoded = []
    saved = (am.decode, am.encode)
    am.decode = _mk_decode(decoded)
    am.encode = lambda d, *a: b"\x00\x00"
    try:
        result = _single_invoke(assoc, op, ds)   # an exception escaping the call is a failure of the property
    finally:
        am.decode, am.encode = saved
    if reply_attr is None:
        status, reply, has_reply = result, None, False
    else:
        if not isinstance(result, tuple) or len(result) != 2:
            return False
        status, reply = result
        has_reply = True
    if not isinstance(status, Dataset) or assoc.lock.locked() or not assoc._reactor_checkpoint.is_set():
        return False
    if len(assoc.dimse.sent) != 1:
        return False
    if kind in (R_NOTHING, R_NO_STATUS, R_WRONG_TYPE):
        # documented: empty status (and None), association aborted
        return len(status) == 0 and reply is None and len(assoc.aborts) == 1
    if assoc.aborts != [] or "Status" not in status:
        return False
    if not has_reply:
        return status.Status == code
    if reply is not None and not isinstance(reply, Dataset):
        return False
    if kind == R_REPLY_BAD and reply is not None:
        return False
    if status.Status != code and not (kind == R_REPLY_BAD and status.Status == 0x0110):
        return False
    if spec.is_pending(code) or code == 0xFE00 or (0xA000 <= code and code <= 0xAFFF) or (0xC000 <= code and code <= 0xCFFF):
        return reply is None
    if code == 0x0000 and kind == R_REPLY_OK:
        return len(decoded) == 1 and reply is decoded[0]
    if code == 0x0000 and kind == R_NO_REPLY:
        return reply is not None and len(reply) == 0
    return True
