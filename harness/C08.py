"""C08 - no peer behaviour keeps pynetdicom blocked past its configured timeouts
(claimed for the blocking-read mechanism; thread liveness / wall-clock margins are outside).

Sockets are `FakeRawSocket`s that are created, configured, connected and accepted by the REAL
pynetdicom code (`AE.associate` -> `AssociationSocket._create_socket/connect`;
`AssociationServer.__init__/server_bind/get_request`, `RequestHandler._create_association`), so the
`settimeout()` calls the implementation makes (or forgets) are what the model sees.  The peer sends
a symbolic prefix of a valid exchange - `npdu` complete PDUs plus `k` bytes of the next one - and
then stalls with the connection open.  The real `DULServiceProvider.run_reactor` loop (real state
machine, real `AssociationSocket.ready/recv`, real `_read_pdu_data`) is executed in the harness
thread.  `Hang` = a `recv()` at the stall point on a socket whose timeout is None (sock8.py).
"""
import contextlib
import queue
import socketserver

from vlib.shim import *  # noqa: F401,F403
from vlib.h import harness, tier, shard
from vlib import kf
from vlib.stubs.sock8 import FakeRawSocket, FakeSocketModule, FakeSelectModule, Hang, real_socket_selfcheck

import pynetdicom.transport as tr
import pynetdicom.timer as timer_mod
import pynetdicom.dul as dul_mod
import pynetdicom.association as assoc_mod
from pynetdicom import AE, _config, build_context
from pynetdicom.association import Association
from pynetdicom.acse import ACSE
from pynetdicom.dimse import DIMSEServiceProvider
from pynetdicom.transport import AssociationServer, RequestHandler
from pynetdicom.pdu_primitives import A_ABORT, A_P_ABORT, A_RELEASE, A_ASSOCIATE

silence_loggers()

VERIFICATION = "1.2.840.10008.1.1"
NET_TIMEOUT = 30
ACSE_TIMEOUT = 20
DIMSE_TIMEOUT = 25
CONN_TIMEOUT = 5


class StopSim(Exception):
    pass


class StepGate:
    """Stand-in for `assoc._dul_ready` (a threading.Event): `is_set()` is called at the top of every
    `DULServiceProvider.run_reactor` iteration; the n+1-th call stops the loop."""

    def __init__(self, n):
        self.n, self.i = n, 0

    def is_set(self):
        self.i += 1
        if self.i > self.n:
            raise StopSim()
        return True

    def set(self):
        pass

    def clear(self):
        pass

    def wait(self, *a):
        return True


class FrozenClock:
    """`time` stand-in for pynetdicom.timer / dul: the clock reads `now` ticks; sleep returns at once."""

    def __init__(self):
        self.now = 0

    def monotonic(self):
        return self.now

    def time(self):
        return self.now

    def perf_counter(self):
        return self.now

    def sleep(self, s):
        return None


@contextlib.contextmanager
def world():
    """Install the fake OS layer inside the pynetdicom modules (and restore it)."""
    fake, clock = FakeSocketModule(), FrozenClock()
    saved = (tr.socket, tr.select, socketserver.socket, timer_mod.time, dul_mod.time, assoc_mod.time,
             _config.LOG_HANDLER_LEVEL, Association.request, Association.start)
    tr.socket, tr.select, socketserver.socket = fake, FakeSelectModule, fake
    timer_mod.time = dul_mod.time = assoc_mod.time = clock
    _config.LOG_HANDLER_LEVEL = "none"
    Association.request = lambda self: None      # AE.associate(): build everything, start no thread
    Association.start = lambda self: None
    try:
        yield fake, clock
    finally:
        (tr.socket, tr.select, socketserver.socket, timer_mod.time, dul_mod.time, assoc_mod.time,
         _config.LOG_HANDLER_LEVEL, Association.request, Association.start) = saved


def steps(assoc, n):
    """Run at most n iterations of the real DUL reactor in this thread."""
    assoc.dul._run_loop_delay = 0
    assoc._dul_ready = StepGate(n)
    try:
        assoc.dul.run_reactor()
    except StopSim:
        pass


def make_requestor(nt):
    """Real `AE.associate` (thread start suppressed) -> real `AssociationSocket(address=...)`;
    then the real reactor performs Evt1/AE-1 (real `connect`) and Evt2/AE-2 (sends the RQ): Sta5."""
    ae = AE()
    ae.network_timeout, ae.acse_timeout, ae.dimse_timeout, ae.connection_timeout = nt, ACSE_TIMEOUT, DIMSE_TIMEOUT, CONN_TIMEOUT
    ae.add_requested_context(VERIFICATION)
    assoc = ae.associate("127.0.0.1", 11112)
    assoc.acse.send_request()
    steps(assoc, 2)
    return assoc


def make_acceptor(nt):
    """Real `AssociationServer` construction (`server_bind`), real `get_request` (accept), real
    `RequestHandler._create_association` (socket wrapping); then Evt5/AE-5: Sta2."""
    ae = AE()
    ae.network_timeout, ae.acse_timeout, ae.dimse_timeout = nt, ACSE_TIMEOUT, DIMSE_TIMEOUT
    ae.add_supported_context(VERIFICATION)
    server = AssociationServer(ae, ("127.0.0.1", 11112), "ANY-SCP", ae.supported_contexts)
    conn = FakeRawSocket()
    server.socket.backlog.append(conn)
    request, client_address = server.get_request()
    rh = RequestHandler.__new__(RequestHandler)
    rh.request, rh.client_address, rh.server = request, client_address, server
    assoc = rh._create_association()
    steps(assoc, 1)
    return assoc


def raw_of(assoc):
    return assoc.dul.socket.socket


def feed(assoc, data):
    raw = raw_of(assoc)
    raw.rx = raw.rx + data
    raw.limit = len(raw.rx)


def establish_by_hand(assoc):
    """Jump to the data-transfer state (the sockets keep whatever the real connect/accept code gave them)."""
    cx = build_context(VERIFICATION, "1.2.840.10008.1.2")
    cx.context_id, cx.result, cx._as_scu, cx._as_scp = 1, 0, True, True
    assoc._accepted_cx = {1: cx}
    assoc.is_established = True
    assoc.dul.state_machine.current_state = "Sta6"
    assoc.dul.artim_timer.stop()
    assoc.dul.artim_timer._start_time = None
    while not assoc.dul.to_user_queue.empty():
        assoc.dul.to_user_queue.get(False)


def _pdata(header_byte, payload):
    import struct
    pdv = struct.pack(">IBB", len(payload) + 2, 1, header_byte) + payload
    return b"\x04\x00" + struct.pack(">I", len(pdv)) + pdv


REL_RQ = b"\x05\x00\x00\x00\x00\x04\x00\x00\x00\x00"
REL_RP = b"\x06\x00\x00\x00\x00\x04\x00\x00\x00\x00"
ABORT = b"\x07\x00\x00\x00\x00\x04\x00\x00\x00\x00"
PD_CMD = _pdata(0x01, bytes(range(1, 13)))      # command fragment, more fragments follow
PD_DS = _pdata(0x00, bytes(range(20, 50)))      # data set fragment, more fragments follow


def _handshake_bytes():
    """RQ / AC byte strings produced by the real code (concrete, once per process)."""
    with world():
        rq_side = make_requestor(NET_TIMEOUT)
        rq = b"".join(raw_of(rq_side).sent)
        ac_side = make_acceptor(NET_TIMEOUT)
        feed(ac_side, rq)
        steps(ac_side, 2)
        prim = ac_side.dul.receive_pdu(wait=False)
        ac_side.requestor.primitive = prim
        ac_side.acse.negotiate_association()
        steps(ac_side, 2)
        ac = b"".join(raw_of(ac_side).sent)
        assert rq[:1] == b"\x01" and ac[:1] == b"\x02" and ac_side.dul.state_machine.current_state == "Sta6"
    return rq, ac


try:
    RQ, AC = _handshake_bytes()
    SETUP_HANG = False
except Hang:
    # building the reference exchange itself blocked for ever on a silent peer (a read was attempted although
    # nothing had been sent): every execution of the harnesses below reports that as a violation
    RQ, AC = b"\x01\x00\x00\x00\x00\x00", b"\x02\x00\x00\x00\x00\x00"
    SETUP_HANG = True

# phase -> (role, stream of PDUs the peer sends, state after 0..n complete PDUs)
PHASES = {
    "req-negotiation": ("requestor", [AC], ["Sta5", "Sta6"]),
    "req-data": ("requestor", [PD_CMD, PD_DS], ["Sta6", "Sta6", "Sta6"]),
    "req-release": ("requestor", [PD_DS, REL_RP], ["Sta7", "Sta7", "Sta1"]),
    "acc-negotiation": ("acceptor", [RQ], ["Sta2", "Sta3"]),
    "acc-data": ("acceptor", [PD_CMD, PD_DS, REL_RQ], ["Sta6", "Sta6", "Sta6", "Sta8"]),
    "acc-closing": ("acceptor", [PD_DS, ABORT], ["Sta13", "Sta13", "Sta1"]),
}
PHASE = shard("phase", "acc-negotiation")
ROLE, STREAM, STATES = PHASES[PHASE]
NP = len(STREAM)
PLEN = [len(p) for p in STREAM] + [1]          # k < PLEN[npdu]; after the whole stream only k == 0
OFFS = [sum(len(p) for p in STREAM[:i]) for i in range(NP + 1)]
ALL = b"".join(STREAM)
KMAX = tier(12, 10**6)                          # quick: cut inside the first KMAX bytes of a PDU or in its last byte


def build(nt):
    """The association in the phase's start state, socket obtained through the real code."""
    assoc = make_requestor(nt) if ROLE == "requestor" else make_acceptor(nt)
    if PHASE in ("req-data", "acc-data"):
        establish_by_hand(assoc)
    elif PHASE == "req-release":
        establish_by_hand(assoc)
        assoc.acse.send_release(is_response=False)
        steps(assoc, 1)                          # Evt11/AR-1 -> Sta7
    elif PHASE == "acc-closing":
        establish_by_hand(assoc)
        feed(assoc, REL_RQ)
        steps(assoc, 1)                          # Evt12/AR-2 -> Sta8
        assoc.dul.to_user_queue.get(False)
        assoc.acse.send_release(is_response=True)
        steps(assoc, 1)                          # Evt14/AR-4 -> Sta13, ARTIM started
        raw = raw_of(assoc)
        raw.rx, raw.pos, raw.limit = b"", 0, 0
    return assoc


def _k_ok(npdu, k):
    return 0 <= k < PLEN[npdu] and (k <= KMAX or k == PLEN[npdu] - 1)


@harness(
    "C08",
    timeout=(400, 3000),
    shards=[{"phase": p} for p in PHASES],
    functions=["transport:AssociationSocket._create_socket", "transport:AssociationSocket.connect",
               "transport:AssociationServer.server_bind", "transport:AssociationServer.get_request",
               "transport:RequestHandler._create_association", "transport:AssociationSocket.ready",
               "transport:AssociationSocket.recv", "dul:DULServiceProvider.run_reactor",
               "dul:DULServiceProvider._is_transport_event", "dul:DULServiceProvider._read_pdu_data",
               "fsm:StateMachine.do_action"],
    bounds="per phase (shard: negotiation / data transfer / release / closing, requestor and acceptor role): the peer sends "
           "npdu complete PDUs of a valid exchange plus k bytes of the next PDU (every k in the thorough tier; quick: k <= 12 "
           "or the last byte) delivered in one piece or byte by byte, then is silent with the connection open; network "
           "timeout configured (30) or None",
    stubs=["pynetdicom.transport.socket/select and socketserver.socket replaced by vlib/stubs/sock8.py (blocking rule of Python "
           "sockets: recv at a stall point blocks for ever iff gettimeout() is None; accepted sockets start with timeout None)",
           "pynetdicom.timer/dul/association `time` replaced by a frozen clock (no timer expires); reactor run in the harness "
           "thread, one iteration per StepGate call; Association.request/start suppressed (no threads)",
           "phases after negotiation: association state set by hand to Sta6 on the socket produced by the real connect/accept code"],
    outside="wall-clock margins, thread exit, kill()'s polling loop, a peer that stops *reading* (blocking send), TLS sockets",
    findings=["C08-midpdu-stall"],
)
def stall_inside_pdu(net_timeout_set: bool, dribble: bool, npdu: int, k: int) -> bool:
    """
    pre: 0 <= npdu <= NP
    pre: _k_ok(npdu, k)
    pre: not kf.skip("C08-midpdu-stall", net_timeout_set=net_timeout_set, dribble=dribble, npdu=npdu, k=k)
    post: _ == True
    """
    nt = NET_TIMEOUT if net_timeout_set else None
    drib = True if dribble else False
    if SETUP_HANG:
        return False
    with world():
        with untraced():
            try:
                assoc = build(nt)
            except Hang:
                return False              # a read at a point where the peer has sent nothing at all
            raw = raw_of(assoc)
            raw.rx = raw.rx[:raw.pos] + ALL
            base = raw.pos
        raw.dribble = drib
        raw.limit = base + OFFS[npdu] + k
        hung = False
        try:
            steps(assoc, npdu + 3)
        except Hang:
            hung = True
        sm = assoc.dul.state_machine.current_state
        if hung:
            # blocking for ever is the documented behaviour only when no network timeout is configured
            return (not net_timeout_set) and k > 0
        if k == 0:
            # silent on a PDU boundary: every complete PDU was processed, nothing was read at the stall point
            expect = STATES[npdu]
            if expect == "Sta13":
                # awaiting transport close: with nothing more to read the provider closes the connection itself
                expect = "Sta1"
            ok = sm == expect and raw.stall_recvs == []
            if sm == "Sta1":
                ok = ok and raw.closed and assoc.dul._kill_thread
            else:
                ok = ok and not raw.closed and not assoc.dul._kill_thread
            return ok
        # silent inside a PDU, timeout configured: the read timed out, was turned into Evt17 and the
        # provider ended the association: idle state, transport closed, reactor finished,
        # A-P-ABORT indication issued to the user where PS3.8 prescribes one (AA-4)
        ok = sm == "Sta1" and raw.closed and assoc.dul._kill_thread
        ok = ok and len(raw.stall_recvs) == 1 and raw.stall_recvs[0] == NET_TIMEOUT
        before = STATES[npdu]
        if before not in ("Sta2", "Sta13"):
            with untraced():
                q = list(assoc.dul.to_user_queue.queue)
            ok = ok and len(q) >= 1 and isinstance(q[-1], A_P_ABORT)
        return ok


@harness(
    "C08",
    timeout=(60, 300),
    functions=["dul:DULServiceProvider.run_reactor", "timer:Timer.expired", "fsm:AE_5", "fsm:AA_2",
               "transport:AssociationServer.get_request", "transport:RequestHandler._create_association"],
    bounds="acceptor: connection accepted through the real server code, then the peer stays silent (sends nothing, keeps the "
           "connection open) while the clock advances by any number of ticks 0..1e9; ACSE timeout 20 ticks or None",
    stubs=["as stall_inside_pdu; the frozen clock is advanced by the harness (integer ticks instead of float seconds)"],
    outside="float rounding of the clock; the requestor side of the same situation is the ACSE wait in silent_peer_waits",
)
def silent_after_connect(elapsed: int, has_acse_timeout: bool) -> bool:
    """
    pre: 0 <= elapsed <= 10**9
    post: _ == True
    """
    with world() as (fake, clock):
        has = True if has_acse_timeout else False
        with untraced():
            try:
                assoc = make_acceptor(NET_TIMEOUT)      # Evt5 / AE-5: Sta2, ARTIM started at tick 0
            except Hang:
                return False                            # a read although the peer has sent nothing
            if not has:
                assoc.acse_timeout = None
            raw = raw_of(assoc)
        clock.now = elapsed
        hung = False
        try:
            steps(assoc, 3)
        except Hang:
            hung = True
        sm = assoc.dul.state_machine.current_state
        if hung:
            return False                                   # nothing was sent: no read may be attempted at all
        if has and elapsed > ACSE_TIMEOUT:
            # ARTIM expired: Evt18 / AA-2 - connection closed, provider finished, back to idle
            return sm == "Sta1" and raw.closed and assoc.dul._kill_thread and raw.stall_recvs == []
        return sm == "Sta2" and not raw.closed and not assoc.dul._kill_thread and raw.stall_recvs == []


# -------------------------------------------------------------------------------------------------
# "never answers": the waits of the ACSE / DIMSE layers are Queue.get(timeout=<configured timeout>)
# -------------------------------------------------------------------------------------------------
class RecQueue(queue.Queue):
    """to_user_queue / msg_queue that never receives anything and records how it is waited on."""

    def __init__(self):
        super().__init__()
        self.waits = []

    def get(self, block=True, timeout=None):
        self.waits.append((block, timeout))
        if block and timeout is None:
            raise Hang("Queue.get() without timeout on a queue the silent peer never fills")
        if len(self.waits) > 3:
            raise Hang("the wait is restarted again and again although the peer stays silent")
        raise queue.Empty


class SilentDUL:
    """Neighbour of the ACSE kernel: the peer never answers."""

    def __init__(self):
        self.to_user_queue = RecQueue()
        self.sent = []
        self.alive = True
        self.socket = None

    def send_pdu(self, p):
        self.sent.append(p)

    def receive_pdu(self, wait=False, timeout=None):
        try:
            return self.to_user_queue.get(block=wait, timeout=timeout)
        except queue.Empty:
            return None

    def peek_next_pdu(self):
        return None

    def is_alive(self):
        return self.alive

    def stop_dul(self):
        self.alive = False
        return True

    def kill_dul(self):
        self.alive = False

    def idle_timer_expired(self):
        return False


class ReadySock:
    class _R:
        def wait(self, *a):
            return True

    _ready = _R()
    _is_connected = True

    def _shutdown_socket(self):
        pass


@harness(
    "C08",
    timeout=(60, 300),
    functions=["acse:ACSE.negotiate_release", "acse:ACSE._negotiate_as_requestor", "dimse:DIMSEServiceProvider.get_msg",
               "association:Association.run_reactor", "association:Association.kill", "association:Association._abort_blocking"],
    bounds="which wait (release / association request / DIMSE get_msg(block=True) / acceptor waiting for the A-ASSOCIATE-RQ); "
           "configured timeout any int 1..1e6 or None; the peer never answers - for the DIMSE wait also: the peer stopped "
           "after the first fragment of a message (a partly received message exists)",
    stubs=["dul replaced by a recording stand-in whose queue never fills (Queue.get with timeout raises Empty, without timeout = Hang)",
           "Association thread not started; time.sleep of pynetdicom.association replaced by a no-op"],
    outside="that Queue.get honours its timeout (CPython); wall-clock margins",
)
def silent_peer_waits(which: int, has_timeout: bool, timeout: int, partial: bool) -> bool:
    """
    pre: 0 <= which <= 3
    pre: 1 <= timeout <= 10**6
    pre: which == 2 or not partial
    post: _ == True
    """
    to = timeout if has_timeout else None
    which = 0 if which == 0 else 1 if which == 1 else 2 if which == 2 else 3     # fork here, concrete below
    with world():
        with untraced():
            ae = AE()
            ae.add_requested_context(VERIFICATION)
            ae.add_supported_context(VERIFICATION)
            assoc = Association(ae, "requestor" if which in (0, 1, 2) else "acceptor")
            dul = SilentDUL()
            assoc.dul = dul
            dul.socket = ReadySock()
            aborted = []
            assoc.bind(evt_mod.EVT_ABORTED, lambda e: aborted.append(1))
            if which == 1:
                assoc.requestor.requested_contexts = [build_context(VERIFICATION)]
                assoc.requestor.requested_contexts[0].context_id = 1
                assoc.requestor.ae_title = "A"
                assoc.acceptor.ae_title = "B"
                assoc.requestor.maximum_length = 16382
                assoc.requestor.implementation_class_uid = ae.implementation_class_uid
            else:
                assoc.is_established = which in (0, 2)
            if which == 2:
                assoc.dimse.msg_queue = RecQueue()
                if partial:
                    # the peer sent the first (not last) fragment of a message and then went silent: a message is
                    # "being received" for ever
                    from pynetdicom.dimse_messages import C_ECHO_RSP
                    assoc.dimse.message = C_ECHO_RSP()
        assoc._acse_timeout = to
        assoc._dimse_timeout = to
        try:
            if which == 0:
                assoc.acse.negotiate_release()
            elif which == 1:
                assoc.acse._negotiate_as_requestor()
            elif which == 2:
                cid, msg = assoc.dimse.get_msg(block=True)
                return msg is None and assoc.dimse.msg_queue.waits == [(True, to)] and has_timeout
            else:
                assoc._started_dul = True
                assoc.run_reactor()
        except Hang:
            return not has_timeout       # waiting for ever is only acceptable when no timeout is configured
        waits = dul.to_user_queue.waits
        ok = has_timeout and len(waits) == 1 and waits[0][0] is True and waits[0][1] == to
        ok = ok and not assoc.is_established and assoc._kill
        if which in (0, 1):
            # the local side ends the association: exactly one A-ABORT handed to the provider, EVT_ABORTED once
            n_abort = len([p for p in dul.sent if isinstance(p, A_ABORT)])
            ok = ok and n_abort == 1 and assoc.is_aborted and aborted == [1]
        return ok


from pynetdicom import evt as evt_mod  # noqa: E402


# -------------------------------------------------------------------------------------------------
# end-to-end reproducer for the replay (real sockets on an ephemeral localhost port, no stub)
# -------------------------------------------------------------------------------------------------
def _e2e(args, shard_):
    import socket
    import threading
    import time

    ok, detail = real_socket_selfcheck()
    if not ok:
        return False, "socket model self-check failed: " + detail
    srv = socket.socket()
    srv.bind(("127.0.0.1", 0))
    srv.listen(1)
    port = srv.getsockname()[1]
    conns = []

    def peer():
        c, _ = srv.accept()
        conns.append(c)
        c.recv(4096)                 # the A-ASSOCIATE-RQ
        c.sendall(AC[:3])            # 3 of the 6 header bytes, then silence with the connection open

    t = threading.Thread(target=peer, daemon=True)
    t.start()
    ae = AE()
    ae.network_timeout, ae.acse_timeout, ae.dimse_timeout, ae.connection_timeout = 0.5, 1, 1, 1
    ae.add_requested_context(VERIFICATION)
    box = {}

    def user():
        box["assoc"] = ae.associate("127.0.0.1", port)

    u = threading.Thread(target=user, daemon=True)
    t0 = time.time()
    u.start()
    u.join(4.0)                      # network timeout 0.5 s + ACSE timeout 1 s + generous margin
    blocked_call = u.is_alive()
    provider = [th for th in threading.enumerate() if type(th).__name__ == "DULServiceProvider" and th.is_alive()]
    states = [th.state_machine.current_state for th in provider]
    for c in conns:
        c.close()                    # let the blocked threads go
    srv.close()
    u.join(5.0)
    return (blocked_call or bool(provider)), (
        f"{detail}; peer sent 3 of the 6 PDU header bytes and went silent (connection open), network_timeout=0.5 s, "
        f"acse_timeout=1 s: after {time.time() - t0:.1f}s AE.associate() still blocked={blocked_call}, provider threads alive "
        f"in states {states} (blocked in recv on a socket without timeout)")


from vlib.h import REGISTRY  # noqa: E402

if "stall_inside_pdu" in REGISTRY:
    REGISTRY["stall_inside_pdu"].e2e = _e2e
