"""C07 - a peer's A-RELEASE request is always answered with an A-RELEASE response, wherever it
arrives relative to a running C-FIND / C-GET / C-MOVE handler.

Real code: `Association._run_reactor` (the real loop, executed in the harness thread and stepped
through the `_reactor_checkpoint` stub), `Association._serve_request`, `DIMSEServiceProvider.get_msg /
send_msg` (real message encoding into P-DATA primitives), `uid_to_service_class`,
`QueryRetrieveServiceClass.SCP`, `_c_find_scp` / `_get_scp` / `_move_scp`, `ServiceClass._wrap_handler`,
`ACSE.is_release_requested / is_aborted / send_release`, `evt.trigger`, `Association.kill`.

Environment: `assoc.dul` is a FakeDUL (queue of indications for the user + record of the primitives
sent, no thread, no socket); the peer's A-RELEASE indication is put into that queue at a point chosen
by the solver; the C-STORE sub-operations of C-GET / C-MOVE are scripted (`assoc.send_c_store`,
`ae.associate`).

Arrival points (`release_at`, n = number of results the handler yields):
    -1        already queued when the reactor picks up the request
    0..n-1    while the handler is computing result i (before it yields it)
    n         after the last result, before the handler returns
    n+1+k     during the k-th C-STORE sub-operation (C-GET / C-MOVE only, k < n)
    100       while idle, in the reactor iteration after the request was served
"""
from io import BytesIO

from vlib.shim import *  # noqa: F401,F403
from vlib.h import harness, tier, shard
from vlib import kf
from vlib.stubs import scp_f as S

from pydicom.dataset import Dataset  # noqa: E402
from pynetdicom import AE, evt, build_context  # noqa: E402
from pynetdicom.association import Association  # noqa: E402
from pynetdicom.pdu_primitives import A_RELEASE, A_ABORT, A_P_ABORT  # noqa: E402
from pynetdicom.dimse_primitives import C_FIND, C_GET, C_MOVE  # noqa: E402
from pynetdicom._globals import MODE_ACCEPTOR  # noqa: E402

silence_loggers()

N_MAX = tier(2, 3)
BUDGET = 5          # reactor iterations allowed (the request is served in the first one)
IDLE = 100

SERVICES = {
    "find": ("1.2.840.10008.5.1.4.1.2.1.1", C_FIND, evt.EVT_C_FIND),
    "get": ("1.2.840.10008.5.1.4.1.2.1.3", C_GET, evt.EVT_C_GET),
    "move": ("1.2.840.10008.5.1.4.1.2.1.2", C_MOVE, evt.EVT_C_MOVE),
}
IDENT = b"\x08\x00\x52\x00\x08\x00\x00\x00PATIENT "


def _setup(service):
    uid, prim, event = SERVICES[service]
    ae = AE()
    ae.add_supported_context(uid)
    assoc = Association(ae, MODE_ACCEPTOR)
    dul = S.FakeDUL()
    assoc.dul = dul
    cx = build_context(uid, "1.2.840.10008.1.2")
    cx.context_id = 1
    cx.result = 0
    cx._as_scp = True
    cx._as_scu = False
    assoc._accepted_cx = {1: cx}
    assoc.is_established = True
    assoc._reactor_checkpoint = S.Checkpoint(BUDGET)
    req = prim()
    req.MessageID = 7
    req.AffectedSOPClassUID = uid
    req.Priority = 2
    req.Identifier = BytesIO(IDENT)
    if prim is C_MOVE:
        req.MoveDestination = "DEST"
    ds = Dataset()
    ds.PatientID = "1"
    ds.QueryRetrieveLevel = "PATIENT"
    ds.SOPClassUID = "1.2.840.10008.5.1.4.1.1.2"
    ds.SOPInstanceUID = "1.2.3.4"
    return ae, assoc, dul, req, event, ds


def run(service, n_yields, release_at):
    """One run of the real reactor; returns what was observed."""
    with untraced():
        ae, assoc, dul, req, event, ds = _setup(service)
        released = []
        aborted = []
        assoc.bind(evt.EVT_RELEASED, lambda e: released.append(1))
        assoc.bind(evt.EVT_ABORTED, lambda e: aborted.append(1))
        subops = S.SubOps()
        store_assoc = S.StubStoreAssoc(subops)

    def rel():
        dul.to_user_queue.put(A_RELEASE())

    def handler(ev):
        if service == "move":
            yield ("127.0.0.1", 11112)
        if service != "find":
            yield n_yields if n_yields > 0 else 1
        for i in range(n_yields):
            if release_at == i:
                rel()
            yield 0xFF00, ds
        if release_at == n_yields:
            rel()

    def hook(k):
        if release_at == n_yields + 1 + k:
            rel()

    subops.hook = hook
    assoc.send_c_store = subops.send_c_store
    ae.associate = lambda *a, **k: store_assoc
    assoc.bind(event, handler)
    if release_at == -1:
        rel()
    assoc.dimse.msg_queue.put((1, req))
    idle_injected = [False]
    cp = assoc._reactor_checkpoint
    orig_wait = cp.wait

    def wait(timeout=None):
        # the second iteration of the reactor = the peer's request arrives while idle
        if release_at == IDLE and cp.n == 1 and not idle_injected[0]:
            idle_injected[0] = True
            rel()
        return orig_wait(timeout)

    cp.wait = wait
    stopped = False
    try:
        assoc._run_reactor()
    except S.Stop:
        stopped = True          # budget of reactor iterations used up
    out = S.Run()
    out.release_rps = [p for p in dul.sent if isinstance(p, A_RELEASE) and p.result == "affirmative"]
    out.aborts = [p for p in dul.sent if isinstance(p, (A_ABORT, A_P_ABORT))]
    out.assoc, out.released_events, out.aborted_events, out.stopped = assoc, released, aborted, stopped
    out.iterations = cp.n
    out.pending_indication = dul.peek_next_pdu()
    return out


def judge(o):
    if o.aborts or o.assoc.is_aborted:
        # "... and pynetdicom does not itself abort": the scripted handler never aborts, so a local
        # abort here is itself a failure to answer
        return False
    return (len(o.release_rps) == 1 and o.assoc.is_released and not o.assoc.is_established
            and o.released_events == [1] and not o.stopped)


E2E_SCRIPT = r'''
"""End-to-end reproducer for C07 without any stub: two real AEs over a localhost socket.
The requestor sends a C-FIND request immediately followed by A-RELEASE-RQ (both through its own real
DIMSE / ACSE providers), the acceptor's C-FIND handler is still producing results when the release
request arrives.  Prints whether an A-RELEASE-RP ever comes back."""
import sys, time
sys.path.insert(0, sys.argv[1])
from pydicom.dataset import Dataset
from pynetdicom import AE, evt
from pynetdicom.dimse_primitives import C_FIND
from pynetdicom.pdu_primitives import A_RELEASE
from pynetdicom.dsutils import encode
from io import BytesIO

UID = "1.2.840.10008.5.1.4.1.2.1.1"
ds = Dataset(); ds.QueryRetrieveLevel = "PATIENT"; ds.PatientID = "1"

def handle_find(event):
    for i in range(2):
        time.sleep(0.5)            # the peer's A-RELEASE-RQ arrives while this result is computed
        yield 0xFF00, ds

scp_ae = AE(); scp_ae.add_supported_context(UID)
released = []
server = scp_ae.start_server(("127.0.0.1", 0), block=False,
                             evt_handlers=[(evt.EVT_C_FIND, handle_find), (evt.EVT_RELEASED, lambda e: released.append(1))])
port = server.server_address[1]
ae = AE(); ae.add_requested_context(UID); ae.acse_timeout = 5; ae.dimse_timeout = 5; ae.network_timeout = 5
assoc = ae.associate("127.0.0.1", port)
assert assoc.is_established
cx = assoc.accepted_contexts[0]
assoc._reactor_checkpoint.clear()          # keep the requestor's own reactor out of the way
while not assoc._is_paused:
    time.sleep(0.01)
req = C_FIND(); req.MessageID = 1; req.AffectedSOPClassUID = UID; req.Priority = 2
req.Identifier = BytesIO(encode(ds, True, True))
assoc.dimse.send_msg(req, cx.context_id)   # C-FIND-RQ ...
assoc.acse.send_release()                  # ... and A-RELEASE-RQ right behind it
deadline = time.time() + 6
got = False
while time.time() < deadline and not got:
    p = assoc.dul.peek_next_pdu()
    if isinstance(p, A_RELEASE) and p.result == "affirmative":
        got = True
        break
    if p is not None:
        assoc.dul.receive_pdu(wait=False)
    time.sleep(0.02)
print("RELEASE-RP:", "received" if got else "missing", "| acceptor EVT_RELEASED fired:", len(released))
assoc._reactor_checkpoint.set()
try:
    assoc.abort()
except Exception:
    pass
server.shutdown()
'''


def e2e(args, sh):
    """End-to-end reproducer, no stub: two real AEs over a localhost socket (run in a private network
    namespace through `isopy`); reproduced = no A-RELEASE-RP comes back."""
    import os
    import subprocess
    import tempfile
    import vlib
    with tempfile.NamedTemporaryFile("w", suffix="_c07_e2e.py", delete=False) as f:
        f.write(E2E_SCRIPT)
        path = f.name
    try:
        from vlib.e2e import runner
        p = subprocess.run(runner() + [path, vlib.REPO], capture_output=True, text=True, timeout=120)
    finally:
        os.unlink(path)
    out = (p.stdout or "") + (p.stderr or "")[-400:]
    return ("RELEASE-RP: missing" in p.stdout), out[-600:]


@harness(
    "C07", timeout=(200, 900), shards=[{"service": s} for s in ("find", "get", "move")],
    functions=["association:Association._run_reactor", "association:Association._serve_request",
               "service_class:QueryRetrieveServiceClass.SCP", "service_class:ServiceClass._c_find_scp",
               "service_class:QueryRetrieveServiceClass._get_scp", "service_class:QueryRetrieveServiceClass._move_scp",
               "service_class:ServiceClass._wrap_handler", "acse:ACSE.is_release_requested", "acse:ACSE.is_aborted",
               "acse:ACSE.send_release", "dimse:DIMSEServiceProvider.get_msg", "dimse:DIMSEServiceProvider.send_msg",
               "events:trigger", "association:Association.kill"],
    bounds="service in {C-FIND, C-GET, C-MOVE} (shard); the handler yields n <= %d (Pending, dataset) results; the peer's "
           "A-RELEASE indication reaches the association at every point listed in the module docstring (before the request is "
           "served, before each yield, after the last yield, during each C-STORE sub-operation, while idle afterwards); the "
           "response must be sent within %d reactor iterations" % (N_MAX, BUDGET),
    stubs=["assoc.dul is a FakeDUL (queue + record; no DUL thread, no state machine, no socket): the A-RELEASE-RP is observed as "
           "the primitive handed to dul.send_pdu (the FSM's handling of it is C04/C05/C06)",
           "Association._reactor_checkpoint replaced by a counting stub = one real reactor iteration per step",
           "C-STORE sub-operations scripted (Association.send_c_store / AE.associate replaced on the instances)",
           "granularity: the indication arrives between two statements of the handler / at the start of a sub-operation, not in the "
           "middle of a pynetdicom statement (no thread pre-emption)"],
    outside="arrival while the acceptor itself is sending a request (send_* on the acceptor side); collisions with a local release "
            "(C06); the DUL state machine's part of the release (C04-C06); n larger than the bound",
    findings=["C07-release-lost-during-handler"], e2e=e2e)
def c07_release_answered(n_yields: int, release_at: int) -> bool:
    """
    pre: 0 <= n_yields <= N_MAX
    pre: release_at == -1 or release_at == IDLE or 0 <= release_at <= 2 * n_yields
    pre: shard("service", "find") != "find" or release_at <= n_yields or release_at == IDLE
    pre: not kf.skip("C07-release-lost-during-handler", n_yields=n_yields, release_at=release_at)
    post: _ == True
    """
    return judge(run(shard("service", "find"), n_yields, release_at))
