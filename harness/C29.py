"""C29 - qrscp returns exactly the entities the PS3.4 C.2.2.2 matching rules select.

Real code: pynetdicom.apps.qrscp.db (build_query, _search_single_value/_universal/_uid_list/_wildcard/_range,
_check_identifier, search, _search_qr, Instance.as_identifier) and handlers.handle_find.
Environment: SQLAlchemy/SQLite replaced by vlib/stubs/fakeorm.py (column operations become predicates over an
in-memory list of rows; LIKE/GLOB/=/>=/<=/IN with SQLite's documented semantics, self-checked against the real
sqlite3 module at import); pydicom's Dataset replaced inside db.py by fakeorm.MiniDataset (keyword -> element map)
so that symbolic strings are not realised by pydicom.
Oracle: spec/ps34_matching.py (PS3.4 C.2.2.2, C.4.1.1.3.1), no pynetdicom import.
Every counterexample is replayed against the real SQLite (temporary database file, real pydicom datasets, real
db.add_instance / db.search / handle_find) by the e2e reproducers at the end of this file.
"""
from typing import List

from vlib.shim import *  # noqa: F401,F403
from vlib.h import harness, tier, shard
from vlib import kf
from vlib.stubs import fakeorm

from pynetdicom.apps.qrscp import db
from pynetdicom.apps.qrscp import handlers

from spec import ps34_matching as spec

silence_loggers()
fakeorm.selfcheck()  # LIKE / GLOB / TEXT comparison models vs the real sqlite3 (concrete, once per process)

FakeInstance = fakeorm.make_instance_class(db.Instance)
MiniDataset = fakeorm.MiniDataset

with untraced():
    from pynetdicom.sop_class import (  # noqa
        PatientRootQueryRetrieveInformationModelFind as P_FIND,
        PatientRootQueryRetrieveInformationModelGet as P_GET,
        PatientRootQueryRetrieveInformationModelMove as P_MOVE,
        StudyRootQueryRetrieveInformationModelFind as S_FIND,
        StudyRootQueryRetrieveInformationModelGet as S_GET,
        StudyRootQueryRetrieveInformationModelMove as S_MOVE,
    )
MODEL_UID = {("P", "find"): P_FIND, ("P", "get"): P_GET, ("P", "move"): P_MOVE,
             ("S", "find"): S_FIND, ("S", "get"): S_GET, ("S", "move"): S_MOVE}

COLUMN = dict(db._TRANSLATION)  # keyword -> column name (read live)

LK = tier(2, 3)   # key / pattern length
LV = tier(2, 3)   # stored value length


def text_ok(s):
    """DICOM default character repertoire without control characters; the backslash is the value delimiter
    and cannot occur inside a single value (PS3.5 6.1, 6.4)."""
    for c in s:
        o = ord(c)
        if o < 32 or o > 126 or o == 92:
            return False
    return True


class _Env:
    """db.Instance -> FakeInstance, db.Dataset -> MiniDataset for the duration of one harness execution."""

    def __init__(self, rows):
        self.session = fakeorm.FakeSession(rows)

    def __enter__(self):
        self.saved = db.Instance, db.Dataset
        db.Instance = FakeInstance
        db.Dataset = MiniDataset
        return self.session

    def __exit__(self, *a):
        db.Instance, db.Dataset = self.saved
        return False


def _row(**kw):
    base = dict(patient_id="P", patient_name="N", study_instance_uid="1", study_date="20200101",
                accession_number="A", study_id="S", series_instance_uid="1.1", modality="CT",
                sop_instance_uid="1.1.1", filename="/x", sop_class_uid="1.2.840.10008.5.1.4.1.1.2",
                transfer_syntax_uid="1.2.840.10008.1.2")
    base.update(kw)
    return FakeInstance(**base)


def _agrees(verdict, got):
    """three-valued oracle verdict vs what the code returned"""
    if verdict == spec.YES:
        return got is True
    if verdict == spec.NO:
        return got is False
    return got is True or got is False


def _reraise_control(e):
    """CrossHair's NotDeterministic derives from Exception; the code under test (and these harnesses) catch
    `Exception`, which must not swallow it."""
    if type(e).__name__ == "NotDeterministic":
        raise e


def _match_one(keyword, key, value):
    """Run the real build_query for a one-key identifier against a one-row table."""
    ident = MiniDataset()
    setattr(ident, keyword, key)
    row = _row(**{COLUMN[keyword]: value})
    with _Env([row]) as session:
        try:
            res = db.build_query(ident, session).all()
        except Exception as e:
            _reraise_control(e)
            return None  # the statement could not be built / executed
    return len(res) == 1


# ================================================================================================ one text key
TEXT_ATTRS = {"PatientID": "LO", "PatientName": "PN", "Modality": "CS", "AccessionNumber": "SH"}


@harness(
    "C29",
    timeout=(170, 900),
    functions=["apps.qrscp.db:build_query", "apps.qrscp.db:_search_single_value", "apps.qrscp.db:_search_universal",
               "apps.qrscp.db:_search_wildcard"],
    bounds="one key attribute (PatientID LO / PatientName PN / Modality CS / AccessionNumber SH) whose value is absent "
           "(None), empty, or any string of <= %d printable ASCII characters (wild cards included); one stored instance "
           "whose value is any string of <= %d printable ASCII characters" % (LK, LV),
    stubs=["SQLAlchemy/SQLite replaced by vlib/stubs/fakeorm.py (self-checked against sqlite3 at import)",
           "pydicom Dataset replaced inside db.py by a keyword->element map (VR from the DICOM dictionary; the value of "
           "a zero-length element is '' as pydicom decodes it, or None as pydicom users may set it)"],
    outside="non-ASCII characters, values longer than the bound, NULL (absent) stored values",
    shards=[{"attr": a} for a in TEXT_ATTRS],
    findings=["C29-like-literal-wildcards", "C29-like-ascii-case-folding", "C29-empty-key-not-universal"],
    e2e=lambda args, sh: _e2e_one_key(sh.get("attr", "PatientID"), None if args["is_none"] else args["key"], args["v"]),
)
def text_key_equiv(key: str, v: str, is_none: bool) -> bool:
    """
    pre: len(key) <= LK and len(v) <= LV
    pre: text_ok(key) and text_ok(v)
    pre: not kf.skip("C29-like-literal-wildcards", key=key, v=v, is_none=is_none)
    pre: not kf.skip("C29-like-ascii-case-folding", key=key, v=v, is_none=is_none)
    pre: not kf.skip("C29-empty-key-not-universal", key=key, v=v, is_none=is_none)
    post: _ == True
    """
    attr = shard("attr", "PatientID")
    k = None if is_none else key
    got = _match_one(attr, k, v)
    return _agrees(spec.match_key(TEXT_ATTRS[attr], k, v), got)


# ================================================================================================ UID keys
@harness(
    "C29",
    timeout=(120, 600),
    functions=["apps.qrscp.db:build_query", "apps.qrscp.db:_search_single_value", "apps.qrscp.db:_search_universal",
               "apps.qrscp.db:_search_uid_list"],
    bounds="StudyInstanceUID key: None, '', one UID, or a list of two UIDs, each any string of <= %d printable ASCII "
           "characters; one stored instance with a UID of <= %d characters" % (LK, LV),
    stubs=["as text_key_equiv; a multi-valued UI element has a Python list as value (pydicom: MultiValue)"],
    outside="lists of more than two UIDs",
    findings=["C29-uid-list-unsupported", "C29-empty-uid-key-not-universal"],
    e2e=lambda args, sh: _e2e_one_key("StudyInstanceUID", _uid_key(args["n"], args["k1"], args["k2"]), args["v"]),
)
def uid_key_equiv(n: int, k1: str, k2: str, v: str) -> bool:
    """
    pre: 0 <= n <= 3
    pre: len(k1) <= LK and len(k2) <= LK and 1 <= len(v) <= LV
    pre: text_ok(k1) and text_ok(k2) and text_ok(v)
    pre: n < 2 or len(k1) >= 1
    pre: n < 3 or len(k2) >= 1
    pre: not kf.skip("C29-uid-list-unsupported", n=n, k1=k1, k2=k2, v=v)
    pre: not kf.skip("C29-empty-uid-key-not-universal", n=n, k1=k1, k2=k2, v=v)
    post: _ == True
    """
    key = _uid_key(n, k1, k2)
    got = _match_one("StudyInstanceUID", key, v)
    return _agrees(spec.match_key("UI", key, v), got)


def _uid_key(n, k1, k2):
    if n == 0:
        return None
    if n == 1:
        return ""
    if n == 2:
        return k1
    return [k1, k2]


# ================================================================================================ date ranges
DATE_PREFIX = "202001"  # the symbolic part is the day: DA values are 8 digits, YYYYMMDD


@harness(
    "C29",
    timeout=(120, 600),
    functions=["apps.qrscp.db:build_query", "apps.qrscp.db:_search_range", "apps.qrscp.db:_search_single_value"],
    bounds="StudyDate key 'd1-d2', 'd1-', '-d2' or a single date 'd1' (one shard each), stored date d: d, d1, d2 = "
           "'202001' + two digits (8 digit DA values; every digit solver-symbolic in 0..9)",
    stubs=["as text_key_equiv"],
    outside="TM / DT ranges, dates of different precision, the key '-' alone",
    shards=[{"kind": k} for k in range(4)],
    e2e=lambda args, sh: _e2e_one_key("StudyDate", _date_key(sh.get("kind", 0), _dd(args["a1"], args["a0"]),
                                                              _dd(args["b1"], args["b0"])),
                                      DATE_PREFIX + _dd(args["c1"], args["c0"])),
)
def range_equiv(a1: int, a0: int, b1: int, b0: int, c1: int, c0: int) -> bool:
    """
    pre: 0 <= a1 <= 9 and 0 <= a0 <= 9 and 0 <= b1 <= 9 and 0 <= b0 <= 9 and 0 <= c1 <= 9 and 0 <= c0 <= 9
    post: _ == True
    """
    key = _date_key(shard("kind", 0), _dd(a1, a0), _dd(b1, b0))
    value = DATE_PREFIX + _dd(c1, c0)
    got = _match_one("StudyDate", key, value)
    return _agrees(spec.match_key("DA", key, value), got)


def _dd(hi, lo):
    return chr(48 + hi) + chr(48 + lo)


def _date_key(kind, d1, d2):
    a, b = DATE_PREFIX + d1, DATE_PREFIX + d2
    if kind == 0:
        return a + "-" + b
    if kind == 1:
        return a + "-"
    if kind == 2:
        return "-" + b
    return a


# ================================================================================================ composition
# Per-key matching is decided above for arbitrary strings; the harnesses below decide how keys and levels are
# *composed* (hierarchy, conjunction, level cut-off, removal of required keys for C-GET/C-MOVE, one response per
# entity), so stored values and keys come from small pools and every combination is enumerated by the solver.
NR = shard("nr", 2)   # stored instances: 2 (quick); thorough: 3 for the two top levels of a model, 2 below (shard parameter)
PAT = ["P0", "P1"]
NAME = ["N0", "N1"]                       # patient name is a function of the patient (consistent database)
STUDY = [["1.0.0", "1.0.1"], ["1.1.0", "1.1.1"]]   # study UID is a function of (patient, study index)


def _rows_from(codes):
    """codes[i] in 0..3: bit 0 = patient index, bit 1 = study index; series / instance are distinct per row."""
    out = []
    for i, c in enumerate(codes):
        pi = 1 if (c == 1 or c == 3) else 0
        si = 1 if c >= 2 else 0
        out.append(dict(PatientID=PAT[pi], PatientName=NAME[pi], StudyInstanceUID=STUDY[pi][si],
                        SeriesInstanceUID="2.%d" % i, SOPInstanceUID="9.%d" % i))
    return out


KEY_POOL = {
    "PatientID": [None, "", "P0", "P*"],
    "PatientName": [None, "", "N0"],
    "StudyInstanceUID": [None, "", "1.0.0", ["1.0.0", "1.1.1"]],
    "SeriesInstanceUID": [None, "", "2.0"],
    "SOPInstanceUID": [None, "", "9.0"],
}
ABSENT = 0  # kind 0 = the key is not in the Identifier; kind 1 = zero-length value


def _identifier(level, kinds):
    ident = MiniDataset()
    if level is not None:
        ident.QueryRetrieveLevel = level
    present = {}
    for kw, kind in kinds.items():
        if kind != ABSENT:
            v = KEY_POOL[kw][kind]
            setattr(ident, kw, list(v) if isinstance(v, list) else v)
            present[kw] = v
    return ident, present


def _expected_rows(model, level, present, rows, unique_only):
    """Hierarchical search: a stored instance is selected iff every key of the Identifier at or above the level
    matches it (C.4.1.3.1.1); `unique_only`: C-GET/C-MOVE Identifiers carry unique keys only (C.4.2.1.4, C.4.3.1.3)."""
    sel = []
    for r in rows:
        verdict = spec.YES
        for name, unique, others in spec.MODELS[model]:
            ks = (unique,) if unique_only else (unique,) + tuple(others)
            for k in ks:
                if k in present and k in r:
                    verdict = spec.conj(verdict, spec.match_key(spec.VR[k], present[k], r[k]))
            if name == level:
                break
        if verdict == spec.EITHER:
            return None
        if verdict == spec.YES:
            sel.append(r)
    return sel


class _Ae:
    ae_title = "QRSCP"


class _Peer:
    address = "peer"
    port = 104


class _FAssoc:
    requestor = _Peer()
    ae = _Ae()


class _Ts:
    @staticmethod
    def strftime(f):
        return "t"


class _Req:
    def __init__(self, model):
        self.AffectedSOPClassUID = model


class _FindEvent:
    is_cancelled = False

    def __init__(self, ident, model):
        self.identifier = ident
        self.request = _Req(model)
        self.assoc = _FAssoc()
        self.timestamp = _Ts


class _Log:
    def info(self, *a, **k):
        pass

    warning = error = debug = info

    def exception(self, exc=None, *a, **k):
        _reraise_control(exc)


class _Conn:
    def __enter__(self):
        return self

    def __exit__(self, *a):
        return False


class _Engine:
    def connect(self):
        return _Conn()


def _run_find(model_uid, ident, rows):
    """The real handle_find on FakeOrm rows: returns (final status or None, list of response MiniDatasets)."""
    fake_rows = [_row(patient_id=r["PatientID"], patient_name=r["PatientName"], study_instance_uid=r["StudyInstanceUID"],
                      series_instance_uid=r["SeriesInstanceUID"], sop_instance_uid=r["SOPInstanceUID"]) for r in rows]
    env = _Env(fake_rows)
    saved = handlers.create_engine, handlers.sessionmaker
    handlers.create_engine = lambda *a, **k: _Engine()
    handlers.sessionmaker = lambda *a, **k: (lambda: env.session)
    try:
        with env:
            out = list(handlers.handle_find(_FindEvent(ident, model_uid), "sqlite:///:memory:", None, _Log()))
    finally:
        handlers.create_engine, handlers.sessionmaker = saved
    final = None
    responses = []
    for status, ds in out:
        if status == 0xFF00:
            responses.append(ds)
        else:
            final = status
    return final, responses


def dup_entity(codes, sh):
    """Region of the known finding C29-find-per-instance: two stored instances belong to the same entity at the
    query level (`sh` = the shard dict: model, level)."""
    level = sh.get("level", "PATIENT")
    n = len(codes)
    for i in range(n):
        for j in range(i + 1, n):
            a, b = codes[i], codes[j]
            if level == "PATIENT":
                pa = 1 if (a == 1 or a == 3) else 0
                pb = 1 if (b == 1 or b == 3) else 0
                if pa == pb:
                    return True
            elif level == "STUDY":
                if a == b:
                    return True
    return False


def _split(sh):
    """Study Root shards are the expensive ones: split them by the PatientID key kind (a case split of the same
    bounded claim)."""
    if sh["model"] == "S":
        return [dict(sh, kp=k) for k in range(4)]
    return [sh]


def _find_shards():
    out = []
    if tier(True, False):
        base = [{"model": "P", "level": "PATIENT"}, {"model": "P", "level": "STUDY"}, {"model": "S", "level": "STUDY"},
                {"model": "S", "level": "SERIES"}]
    else:
        base = []
        for m in ("P", "S"):
            for i, lv in enumerate(spec.level_names(m)):
                # (PATIENT level: the pool has two patients, so three instances always contain two of one patient - the
                #  whole shard would lie in the region of the listed finding C29-find-per-instance: keep two instances)
                base.append({"model": m, "level": lv, "nr": 3 if (i < 2 and lv != "PATIENT") else 2})
    for sh in base:
        out.extend(_split(sh))
    return out


FIND_SHARDS = _find_shards()
# C-GET and C-MOVE run through the same code (only the model UID differs): quick checks C-GET for Patient Root and
# C-MOVE for Study Root, thorough checks both for both
RETRIEVE_SHARDS = tier(
    [dict(sh, op=("get" if sh["model"] == "P" else "move")) for sh in FIND_SHARDS],
    [dict(sh, op=op) for sh in FIND_SHARDS for op in ("get", "move")])
KP_FIX = shard("kp", -1)


def _kinds_for(model, level, kp, kn, ks, ke, ki):
    """Keys of levels below the query level are left out (rejection is identifier_check's subject); the unique key of
    every level above it is present."""
    kinds = {"PatientID": kp, "PatientName": kn, "StudyInstanceUID": ks, "SeriesInstanceUID": ke, "SOPInstanceUID": ki}
    names = spec.level_names(model)
    idx = names.index(level)
    for name, unique, others in spec.MODELS[model]:
        li = names.index(name)
        for k in (unique,) + tuple(others):
            if k in kinds and li > idx:
                kinds[k] = ABSENT
        if li < idx and kinds[unique] == ABSENT:
            return None
    return kinds


_COMPOSE_STUBS = [
    "SQLAlchemy/SQLite replaced by vlib/stubs/fakeorm.py; create_engine / sessionmaker inside handlers replaced by "
    "stand-ins that hand out the FakeOrm session",
    "pydicom Dataset replaced inside db.py by a keyword->element map; event / association stand-ins",
    "the database is consistent: instances of one patient carry one patient name, a study UID belongs to one patient",
]


@harness(
    "C29",
    timeout=(170, 1500),
    functions=["apps.qrscp.handlers:handle_find", "apps.qrscp.db:search", "apps.qrscp.db:_search_qr",
               "apps.qrscp.db:_check_identifier", "apps.qrscp.db:build_query", "apps.qrscp.db:Instance.as_identifier"],
    bounds="2 stored instances (thorough: 3 for the two top levels of each model), each under patient P0/P1 and one of that patient's two studies (own series and "
           "instance each); C-FIND at the shard's model/level with every combination of key kinds: PatientID in "
           "{absent, '', 'P0', 'P*'}, PatientName in {absent, '', 'N0'}, StudyInstanceUID in {absent, '', one UID, list of "
           "two UIDs}, SeriesInstanceUID / SOPInstanceUID in {absent, '', one UID}; keys below the level left out, unique "
           "keys above it present",
    stubs=_COMPOSE_STUBS,
    outside="required keys other than PatientName, optional keys, more instances, C-CANCEL",
    shards=FIND_SHARDS,
    findings=["C29-find-per-instance", "C29-find-empty-or-list-keys"],
    e2e=lambda args, sh: _e2e_find(args, sh),
)
def find_entities(codes: List[int], kp: int, kn: int, ks: int, ke: int, ki: int) -> bool:
    """
    pre: len(codes) == NR and all(0 <= c <= 3 for c in codes)
    pre: 0 <= kp <= 3 and 0 <= kn <= 2 and 0 <= ks <= 3 and 0 <= ke <= 2 and 0 <= ki <= 2
    pre: KP_FIX < 0 or kp == KP_FIX
    pre: not kf.skip("C29-find-per-instance", codes=codes, kp=kp, kn=kn, ks=ks, ke=ke, ki=ki)
    pre: not kf.skip("C29-find-empty-or-list-keys", codes=codes, kp=kp, kn=kn, ks=ks, ke=ke, ki=ki)
    post: _ == True
    """
    model, level = shard("model", "P"), shard("level", "PATIENT")
    kinds = _kinds_for(model, level, kp, kn, ks, ke, ki)
    if kinds is None:
        return True  # a unique key above the level is missing: identifier_check's subject
    return _find_verdict(model, level, kinds, _rows_from(codes), _run_find)


def _find_verdict(model, level, kinds, rows, runner):
    ident, present = _identifier(level, kinds)
    validity = spec.identifier_validity(model, level, present)
    final, responses = runner(MODEL_UID[(model, "find")], ident, rows)
    if validity == spec.NO:
        return final == 0xA900 and len(responses) == 0
    if final is not None:
        # a valid Identifier is served: the handler itself yields Pending matches only
        return validity == spec.EITHER and final == 0xA900 and len(responses) == 0
    expected = _expected_rows(model, level, present, rows, False)
    if expected is None:
        return True
    path = spec.entity_path(model, level)
    want = []
    for r in expected:
        e = tuple(r[k] for k in path)
        if e not in want:
            want.append(e)
    got = []
    for ds in responses:
        # the response identifies its entity by the unique key of the query level (always returned, C.4.1.1.3.2)
        if path[-1] not in ds and path[-1] in present:
            return False
        e = tuple((getattr(ds, k) if k in ds else None) for k in path)
        got.append(e)
    # every selected entity is reported and nothing else ...
    for e in got:
        if not _covers(want, e):
            return False
    for e in want:
        if not _covers(got, e):
            return False
    # ... exactly once
    return len(got) == len(want)


def _covers(entities, e):
    """entity tuples compare on the components the response carries (keys not requested are not returned)"""
    for x in entities:
        ok = True
        for a, b in zip(x, e):
            if a is not None and b is not None and a != b:
                ok = False
        if ok:
            return True
    return False


@harness(
    "C29",
    timeout=(170, 1500),
    functions=["apps.qrscp.db:search", "apps.qrscp.db:_search_qr", "apps.qrscp.db:_check_identifier",
               "apps.qrscp.db:build_query"],
    bounds="as find_entities, for C-GET and C-MOVE Identifiers (shard: model, level, operation): the instances "
           "returned for retrieval are exactly those below the selected entities; required keys are ignored",
    stubs=_COMPOSE_STUBS,
    outside="as find_entities; reading the files and the C-STORE sub-operations (C19-C23)",
    shards=RETRIEVE_SHARDS,
    findings=["C29-retrieve-empty-or-list-keys"],
    e2e=lambda args, sh: _e2e_retrieve(args, sh),
)
def retrieve_instances(codes: List[int], kp: int, kn: int, ks: int, ke: int, ki: int) -> bool:
    """
    pre: len(codes) == NR and all(0 <= c <= 3 for c in codes)
    pre: 0 <= kp <= 3 and 0 <= kn <= 2 and 0 <= ks <= 3 and 0 <= ke <= 2 and 0 <= ki <= 2
    pre: KP_FIX < 0 or kp == KP_FIX
    pre: not kf.skip("C29-retrieve-empty-or-list-keys", codes=codes, kp=kp, kn=kn, ks=ks, ke=ke, ki=ki)
    post: _ == True
    """
    model, level, op = shard("model", "P"), shard("level", "PATIENT"), shard("op", "get")
    kinds = _kinds_for(model, level, kp, kn, ks, ke, ki)
    if kinds is None:
        return True
    return _retrieve_verdict(model, level, op, kinds, _rows_from(codes), _run_search)


def _run_search(model_uid, ident, rows):
    fake_rows = [_row(patient_id=r["PatientID"], patient_name=r["PatientName"], study_instance_uid=r["StudyInstanceUID"],
                      series_instance_uid=r["SeriesInstanceUID"], sop_instance_uid=r["SOPInstanceUID"]) for r in rows]
    with _Env(fake_rows) as session:
        try:
            res = db.search(model_uid, ident, session)
        except db.InvalidIdentifier:
            return "invalid"
        except Exception as e:
            _reraise_control(e)
            return "error"
    return [r.sop_instance_uid for r in res]


def _retrieve_verdict(model, level, op, kinds, rows, runner):
    ident, present = _identifier(level, kinds)
    # required keys are not part of a C-GET / C-MOVE Identifier: qrscp drops them before anything else
    uniq = {k: v for k, v in present.items() if k in [lv[1] for lv in spec.MODELS[model]]}
    validity = spec.identifier_validity(model, level, uniq)
    got = runner(MODEL_UID[(model, op)], ident, rows)
    if validity == spec.NO:
        return got == "invalid"
    if validity == spec.EITHER:
        return got != "error"
    if isinstance(got, str):
        return False
    # upper bound: the instances below the entities the unique keys select;  lower bound: those of them that also
    # satisfy any other key that was sent along (a C-GET/C-MOVE Identifier should not contain such keys, C.4.2.1.4 /
    # C.4.3.1.3; qrscp drops what its table calls required keys and applies the rest - either is acceptable)
    upper = _expected_rows(model, level, uniq, rows, True)
    lower = _expected_rows(model, level, present, rows, False)
    if upper is None or lower is None:
        return True
    up = [r["SOPInstanceUID"] for r in upper]
    lo = [r["SOPInstanceUID"] for r in lower]
    for u in lo:
        if u not in got:
            return False
    for u in got:
        if u not in up:
            return False
    return len(set(got)) == len(got)


# ================================================================================================ identifier validity
LEVEL_POOL = ["PATIENT", "STUDY", "SERIES", "IMAGE", "FRAME"]   # the last is not a level of either model


@harness(
    "C29",
    timeout=(170, 900),
    functions=["apps.qrscp.db:search", "apps.qrscp.db:_search_qr", "apps.qrscp.db:_check_identifier"],
    bounds="every Identifier structure: Query/Retrieve Level absent or any of PATIENT/STUDY/SERIES/IMAGE/FRAME; presence "
           "of each of PatientID, PatientName, StudyInstanceUID, StudyDate, SeriesInstanceUID, Modality, SOPInstanceUID, "
           "PatientBirthDate (optional key) as a solver-symbolic bool; both models; C-FIND and C-GET",
    stubs=_COMPOSE_STUBS + ["empty database"],
    outside="identifiers whose higher-level unique keys are not single values (not refused by qrscp, not judged here)",
    shards=[{"model": m, "op": op} for m in ("P", "S") for op in ("find", "get")],
    e2e=lambda args, sh: _e2e_identifier(args, sh),
)
def identifier_check(has_level: bool, level_idx: int, pid: bool, pname: bool, study: bool, sdate: bool,
                     series: bool, modality: bool, sop: bool, optional: bool) -> bool:
    """
    pre: 0 <= level_idx <= 4
    post: _ == True
    """
    model, op = shard("model", "P"), shard("op", "find")
    level = LEVEL_POOL[level_idx] if has_level else None
    ident, present = _structure(level, pid, pname, study, sdate, series, modality, sop, optional)
    got = _run_search(MODEL_UID[(model, op)], ident, [])
    return _validity_verdict(model, op, level, present, got)


_STRUCT_VALUES = {"PatientID": "P0", "PatientName": "N0", "StudyInstanceUID": "1.0.0", "StudyDate": "20200101",
                  "SeriesInstanceUID": "2.0", "Modality": "CT", "SOPInstanceUID": "9.0", "PatientBirthDate": "19700101"}


def _structure(level, pid, pname, study, sdate, series, modality, sop, optional):
    ident = MiniDataset()
    if level is not None:
        ident.QueryRetrieveLevel = level
    flags = {"PatientID": pid, "PatientName": pname, "StudyInstanceUID": study, "StudyDate": sdate,
             "SeriesInstanceUID": series, "Modality": modality, "SOPInstanceUID": sop, "PatientBirthDate": optional}
    present = {}
    for kw, on in flags.items():
        if on:
            setattr(ident, kw, _STRUCT_VALUES[kw])
            present[kw] = _STRUCT_VALUES[kw]
    return ident, present


def _validity_verdict(model, op, level, present, got):
    keys = dict(present)
    keys.pop("PatientBirthDate", None)          # optional keys are not supported and are ignored
    if op != "find":
        keys = {k: v for k, v in keys.items() if k in [lv[1] for lv in spec.MODELS[model]]}
    validity = spec.identifier_validity(model, level, keys)
    if validity == spec.NO:
        return got == "invalid"
    if validity == spec.YES:
        return isinstance(got, list)
    return got != "error"


# ================================================================================================ e2e (real SQLite)
def _real_db():
    import os
    import tempfile

    fd, path = tempfile.mkstemp(prefix="c29-e2e-", suffix=".sqlite")
    os.close(fd)
    url = "sqlite:///" + path
    engine = db.create(url)
    return engine, url, path


def _real_dataset(**kw):
    from pydicom.dataset import Dataset

    ds = Dataset()
    base = dict(PatientID="P", PatientName="N", StudyInstanceUID="1", StudyDate="20200101", AccessionNumber="A",
                StudyID="S", SeriesInstanceUID="1.1", Modality="CT", SOPInstanceUID="1.1.1",
                SOPClassUID="1.2.840.10008.5.1.4.1.1.2")
    base.update(kw)
    for k, v in base.items():
        setattr(ds, k, v)
    return ds


def _e2e_search(rows, model, level, keys, via_handler=False):
    """rows: list of dict keyword->value; keys: dict keyword->key value.  Returns the list of rows (as dicts of the
    unique keys) the REAL db.search / handle_find returns from a REAL SQLite database, or 'error:<text>'."""
    import os
    import warnings

    from pydicom.dataset import Dataset
    from sqlalchemy.orm import sessionmaker

    warnings.simplefilter("ignore")
    engine, url, path = _real_db()
    try:
        session = sessionmaker(bind=engine)()
        try:
            for i, r in enumerate(rows):
                db.add_instance(_real_dataset(**r), session, "/x/%d" % i)
            ident = Dataset()
            if level is not None:
                ident.QueryRetrieveLevel = level
            for k, v in keys.items():
                setattr(ident, k, v)
            try:
                res = db.search(model, ident, session)
            except db.InvalidIdentifier as e:
                return "invalid:" + str(e)
            except Exception as e:
                session.rollback()
                return "error:" + type(e).__name__ + ": " + str(e)[:160]
            return [dict(PatientID=i.patient_id, StudyInstanceUID=i.study_instance_uid,
                         SeriesInstanceUID=i.series_instance_uid, SOPInstanceUID=i.sop_instance_uid) for i in res]
        finally:
            session.close()
            engine.dispose()
    finally:
        try:
            os.remove(path)
        except OSError:
            pass


def _e2e_one_key(keyword, key, value):
    """One stored instance, one key, real SQLite: reproduced iff the real answer contradicts the oracle."""
    vr = spec.VR[keyword]
    if isinstance(value, str) and value == "":
        return False, "empty stored values cannot be added through db.add_instance for this key"
    try:
        rows = [{keyword: value}]
        # a one-level query that contains the key: PATIENT level for patient keys, otherwise Study Root STUDY level
        if keyword in ("PatientID", "PatientName"):
            model, level, keys = P_FIND, "PATIENT", {keyword: key}
        elif keyword == "Modality":
            model, level, keys = S_FIND, "SERIES", {"StudyInstanceUID": "1", keyword: key}
        else:
            model, level, keys = S_FIND, "STUDY", {keyword: key}
        res = _e2e_search(rows, model, level, keys)
    except Exception as e:
        return None, "e2e set-up failed: %r" % (e,)
    verdict = spec.match_key(vr, key, value)
    if isinstance(res, str):
        return verdict != spec.EITHER, "real sqlite via db.search: %s; PS3.4 verdict for key %r on stored %r: %s" % (
            res, key, value, verdict)
    got = len(res) == 1
    return (not _agrees(verdict, got)), "real sqlite via db.search: key %s=%r, stored %r -> %s; PS3.4 C.2.2.2: %s" % (
        keyword, key, value, "returned" if got else "not returned", verdict)


def _to_real(ident):
    from pydicom.dataset import Dataset

    ds = Dataset()
    for e in ident:
        setattr(ds, e.keyword, e.value)
    return ds


def _with_real_db(rows, fn):
    import os
    import warnings

    from sqlalchemy.orm import sessionmaker

    warnings.simplefilter("ignore")
    engine, url, path = _real_db()
    try:
        session = sessionmaker(bind=engine)()
        try:
            for i, r in enumerate(rows):
                db.add_instance(_real_dataset(**r), session, "/x/%d" % i)
        finally:
            session.close()
        return fn(engine, url)
    finally:
        engine.dispose()
        try:
            os.remove(path)
        except OSError:
            pass


def _real_find_runner(model_uid, ident, rows):
    def go(engine, url):
        out = list(handlers.handle_find(_FindEvent(_to_real(ident), model_uid), url, None, _Log()))
        final, responses = None, []
        for status, ds in out:
            if status == 0xFF00:
                responses.append(ds)
            else:
                final = status
        return final, responses
    return _with_real_db(rows, go)


def _real_search_runner(model_uid, ident, rows):
    from sqlalchemy.orm import sessionmaker

    def go(engine, url):
        session = sessionmaker(bind=engine)()
        try:
            try:
                res = db.search(model_uid, _to_real(ident), session)
            except db.InvalidIdentifier:
                return "invalid"
            except Exception:
                session.rollback()
                return "error"
            return [str(r.sop_instance_uid) for r in res]
        finally:
            session.close()
    return _with_real_db(rows, go)


def _describe(model, level, kinds, rows):
    ident, present = _identifier(level, kinds)
    return "model %s level %s keys %r; stored %r" % (
        model, level, present, [(r["PatientID"], r["StudyInstanceUID"], r["SOPInstanceUID"]) for r in rows])


def _e2e_find(args, sh):
    model, level = sh.get("model", "P"), sh.get("level", "PATIENT")
    kinds = _kinds_for(model, level, args["kp"], args["kn"], args["ks"], args["ke"], args["ki"])
    if kinds is None:
        return False, "outside the harness domain"
    rows = _rows_from(args["codes"])
    seen = {}

    def runner(model_uid, ident, rows_):
        r = _real_find_runner(model_uid, ident, rows_)
        seen["r"] = r
        return r
    ok = _find_verdict(model, level, kinds, rows, runner)
    final, responses = seen.get("r", (None, []))
    return (not ok), "real handle_find on a real SQLite file: %s -> final status %s, %d Pending responses %r" % (
        _describe(model, level, kinds, rows), final if final is None else hex(final), len(responses),
        [[(e.keyword, str(e.value)) for e in ds if e.keyword != "RetrieveAETitle"] for ds in responses])


def _e2e_retrieve(args, sh):
    model, level, op = sh.get("model", "P"), sh.get("level", "PATIENT"), sh.get("op", "get")
    kinds = _kinds_for(model, level, args["kp"], args["kn"], args["ks"], args["ke"], args["ki"])
    if kinds is None:
        return False, "outside the harness domain"
    rows = _rows_from(args["codes"])
    seen = {}

    def runner(model_uid, ident, rows_):
        seen["r"] = _real_search_runner(model_uid, ident, rows_)
        return seen["r"]
    ok = _retrieve_verdict(model, level, op, kinds, rows, runner)
    return (not ok), "real db.search (%s) on a real SQLite file: %s -> %r" % (op, _describe(model, level, kinds, rows), seen.get("r"))


def _e2e_identifier(args, sh):
    model, op = sh.get("model", "P"), sh.get("op", "find")
    level = LEVEL_POOL[args["level_idx"]] if args["has_level"] else None
    ident, present = _structure(level, args["pid"], args["pname"], args["study"], args["sdate"], args["series"],
                                args["modality"], args["sop"], args["optional"])
    got = _real_search_runner(MODEL_UID[(model, op)], ident, [])
    ok = _validity_verdict(model, op, level, present, got)
    return (not ok), "real db.search (%s, %s root) on an empty real SQLite file: level %r keys %r -> %r" % (
        op, model, level, sorted(present), got)


# ================================================================================================ storing
# The entities a query selects are those of the instances AS LAST STORED: db.add_instance updates the row of an
# instance that is stored again, and every required key of the new data set replaces the old one (an absent key
# becomes NULL - it must not keep matching the value of the replaced copy).
OPT_KEYS = [("patient_name", "PatientName"), ("study_date", "StudyDate"), ("accession_number", "AccessionNumber"),
            ("study_id", "StudyID"), ("modality", "Modality")]
OLD_VALUES = {"PatientName": "OLD^NAME", "StudyDate": "20190101", "AccessionNumber": "OLDACC", "StudyID": "OLDID",
              "Modality": "MR"}


@harness(
    "C29",
    timeout=(400, 900),
    shards=[{"f0": 0}, {"f0": 1}],
    functions=["apps.qrscp.db:add_instance"],
    bounds="one SOP Instance stored twice through db.add_instance: which of the optional keys (PatientName, StudyDate, "
           "AccessionNumber, StudyID, Modality) each copy carries is solver-symbolic (5 + 5 bools), the second copy's "
           "values are any string of <= 2 printable ASCII characters",
    stubs=["as text_key_equiv (FakeSession.add appends the row)"],
    outside="IS keys (SeriesNumber, InstanceNumber), transfer syntax / SOP class columns",
)
def restore_instance(first: List[bool], second: List[bool], v: str) -> bool:
    """
    pre: len(first) == 5 and len(second) == 5
    pre: first[0] == bool(shard("f0", 0))
    pre: 1 <= len(v) <= 2 and text_ok(v)
    post: _ == True
    """
    def make(present, values):
        ds = MiniDataset()
        ds.PatientID = "P0"
        ds.StudyInstanceUID = "1.1"
        ds.SeriesInstanceUID = "1.1.1"
        ds.SOPInstanceUID = "1.1.1.1"
        for i, (_col, kw) in enumerate(OPT_KEYS):
            if present[i]:
                setattr(ds, kw, values(kw))
        return ds

    rows = []
    with _Env(rows) as session:
        try:
            db.add_instance(make(first, lambda kw: OLD_VALUES[kw]), session, "/a")
            db.add_instance(make(second, lambda kw: v), session, "/b")
        except Exception as e:
            _reraise_control(e)
            return False
    if len(rows) != 1:
        return False
    row = rows[0]
    ok = row.filename == "/b" and row.patient_id == "P0" and row.sop_instance_uid == "1.1.1.1"
    for i, (col, kw) in enumerate(OPT_KEYS):
        want = v if second[i] else None
        got = getattr(row, col)
        ok = ok and ((got is None) if want is None else (got == want))
    return ok
