"""C23 - a C-CANCEL received while a C-FIND / C-GET / C-MOVE is in progress is reported to that
operation's handler when its message ID matches, never to a different operation, and does not carry
over to operations that start later.

Real code: DIMSEServiceProvider.receive_primitive (cancel collection, limit of 10) and get_msg,
Association._run_reactor (single iterations) and _serve_request (clearing), the real
QueryRetrieveServiceClass (SCP, _c_find_scp / _get_scp / _move_scp, _wrap_handler, is_cancelled),
evt.trigger and Event.is_cancelled.
Environment (symbolic schedule, DESIGN 4.7): the peer's C-CANCELs (message id and arrival slot are
solver variables) are delivered through receive_primitive at the slots of spec.assoc_e.slots():
before / after the request is queued, before each of the handler's check points, after its last one,
between and after the operations.  One delivery and one reactor iteration are atomic steps.
"""
from typing import List

from vlib.shim import *  # noqa: F401,F403
from vlib.h import harness, tier, shard
from vlib import kf

from pydicom.dataset import Dataset

import pynetdicom.association as am
import pynetdicom.dimse as dimse_mod
import pynetdicom.service_class as sc
from pynetdicom import evt
from pynetdicom.dimse_primitives import C_CANCEL, C_FIND, C_GET, C_MOVE
from vlib.stubs.assoc_e import (
    make_assoc, mk_cx, bio, PairDict, MODE_ACCEPTOR, FakeMessage, FakeThreading, run_reactor_iterations, make_recv_dimse,
)
from spec import assoc_e as spec

silence_loggers()


def _rng(xs, lo, hi):
    """all(lo <= x <= hi for x in xs) with early exit (CrossHair's all() does not short-circuit)"""
    for x in xs:
        if x < lo:
            return False
        if x > hi:
            return False
    return True

# (K, NC) = (handler check points per operation, number of C-CANCEL requests); one set of shards per pair
CONFIGS = tier(((2, 2),), ((2, 3), (3, 2)))
TS = "1.2.840.10008.1.2"
MODELS = {"find": "1.2.840.10008.5.1.4.1.2.1.1", "move": "1.2.840.10008.5.1.4.1.2.1.2", "get": "1.2.840.10008.5.1.4.1.2.1.3"}
CX_ID = {"find": 1, "move": 3, "get": 5}


def _K():
    return shard("K", CONFIGS[0][0])


def _NC():
    return shard("NC", CONFIGS[0][1])


def _S():
    return spec.slots(_K())


DS = Dataset()
DS.PatientID = "1"


class StoreAssocStub:
    """What ae.associate() returns to _move_scp: an established association that does nothing."""

    is_established = True

    def release(self):
        return None

    def send_c_store(self, *a, **k):
        raise RuntimeError("no sub-operation is ever sent in this harness")


class SymKeyCancelDimse:
    """Mix-in making `cancel_req` an association list (PairDict) whatever is assigned to it, so that
    message ids used as keys stay symbolic (a real dict would hash, i.e. realise, them)."""

    @property
    def cancel_req(self):
        return self._cancel_req

    @cancel_req.setter
    def cancel_req(self, value):
        self._cancel_req = CancelMap(list(value.items()))


class CancelMap(PairDict):
    def __setitem__(self, key, value):
        for i, (k, v) in enumerate(self._p):
            if k == key:
                self._p[i] = (k, value)
                return
        self._p.append((key, value))

    def __delitem__(self, key):
        for i, (k, v) in enumerate(self._p):
            if k == key:
                del self._p[i]
                return
        raise KeyError(key)


def _mk_dimse(assoc):
    base = make_recv_dimse(assoc).__class__

    class D(SymKeyCancelDimse, base):
        pass

    return D(assoc)


def _request(kind, msg_id):
    r = {"find": C_FIND, "get": C_GET, "move": C_MOVE}[kind]()
    r.MessageID = msg_id
    r.AffectedSOPClassUID = MODELS[kind]
    r.Priority = 2
    r.Identifier = bio()
    if kind == "move":
        r.MoveDestination = "DEST"
    return r


def _cancel(msg_id):
    c = C_CANCEL()
    c.MessageIDBeingRespondedTo = msg_id
    return c


class World:
    """The schedule: delivers the cancels of a slot, hosts the handlers."""

    def __init__(self, assoc, slots_, ids):
        self.assoc, self.slots, self.ids = assoc, slots_, ids
        self.seen = {1: [], 2: []}
        self.op = 0
        self.calls = []

    def deliver(self, slot):
        for s, x in zip(self.slots, self.ids):
            if s == slot:
                self.assoc.dimse.receive_primitive((CX_ID["find"], _cancel(x)))

    def _checks(self, event):
        op = self.op
        S = _S()
        base = S["CHECK1"] if op == 1 else S["CHECK2"]
        for i in range(_K()):
            self.deliver(base + i)
            self.seen[op].append(event.is_cancelled)
            yield i
        self.deliver(S["TAIL1"] if op == 1 else S["TAIL2"])

    def h_find(self, event):
        self.calls.append("find")
        for _ in self._checks(event):
            yield 0xFF00, DS

    def h_get(self, event):
        self.calls.append("get")
        yield 1
        for _ in self._checks(event):
            yield 0xFF00, None

    def h_move(self, event):
        self.calls.append("move")
        yield "127.0.0.1", 11112
        yield 1
        for _ in self._checks(event):
            yield 0xFF00, None


def _setup():
    assoc = make_assoc(MODE_ACCEPTOR)
    assoc.dimse = _mk_dimse(assoc)
    assoc._accepted_cx = {CX_ID[k]: mk_cx(MODELS[k], TS, CX_ID[k], True, True) for k in MODELS}
    assoc.ae.associate = lambda *a, **k: StoreAssocStub()
    return assoc


class _Patched:
    def __enter__(self):
        self.saved = (dimse_mod.DIMSEMessage, dimse_mod.threading, sc.encode)
        dimse_mod.DIMSEMessage = FakeMessage
        dimse_mod.threading = FakeThreading
        sc.encode = lambda ds, *a: b"\x00" * 8
        return self

    def __exit__(self, *a):
        dimse_mod.DIMSEMessage, dimse_mod.threading, sc.encode = self.saved
        return False


_STUBS = [
    "assoc.dimse is the real DIMSEServiceProvider; only send_msg records instead of encoding, and cancel_req is kept as an "
    "association list with dict semantics (keys stay symbolic)",
    "dimse.DIMSEMessage replaced by a carrier (codec is C15-C17); real _run_reactor single-stepped (time.sleep no-op, "
    "_reactor_checkpoint stub); assoc.acse / assoc.dul stand-ins (never aborted, never released)",
    "service_class.encode replaced (identifier encoding is pydicom's); ae.associate returns an idle stub (C-MOVE)",
    "handlers read event.is_cancelled at K check points and keep yielding Pending (they never act on the cancel)",
]


def _finals_ok(assoc, m1, m2):
    """light sanity: both operations were answered under their own message id, last response final"""
    sent = assoc.dimse.sent
    if not sent or any(not s.is_response for s in sent):
        return False
    return sent[-1].rsp_id == m2 and sent[-1].status == 0x0000 and any(s.rsp_id == m1 for s in sent)


@harness(
    "C23",
    timeout=(170, 900),
    shards=[dict(op2=o, first=s, K=k, NC=nc) for (k, nc) in CONFIGS for o in ("find", "get", "move")
            for s in range(spec.slots(k)["N"])],
    functions=["dimse:DIMSEServiceProvider.receive_primitive", "dimse:DIMSEServiceProvider.get_msg",
               "association:Association._run_reactor", "association:Association._serve_request",
               "service_class:QueryRetrieveServiceClass.SCP", "service_class:ServiceClass._c_find_scp",
               "service_class:QueryRetrieveServiceClass._get_scp", "service_class:QueryRetrieveServiceClass._move_scp",
               "service_class:ServiceClass.is_cancelled", "events:Event.is_cancelled", "events:trigger"],
    bounds="a C-FIND (message id m1) followed by a C-FIND / C-GET / C-MOVE (m2), m1, m2 any 0..65535 (solver-symbolic, equal or "
           "not); NC C-CANCELs, each with any id 0..65535 and any of the 7+2K arrival slots (the first cancel's slot is the "
           "shard); K handler check points per operation; (K, NC) in %s" % (CONFIGS,),
    stubs=_STUBS,
    outside="pre-emption inside a step (e.g. between the final response and the clearing in _serve_request); more than two "
            "operations; handlers that stop on a cancel",
    findings=["C23-cancel-before-serve"],
)
def cancel_routing(m1: int, m2: int, slots_: List[int], ids: List[int]) -> bool:
    """
    pre: 0 <= m1 <= 65535 and 0 <= m2 <= 65535
    pre: len(slots_) == _NC() and len(ids) == _NC()
    pre: _rng(slots_, 0, _S()["N"] - 1) and slots_[0] == shard("first", 0)
    pre: _rng(ids, 0, 65535)
    pre: not kf.skip("C23-cancel-before-serve", m1=m1, m2=m2, slots_=slots_, ids=ids)
    post: _ == True
    """
    op2 = shard("op2", "find")
    K, S = _K(), _S()
    with untraced():
        assoc = _setup()
    w = World(assoc, slots_, ids)
    assoc.bind(evt.EVT_C_FIND, w.h_find)
    assoc.bind(evt.EVT_C_GET, w.h_get)
    assoc.bind(evt.EVT_C_MOVE, w.h_move)
    with _Patched():
        w.deliver(S["BEFORE1"])
        assoc.dimse.receive_primitive((CX_ID["find"], _request("find", m1)))
        w.deliver(S["QUEUED1"])
        w.op = 1
        run_reactor_iterations(assoc, am, 1)
        w.op = 0
        w.deliver(S["BETWEEN"])
        assoc.dimse.receive_primitive((CX_ID[op2], _request(op2, m2)))
        w.deliver(S["QUEUED2"])
        w.op = 2
        run_reactor_iterations(assoc, am, 1)
        w.op = 0
        w.deliver(S["AFTER"])
        run_reactor_iterations(assoc, am, 1)
    if w.calls != ["find", op2] or assoc.aborts != []:
        return False
    cancels = list(zip(slots_, ids))
    if w.seen[1] != spec.expected_cancel_reports(K, m1, cancels, 1):
        return False
    if w.seen[2] != spec.expected_cancel_reports(K, m2, cancels, 2):
        return False
    return _finals_ok(assoc, m1, m2)


# ------------------------------------------------------------------------------------------------
# Many pending cancels (the collection keeps at most 10).
N_PENDING = tier(12, 14)


def _increasing(xs):
    for i in range(len(xs) - 1):
        if not (xs[i] < xs[i + 1]):
            return False
    return True


@harness(
    "C23",
    timeout=(170, 900),
    shards=[dict(n=n) for n in range(0, N_PENDING + 1)],
    functions=["dimse:DIMSEServiceProvider.receive_primitive", "dimse:DIMSEServiceProvider.get_msg",
               "association:Association._run_reactor", "association:Association._serve_request",
               "service_class:ServiceClass._c_find_scp", "service_class:ServiceClass.is_cancelled", "events:Event.is_cancelled"],
    bounds="n C-CANCELs (n = the shard, up to %d) with pairwise different ids (any values, given in increasing order) arrive "
           "while a C-FIND with any message id m is in progress, before its first check point; a second C-FIND with any id m2 "
           "follows" % N_PENDING,
    stubs=_STUBS,
    outside="repeated ids among the pending cancels; pre-emption inside a step",
    findings=["C23-cancel-over-limit-dropped"],
)
def cancel_limit(m: int, m2: int, ids: List[int]) -> bool:
    """
    pre: 0 <= m <= 65535 and 0 <= m2 <= 65535
    pre: len(ids) == shard("n", 0)
    pre: _rng(ids, 0, 65535) and _increasing(ids)
    pre: not kf.skip("C23-cancel-over-limit-dropped", m=m, m2=m2, ids=ids)
    post: _ == True
    """
    with untraced():
        assoc = _setup()
    seen = []
    calls = []

    def h_find(event):
        calls.append(1)
        if len(calls) == 1:
            for x in ids:
                assoc.dimse.receive_primitive((CX_ID["find"], _cancel(x)))
        seen.append(event.is_cancelled)
        yield 0xFF00, DS
        seen.append(event.is_cancelled)

    assoc.bind(evt.EVT_C_FIND, h_find)
    try:
        with _Patched():
            assoc.dimse.receive_primitive((CX_ID["find"], _request("find", m)))
            run_reactor_iterations(assoc, am, 1)
            # whatever the provider kept of the cancels must not surface as a request later
            run_reactor_iterations(assoc, am, 2)
            assoc.dimse.receive_primitive((CX_ID["find"], _request("find", m2)))
            run_reactor_iterations(assoc, am, 2)
    except Exception:
        return False  # the reactor loop died
    if len(calls) != 2 or assoc.aborts != []:
        return False
    if assoc.dimse.msg_queue.qsize() != 0:
        return False
    named = any([x == m for x in ids])
    # reported exactly once to the operation it names, nothing carried over to the next operation
    return seen == [named, False, False, False] and _finals_ok(assoc, m, m2)
