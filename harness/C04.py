"""C04 - the upper-layer state machine reacts to every (state, event) pair as PS3.8 Table 9-10 and the
action tables 9-6 ... 9-9 prescribe.

Real code: StateMachine.do_action / transition, TRANSITION_TABLE, ACTIONS, the 28 action functions, and
what they call: DULServiceProvider._send / kill_dul, AssociationSocket.send / close / connect /
_shutdown_socket, Timer.start / stop / restart, the PDU constructors and encoders, pdu.to_primitive.
Oracle: spec/ps38_fsm.py (independent transcription of the standard; never imports pynetdicom).
Observation points: the bytes given to the OS socket, what is put on to_user_queue / handed to DIMSE,
the ARTIM timer's calls and resulting status, close()/connect() on the OS socket, the next state.
"""
from vlib.shim import *  # noqa: F401,F403
from vlib.h import harness, shard

from spec import ps38_fsm as spec
from vlib.stubs import reactor as R

from pynetdicom.fsm import InvalidEventError
from pynetdicom.pdu import A_ABORT_RQ, A_ASSOCIATE_AC, A_ASSOCIATE_RJ, A_ASSOCIATE_RQ, A_RELEASE_RP, A_RELEASE_RQ, P_DATA_TF
from pynetdicom.timer import Timer
from pynetdicom.transport import T_CONNECT

# the kinds of pending abort request primitive (Evt15): (class, source, reason) -> expected (source, reason)
ABORT_KINDS = [("A-ABORT", 0, 0), ("A-ABORT", 2, 0)] + [("A-P-ABORT", 2, r) for r in spec.PROVIDER_ABORT_REASONS]
N_KINDS = len(ABORT_KINDS)  # 8

# the bytes each PDU type must consist of when it is generated from the user's primitive
_EXPECTED_BYTES = {
    spec.PDU_ASSOCIATE_RQ: R.RQ_BYTES, spec.PDU_ASSOCIATE_AC: R.AC_BYTES, spec.PDU_P_DATA_TF: R.PDATA_BYTES,
    spec.PDU_RELEASE_RQ: R.RELRQ_BYTES, spec.PDU_RELEASE_RP: R.RELRP_BYTES,
}


def _prepare(p, event, version_ok, kind):
    """Queue what the reactor queues together with `event` (untraced set-up, concrete values)."""
    d = p.dul
    if event == "Evt1":
        d.to_provider_queue.put(R.assoc_request_primitive())
    elif event == "Evt2":
        t = T_CONNECT(R.assoc_request_primitive())
        t.result = "Evt2"
        d.to_provider_queue.put(t)
    elif event == "Evt3":
        d._recv_pdu.put(R.decoded(A_ASSOCIATE_AC, R.AC_BYTES))
    elif event == "Evt4":
        d._recv_pdu.put(R.decoded(A_ASSOCIATE_RJ, R.RJ_BYTES))
    elif event == "Evt6":
        d._recv_pdu.put(R.decoded(A_ASSOCIATE_RQ, R.RQ_BYTES if version_ok else R.RQ_BAD_VERSION_BYTES))
    elif event == "Evt7":
        d.to_provider_queue.put(R.assoc_accept_primitive())
    elif event == "Evt8":
        d.to_provider_queue.put(R.assoc_reject_primitive(1, 1, 1))
    elif event == "Evt9":
        d.to_provider_queue.put(R.pdata_primitive())
    elif event == "Evt10":
        d._recv_pdu.put(R.decoded(P_DATA_TF, R.PDATA_BYTES))
    elif event == "Evt11":
        d.to_provider_queue.put(R.release_primitive(False))
    elif event == "Evt12":
        d._recv_pdu.put(R.decoded(A_RELEASE_RQ, R.RELRQ_BYTES))
    elif event == "Evt13":
        d._recv_pdu.put(R.decoded(A_RELEASE_RP, R.RELRP_BYTES))
    elif event == "Evt14":
        d.to_provider_queue.put(R.release_primitive(True))
    elif event == "Evt15":
        cls, src, reason = ABORT_KINDS[kind]
        d.to_provider_queue.put(R.abort_primitive(src) if cls == "A-ABORT" else R.p_abort_primitive(reason))
    elif event == "Evt16":
        d._recv_pdu.put(R.decoded(A_ABORT_RQ, R.ABORT_BYTES if kind < 4 else R.P_ABORT_BYTES))
    elif event == "Evt17":
        p.raw.peer_closed = True


def _effective(ops, was_running):
    """Timer operations in order; stopping a timer that is not running has no effect ("stop if running")."""
    out, running = [], was_running
    for op in ops:
        if op == "stop" and not running:
            continue
        out.append(op)
        running = op == "start"
    return out


def _check_cell(state, event, requestor, version_ok, kind):
    clock = R.TickClock()
    with untraced():
        p = R.Provider(state, requestor, clock, connected=(state != "Sta1"))
        _prepare(p, event, version_ok, kind)
        clock.now = 5
        was_running = p.dul.artim_timer.running
        n_provider, n_pdus = p.dul.to_provider_queue.qsize(), p.dul._recv_pdu.qsize()
    src, reason = ABORT_KINDS[kind][1], ABORT_KINDS[kind][2]
    exp = spec.expect(state, event, is_requestor=requestor, rq_acceptable=version_ok,
                      abort_request=(src, reason), abort_pdu_source=(0 if kind < 4 else 2))
    with R.patched_modules(clock):
        try:
            p.dul.state_machine.do_action(event)
            raised = False
        except InvalidEventError:
            raised = True
    log = p.log
    if exp is None:
        # blank cell <=> the pair is treated as not allowed, and nothing happens
        return (raised and log == [] and p.state == state and not p.dul._kill_thread
                and p.dul.to_provider_queue.qsize() == n_provider and p.dul._recv_pdu.qsize() == n_pdus
                and p.dul.to_user_queue.qsize() == 0 and p.dul.artim_timer.running == was_running)
    if raised:
        return False
    ok = p.state == exp.next_state
    # PDUs sent (bytes handed to the OS socket)
    tx = [e[1] for e in log if e[0] == "tx"]
    if exp.pdu is None:
        ok = ok and tx == []
    else:
        ok = ok and len(tx) == 1
        if ok:
            b = tx[0]
            ok = ok and b[0] == exp.pdu and not has_sentinel(b)
            if exp.pdu in _EXPECTED_BYTES:
                ok = ok and b == _EXPECTED_BYTES[exp.pdu]
            elif exp.pdu == spec.PDU_ABORT:
                ok = ok and len(b) == 10 and b[1:8] == b"\x00\x00\x00\x00\x04\x00\x00"
                ok = ok and b[8] in exp.abort[0] and b[9] in exp.abort[1]
            elif exp.pdu == spec.PDU_ASSOCIATE_RJ:
                ok = ok and len(b) == 10 and b[1:7] == b"\x00\x00\x00\x00\x04\x00"
                if exp.reject is not None:   # AE-6: the provider's own rejection
                    ok = ok and b[7] in exp.reject[0] and b[8] == exp.reject[1] and b[9] == exp.reject[2]
                else:                        # AE-8: the user's response primitive (1, 1, 1)
                    ok = ok and b[7:10] == b"\x01\x01\x01"
    # indications / confirmations issued to the user
    ind = [e[1] for e in log if e[0] == "ind"]
    ok = ok and ind == ([] if exp.indication is None else [exp.indication])
    # ARTIM
    ok = ok and _effective([e[1] for e in log if e[0] == "artim"], was_running) == _effective(exp.artim, was_running)
    running = was_running
    for op in exp.artim:
        running = op == "start"
    ok = ok and p.dul.artim_timer.running == running
    if "start" in exp.artim:
        ok = ok and p.dul.artim_timer._start_time == 5   # started *now*, not left over
    # transport
    connects = [e for e in log if e[0] == "raw.connect"]
    closes = [e for e in log if e[0] == "raw.close"]
    if exp.transport == "connect":
        ok = ok and connects == [("raw.connect", R.ACC_ADDR)] and closes == []
    elif exp.transport == "close":
        ok = ok and connects == [] and len(closes) == 1 and p.raw.closed_local
    else:
        ok = ok and connects == []
        if event != "Evt17":   # on a connection-closed indication the local handle may be released
            ok = ok and closes == [] and not p.raw.closed_local
    return ok


@harness(
    "C04",
    timeout=(240, 600),
    shards=[{"si": i} for i in range(13)],
    functions=["fsm:StateMachine.do_action", "fsm:StateMachine.transition", "fsm:AE_1..AE_8", "fsm:DT_1", "fsm:DT_2",
               "fsm:AR_1..AR_10", "fsm:AA_1..AA_8", "dul:DULServiceProvider._send", "dul:DULServiceProvider.kill_dul",
               "transport:AssociationSocket.send/close/connect/_shutdown_socket", "timer:Timer.start/stop/restart",
               "pdu:*.encode / to_primitive / from_primitive"],
    bounds="exhaustive: all 13 states x 19 events x requestor/acceptor x protocol-version check passing (0x0001) / failing "
           "(0x0002); for Evt15 each of 8 pending abort primitives (A-ABORT source 0 / 2, A-P-ABORT reasons 0,1,2,4,5,6); for "
           "Evt16 an A-ABORT PDU with source 0 / 2.  All inputs are solver-enumerated (finite domain).",
    stubs=[x for x in R.STUBS if x.split(":")[0] in ("FakeRaw", "FakeSelect", "TickClock", "RecDimse")]
    + ["pynetdicom's default logging handlers are unbound", "the provider is put directly into each state (ARTIM running in Sta2/Sta13 only) and the "
                         "queues are filled with the primitive / decoded PDU the reactor queues together with the event"],
    outside="protocol-version values other than 0x0001 / 0x0002 (pynetdicom demands exactly 0x0001; PS3.8 9.3.2 identifies "
            "version 1 by bit 0, so e.g. 0x0003 is contested and not judged here); content of A-ASSOCIATE PDUs beyond "
            "'equals the encoding of the user's primitive' (C01/C12)",
)
def fsm_cell(ei: int, requestor: bool, version_ok: bool, kind: int) -> bool:
    """
    pre: 0 <= ei < 19
    pre: 0 <= kind < N_KINDS
    pre: kind == 0 or ei == 14 or ei == 15
    post: _ == True
    """
    state = spec.STATES[shard("si", 5)]
    event = spec.EVENTS[ei]
    req = True if requestor else False
    vok = True if version_ok else False
    k = 0
    for j in range(N_KINDS):
        if kind == j:
            k = j
    return _check_cell(state, event, req, vok, k)
