"""C28 - every 16-bit status code has exactly one category, all status tables agree with it, and the
SCU / SCP decisions whether a response is final follow the category.

Real code: status.code_to_category, every *_STATUS table of pynetdicom.status (read live and
interval-compressed, which is an exact representation), Association._wrap_find_responses /
_wrap_get_move_responses (SCU side), ServiceClass._c_find_scp, QueryRetrieveServiceClass._get_scp /
_move_scp, RelevantPatientInformationQueryServiceClass.SCP (SCP side).
Oracle: spec/status_categories.py (PS3.7 Annex C Table C-1, PS3.4 C.6.4.4), no pynetdicom import.
"""
from io import BytesIO

from vlib.shim import *  # noqa: F401,F403
from vlib.h import harness, tier, shard
from vlib import kf

from pydicom.dataset import Dataset

import pynetdicom.association as assoc_mod
import pynetdicom.service_class as sc
import pynetdicom.status as st
from pynetdicom.association import Association
from pynetdicom.dimse_primitives import C_FIND, C_GET, C_MOVE
from pynetdicom.presentation import build_context
from pynetdicom.service_class import (
    QueryRetrieveServiceClass,
    RelevantPatientInformationQueryServiceClass,
)

from spec import status_categories as spec

silence_loggers()

# ------------------------------------------------------------------------------------------------
# live tables, interval compressed (exact): name -> IntervalDict(code -> category)
TABLE_NAMES = sorted(n for n in dir(st) if n.endswith("_STATUS") and isinstance(getattr(st, n), dict))
TABLES = {n: IntervalDict({k: v[0] for k, v in getattr(st, n).items()}) for n in TABLE_NAMES}
N_INTERVALS = sum(len(t.intervals()) for t in TABLES.values())
N_ENTRIES = sum(len(getattr(st, n)) for n in TABLE_NAMES)

BIG = 2**40


# ------------------------------------------------------------------------------------------------
@harness(
    "C28",
    timeout=(120, 600),
    functions=["status:code_to_category"],
    bounds="code any int in [0, 65535] (solver-symbolic)",
    stubs=["oracle spec/status_categories.py: PS3.7 Table C-1 classes; unlisted 01xx/02xx codes may be Failure or Unknown "
           "(edition dependent)"],
    outside="codes that are not int (bool is an int in Python and is covered by its numeric value)",
)
def category_total(code: int) -> bool:
    """
    pre: 0 <= code <= 65535
    post: _ == True
    """
    got = st.code_to_category(code)
    if has_sentinel(got):
        return False
    # exactly one of the six categories (the function returns once; it must be one of the six names)
    n = 0
    for c in spec.CATEGORIES:
        if got == c:
            n += 1
    if n != 1:
        return False
    ok = False
    for c in spec.allowed(code):
        if got == c:
            ok = True
    return ok


@harness(
    "C28",
    timeout=(60, 300),
    functions=["status:code_to_category"],
    bounds="code any int in [-2**40, -1] or [65536, 2**40]",
    stubs=[],
    outside="non-int arguments",
)
def category_out_of_range(code: int) -> bool:
    """
    pre: -BIG <= code <= BIG
    pre: code < 0 or code > 65535
    post: _ == True
    """
    # not a 16-bit status: negative values are rejected, larger ones are in no class
    try:
        got = st.code_to_category(code)
    except ValueError:
        return code < 0
    return code > 65535 and got == spec.UNKNOWN


@harness(
    "C28",
    timeout=(170, 900),
    functions=["status:code_to_category", "status:*_STATUS tables (live, interval-compressed)"],
    bounds="code any int in [0, 65535] (solver-symbolic) against every entry of the %d live tables "
           "(%d entries = %d maximal intervals of equal category)" % (len(TABLE_NAMES), N_ENTRIES, N_INTERVALS),
    stubs=["each live table is represented exactly by maximal intervals of consecutive codes with equal category "
           "(IntervalDict, built at import from the live dict)"],
    outside="the description strings of the table entries",
    shards=[{"half": 0}, {"half": 1}],
)
def tables_agree(code: int) -> bool:
    """
    pre: 0 <= code <= 65535
    post: _ == True
    """
    half = shard("half", 0)
    names = TABLE_NAMES[:len(TABLE_NAMES) // 2] if half == 0 else TABLE_NAMES[len(TABLE_NAMES) // 2:]
    got = st.code_to_category(code)
    ok = True
    for name in names:
        table = TABLES[name]
        if code not in table:
            continue
        cat = table[code]
        if got != cat:
            ok = False
        # a code listed by a service class is never "Unknown", and its class is one PS3.7 allows
        if cat == spec.UNKNOWN:
            ok = False
        allowed = False
        for c in spec.allowed(code):
            if cat == c:
                allowed = True
        if not allowed:
            ok = False
    return ok


# ------------------------------------------------------------------------------------------------
# SCU side: the real response generators on a duck-typed `self`
class _Flag:
    def __init__(self):
        self.n = 0

    def set(self):
        self.n += 1

    def clear(self):
        pass

    def wait(self, *a):
        return True


class _NoLock:
    def __enter__(self):
        return self

    def __exit__(self, *a):
        return False


class _ScuDimse:
    def __init__(self, msgs):
        self.msgs = list(msgs)

    def get_msg(self, block=False):
        if self.msgs:
            return 1, self.msgs.pop(0)
        return None, None


class _ScuSelf(Association):
    """What _wrap_*_responses use of an Association: dimse.get_msg, lock, _reactor_checkpoint, abort.  A subclass of
    the real class (whose __init__ - AE, threads - is not run), so that private helpers the wrappers may call on `self`
    resolve to the real ones."""

    def __init__(self, msgs):    # noqa - deliberately not calling Association.__init__
        self.dimse = _ScuDimse(msgs)
        self._lock_obj = _NoLock()
        self._reactor_checkpoint = _Flag()
        self.aborted = 0

    lock = property(lambda self: self._lock_obj)

    def abort(self, *a, **k):
        self.aborted += 1

    def _handle_no_response(self):
        self.aborted += 1

    def _c_store_scp(self, req):
        raise AssertionError("no C-STORE in this harness")


TS = None
MODELS = {}
with untraced():
    from pydicom.uid import ImplicitVRLittleEndian as TS  # noqa
    from pynetdicom.sop_class import (  # noqa
        PatientRootQueryRetrieveInformationModelFind as _PRF,
        RepositoryQuery as _REPO,
    )

    MODELS = {0: _PRF, 1: _REPO}


def _rsp(cls, status, identifier):
    r = cls()
    r.MessageIDBeingRespondedTo = 7
    r.AffectedSOPClassUID = "1.2.840.10008.5.1.4.1.2.1.1"
    r.Status = status
    if identifier:
        r.Identifier = BytesIO(b"\x08\x00\x52\x00\x08\x00\x00\x00PATIENT ")
    return r


def _fake_decode(*a, **k):
    ds = Dataset()
    ds.QueryRetrieveLevel = "PATIENT"
    return ds


def _scu_drive(gen, stub, code, expect_more):
    first = next(gen)
    if first[0].Status != code:
        return False
    END = object()
    second = next(gen, END)
    if expect_more:
        # the generator kept going: it consumed the next response and yielded it
        if second is END:
            return False
        return second[0].Status == 0x0000 and len(stub.dimse.msgs) == 0 and stub.aborted == 0
    # final: iteration stops, the next message is left alone, the reactor is released
    return second is END and len(stub.dimse.msgs) == 1 and stub._reactor_checkpoint.n >= 1 and stub.aborted == 0


@harness(
    "C28",
    timeout=(120, 600),
    functions=["association:Association._wrap_find_responses", "status:code_to_category"],
    bounds="first C-FIND response carries any status in [0, 65535] (solver-symbolic), with or without an Identifier; "
           "query model Patient Root or Repository Query; a Success response is queued behind it",
    stubs=["Association subclass whose __init__ is not run, offering dimse.get_msg / lock / _reactor_checkpoint / abort",
           "association.decode replaced by a function returning a fixed Dataset (identifier decoding is C24's subject)"],
    outside="invalid responses, DIMSE timeouts, undecodable identifiers (C24)",
    shards=[{"repo": 0}, {"repo": 1}],
    findings=[],
)
def scu_find_final(code: int, with_identifier: bool) -> bool:
    """
    pre: 0 <= code <= 65535
    post: _ == True
    """
    repo = shard("repo", 0)
    with untraced():
        model = MODELS[repo]
    stub = _ScuSelf([_rsp(C_FIND, code, with_identifier), _rsp(C_FIND, 0x0000, False)])
    saved = assoc_mod.decode
    assoc_mod.decode = _fake_decode
    try:
        gen = Association._wrap_find_responses(stub, TS, model)
        cat = st.code_to_category(code)
        return _scu_drive(gen, stub, code, spec.more_to_come(cat, code, repository_query=(repo == 1)))
    finally:
        assoc_mod.decode = saved


@harness(
    "C28",
    timeout=(120, 600),
    functions=["association:Association._wrap_get_move_responses", "status:code_to_category"],
    bounds="first C-GET / C-MOVE response carries any status in [0, 65535] (solver-symbolic), with or without an "
           "Identifier; a Success response is queued behind it",
    stubs=["Association subclass whose __init__ is not run, offering dimse.get_msg / lock / _reactor_checkpoint / abort",
           "association.decode replaced by a function returning a fixed Dataset"],
    outside="interleaved C-STORE sub-operations (C19-C23), invalid responses, DIMSE timeouts",
    shards=[{"op": "get"}, {"op": "move"}],
)
def scu_get_move_final(code: int, with_identifier: bool) -> bool:
    """
    pre: 0 <= code <= 65535
    post: _ == True
    """
    cls = C_GET if shard("op", "get") == "get" else C_MOVE
    stub = _ScuSelf([_rsp(cls, code, with_identifier), _rsp(cls, 0x0000, False)])
    saved = assoc_mod.decode
    assoc_mod.decode = _fake_decode
    try:
        gen = Association._wrap_get_move_responses(stub, TS)
        cat = st.code_to_category(code)
        return _scu_drive(gen, stub, code, spec.more_to_come(cat, code))
    finally:
        assoc_mod.decode = saved


# ------------------------------------------------------------------------------------------------
# SCP side: the real kernels with a recording DIMSE provider and a handler that yields
#   (code, dataset) and then one more Pending match
with untraced():
    CX_FIND = {0: build_context("1.2.840.10008.5.1.4.1.2.1.1", "1.2.840.10008.1.2"),
               1: build_context(str(_REPO), "1.2.840.10008.1.2")}  # 1 = Repository Query
    CX_GET = build_context("1.2.840.10008.5.1.4.1.2.1.3", "1.2.840.10008.1.2")
    CX_MOVE = build_context("1.2.840.10008.5.1.4.1.2.1.2", "1.2.840.10008.1.2")
    CX_RP = build_context("1.2.840.10008.5.1.4.37.1", "1.2.840.10008.1.2")
    for _c in list(CX_FIND.values()) + [CX_GET, CX_MOVE, CX_RP]:
        _c.context_id = 1
    DS = Dataset()
    DS.SOPInstanceUID = "1.2.3"
    DS.SOPClassUID = "1.2.840.10008.5.1.4.1.1.2"
    DS.QueryRetrieveLevel = "PATIENT"

FIND_STATUS = IntervalDict(st.QR_FIND_SERVICE_CLASS_STATUS)
GET_STATUS = IntervalDict(st.QR_GET_SERVICE_CLASS_STATUS)
MOVE_STATUS = IntervalDict(st.QR_MOVE_SERVICE_CLASS_STATUS)
RP_STATUS = IntervalDict(st.RELEVANT_PATIENT_SERVICE_CLASS_STATUS)
STORE_STATUS = IntervalDict(st.STORAGE_SERVICE_CLASS_STATUS)


def _fake_encode(ds, *a, **k):
    return b"\x00" * 8 if isinstance(ds, Dataset) else None


class _StoreRsp:
    Status = 0x0000


class _ScpAcse:
    def is_aborted(self, *a):
        return False

    def is_release_requested(self, consume=True):
        return False


class _ScpDimse:
    def __init__(self):
        self.sent = []
        self.cancel_req = {}

    def send_msg(self, rsp, cx_id):
        self.sent.append(rsp.Status)


class _StoreAssoc:
    is_established = True

    def send_c_store(self, ds, msg_id=1, **k):
        return _StoreRsp()

    def release(self):
        pass


class _Ae:
    ae_title = "SCP"

    def associate(self, *a, **k):
        return _StoreAssoc()


class _ScpAssoc:
    is_established = True

    def __init__(self, handler):
        self.acse = _ScpAcse()
        self.dimse = _ScpDimse()
        self.h = handler
        self.ae = _Ae()

    def get_handlers(self, event):
        return (self.h, None)

    def _abort_nonblocking(self, *a):
        pass

    def _abort_blocking(self, *a):
        pass

    abort = _abort_blocking

    def send_c_store(self, ds, msg_id=1, **k):
        return _StoreRsp()


def _req(cls, cx):
    r = cls()
    r.MessageID = 9
    r.AffectedSOPClassUID = cx.abstract_syntax
    r.Identifier = BytesIO(b"\x00")
    if cls is C_MOVE:
        r.MoveDestination = "DEST"
    return r


def _sent_ok(sent, code, listed, cat, repo=False):
    """`sent`: statuses of the responses handed to dimse.send_msg, in order.  The response carrying `code`
    must be followed by a further response iff the category says more is to come (spec.more_to_come).
    A code the service class's own table does not list is an invalid handler status: the kernels send it and
    stop; nothing is asserted about it here beyond "it is the first response sent"."""
    if len(sent) == 0 or sent[0] != code:
        return False
    if not listed:
        return True
    if not spec.more_to_come(cat, code, repository_query=repo):
        return len(sent) == 1
    if len(sent) < 2:
        return False
    # ... and the stream then ends with a final (non-Pending) response
    last = sent[len(sent) - 1]
    return st.code_to_category(last) != spec.PENDING


@harness(
    "C28",
    timeout=(150, 600),
    functions=["service_class:ServiceClass._c_find_scp", "service_class:ServiceClass.validate_status",
               "service_class:ServiceClass._wrap_handler"],
    bounds="the C-FIND handler yields (code, dataset) with code any int in [0, 65535] (solver-symbolic) and then one "
           "Pending match; Patient Root and Repository Query models; statuses = live QR_FIND table (interval-compressed)",
    stubs=["Association / DIMSE provider replaced by recording stubs (no protocol logic)",
           "service_class.encode replaced by a function returning 8 fixed bytes"],
    outside="handler exceptions, aborts during the handler, C-CANCEL (C20-C24)",
    shards=[{"repo": 0}, {"repo": 1}],
    findings=["C28-find-scp-warning-not-final"],
)
def scp_find_final(code: int) -> bool:
    """
    pre: 0 <= code <= 65535
    pre: not kf.skip("C28-find-scp-warning-not-final", code=code)
    post: _ == True
    """
    repo = shard("repo", 0)

    def handler(event):
        yield code, DS
        yield 0xFF00, DS

    assoc = _ScpAssoc(handler)
    svc = QueryRetrieveServiceClass(assoc)
    svc.statuses = FIND_STATUS
    saved = sc.encode
    sc.encode = _fake_encode
    try:
        with untraced():
            req = _req(C_FIND, CX_FIND[repo])
        svc._c_find_scp(req, CX_FIND[repo])
    finally:
        sc.encode = saved
    known = code in FIND_STATUS
    cat = st.code_to_category(code)
    return _sent_ok(assoc.dimse.sent, code, known, cat, repo=(repo == 1))


@harness(
    "C28",
    timeout=(150, 600),
    functions=["service_class:QueryRetrieveServiceClass._get_scp", "service_class:QueryRetrieveServiceClass._move_scp",
               "service_class:ServiceClass.validate_status", "service_class:ServiceClass._wrap_handler"],
    bounds="the C-GET / C-MOVE handler announces 2 sub-operations, yields (code, dataset) with code any int in "
           "[0, 65535] (solver-symbolic) and then one Pending match; statuses = live QR_GET / QR_MOVE table",
    stubs=["Association / DIMSE provider / store association replaced by recording stubs; every C-STORE sub-operation "
           "answers Success", "service_class.encode replaced by a function returning 8 fixed bytes"],
    outside="sub-operation bookkeeping (C20-C23), handler exceptions, C-CANCEL",
    shards=[{"op": "get"}, {"op": "move"}],
)
def scp_get_move_final(code: int) -> bool:
    """
    pre: 0 <= code <= 65535
    post: _ == True
    """
    op = shard("op", "get")

    def handler(event):
        if op == "move":
            yield "127.0.0.1", 11112
        yield 2
        yield code, DS
        yield 0xFF00, DS

    assoc = _ScpAssoc(handler)
    svc = QueryRetrieveServiceClass(assoc)
    saved = sc.encode, sc.STORAGE_SERVICE_CLASS_STATUS
    sc.encode = _fake_encode
    sc.STORAGE_SERVICE_CLASS_STATUS = STORE_STATUS
    try:
        if op == "get":
            svc.statuses = GET_STATUS
            with untraced():
                req = _req(C_GET, CX_GET)
            svc._get_scp(req, CX_GET)
            known = code in GET_STATUS
        else:
            svc.statuses = MOVE_STATUS
            with untraced():
                req = _req(C_MOVE, CX_MOVE)
            svc._move_scp(req, CX_MOVE)
            known = code in MOVE_STATUS
    finally:
        sc.encode, sc.STORAGE_SERVICE_CLASS_STATUS = saved
    cat = st.code_to_category(code)
    return _sent_ok(assoc.dimse.sent, code, known, cat)


from vlib.stubs import scp_f as _S  # noqa: E402  (SCP kernel environment shared with C20-C22)


@harness(
    "C28",
    timeout=(200, 900),
    functions=["service_class:QueryRetrieveServiceClass._get_scp", "service_class:QueryRetrieveServiceClass._move_scp"],
    bounds="a C-GET / C-MOVE (N any int 1..65535) with one sub-operation whose C-STORE response carries status `code`, any "
           "int in [0, 65535] (solver-symbolic): the shared status tables are not written to (they are module-level state: "
           "using them must not change what they say - that they agree with code_to_category as they are is tables_agree)",
    stubs=["SCP kernel environment of vlib/stubs/scp_f.py (recording association / DIMSE / store association, "
           "service_class.encode stub); every status table is an exact interval copy that counts writes"],
    outside="other kernels",
    shards=[{"kernel": k} for k in ("get_qr", "move_qr")],
)
def tables_stable_under_use(n: int, code: int) -> bool:
    """
    pre: 1 <= n <= 65535
    pre: 0 <= code <= 65535
    post: _ == True
    """
    script = _S.Script([_S.SK_INT], [0xFF00], [_S.DK_VALID])
    with _S.scp_env() as log:
        _S.TABLE_WRITES[0] = 0
        r = _S.run_kernel(shard("kernel", "get_qr"), 11, 9, script, log, n_sub=n, outcomes=[_S.SUB_SYMBOLIC], codes=[code])
        return r.escaped is None and _S.TABLE_WRITES[0] == 0


@harness(
    "C28",
    timeout=(120, 600),
    functions=["service_class:RelevantPatientInformationQueryServiceClass.SCP", "service_class:ServiceClass.validate_status"],
    bounds="the C-FIND handler yields (code, dataset) with code any int in [0, 65535] (solver-symbolic); statuses = live "
           "RELEVANT_PATIENT table (interval-compressed)",
    stubs=["Association / DIMSE provider replaced by recording stubs", "service_class.encode replaced by a fixed-bytes function"],
    outside="whether a response is sent at all for a status (only: IF the response carrying `code` is sent, is it followed "
            "by another one exactly when the category is Pending)",
)
def scp_relevant_patient_final(code: int) -> bool:
    """
    pre: 0 <= code <= 65535
    post: _ == True
    """

    def handler(event):
        yield code, DS

    assoc = _ScpAssoc(handler)
    svc = RelevantPatientInformationQueryServiceClass(assoc)
    svc.statuses = RP_STATUS
    saved = sc.encode
    sc.encode = _fake_encode
    try:
        with untraced():
            req = _req(C_FIND, CX_RP)
        svc.SCP(req, CX_RP)
    finally:
        sc.encode = saved
    sent = assoc.dimse.sent
    if len(sent) == 0:
        return True  # outside this claim, see `outside`
    cat = st.code_to_category(code)
    return _sent_ok(sent, code, code in RP_STATUS, cat)
