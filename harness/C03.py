"""C03 - PDU framing is independent of how TCP splits the byte stream.

Real code: AssociationSocket.recv / .ready, DULServiceProvider._is_transport_event / _read_pdu_data / _decode_pdu
(and the PDU decoders they call).
Environment: FakeRawSocket / FakeSelect (vlib/stubs/fakesocket.py).  The peer sends a sequence of PDUs; TCP delivers
the concatenated stream in chunks whose sizes are the symbolic list `cuts` (every recv() returns between 1 byte and
what was asked for; after the listed cuts everything available is delivered); the peer optionally closes the
connection after `close_at` bytes.  Gaps between segments shorter than the socket timeout are invisible to recv()
and need no representation (DESIGN.md, C03); longer gaps are C08.

The provider's receive step (`_is_transport_event`, exactly as the reactor calls it) is repeated until the stream is
drained.  Assertions:
  * no close: the queued events are exactly the events of the PDUs sent, in order, and the queued PDUs re-encode to
    exactly the bytes sent (so: same sequence, nothing lost, nothing duplicated, nothing merged), whatever the cuts;
  * close at offset k: the PDUs that ended at or before k are delivered as above, then exactly one Evt17 and no
    further PDU (never a truncated PDU, never Evt19) - both when k is a PDU boundary and when it is inside a PDU.
"""
from typing import List

from vlib.shim import *  # noqa: F401,F403
from vlib.h import harness, tier, shard
from vlib.stubs.fakesocket import FakeSSLModule, FakeTLSSocket, FakeRawSocket, FakeSelect, make_provider, drain

from spec import ps38_layout as L

from pynetdicom import pdu as P
from pynetdicom import transport as transport_mod

silence_loggers()
import warnings  # noqa: E402

warnings.simplefilter("ignore")

PDU_CLASS = {"RQ": P.A_ASSOCIATE_RQ, "AC": P.A_ASSOCIATE_AC, "RJ": P.A_ASSOCIATE_RJ, "PDATA": P.P_DATA_TF,
             "RELRQ": P.A_RELEASE_RQ, "RELRP": P.A_RELEASE_RP, "ABORT": P.A_ABORT_RQ}


def concrete(x):
    if is_tracing():
        from crosshair.core import realize
        return realize(x)
    return x


def pump(data, cuts, closed, size, max_steps, tls=False):
    """Drive the real receive step until nothing is readable (or the connection was reported closed).
    Returns (events, pdus) or None if an exception escaped.  tls: the socket is an SSLSocket whose records are `cuts`."""
    if tls:
        raw = FakeTLSSocket(data, cuts, closed=closed, timeout=30, size=size)
    else:
        raw = FakeRawSocket(data, cuts, closed=closed, timeout=30, size=size)
    with untraced():
        d = make_provider(raw)
    saved = transport_mod.select
    saved_ssl = transport_mod.ssl, transport_mod._HAS_SSL
    transport_mod.select = FakeSelect
    if tls:
        transport_mod.ssl, transport_mod._HAS_SSL = FakeSSLModule, True
    events, pdus = [], []
    try:
        for _ in range(max_steps):
            if not d._is_transport_event():
                break
            ev = drain(d.event_queue)
            events.extend(ev)
            pdus.extend(drain(d._recv_pdu))
            if "Evt17" in ev:
                break                      # the state machine closes the transport on Evt17
    except Exception:
        return None
    finally:
        transport_mod.select = saved
        transport_mod.ssl, transport_mod._HAS_SSL = saved_ssl
    return events, pdus


# ---------------------------------------------------------------------------------------------
# 1. enumerated cuts, small streams, full content comparison
# ---------------------------------------------------------------------------------------------
def small_pdu(kind, a, b, payload):
    """(reference value, bytes) of a small PDU; a, b symbolic field values, payload symbolic bytes (fixed length)."""
    if kind == "RJ":
        v = ("RJ", 1 + (a % 2), 1, 1 + (b % 2))
    elif kind == "ABORT":
        v = ("ABORT", a, b)
    elif kind == "PDATA":
        v = ("PDATA", [(a, payload)])
    else:
        v = (kind,)
    return v, L.encode_pdu(v)


SMALL = ["ABORT", "PDATA", "RELRQ", "RELRP", "RJ"]
PAYLOAD = 2


CORE_PAIRS = [["PDATA", "ABORT"], ["ABORT", "PDATA"], ["RELRQ", "PDATA"], ["PDATA", "PDATA"], ["RJ", "RELRP"]]


def _seq_shards():
    """The cut list and the close offset are enumerated; their full cross product is split in two modes:
    "cuts": no close, up to `nc` cuts;  "close": close at every offset 0..stream length, up to `nc` cuts.
    quick:    every single PDU and five pairs, nc = 2 (cuts) / 1 (close)
    thorough: singles and the five pairs with nc = 3 / 2; all 25 ordered pairs and two triples with nc = 2 / 1"""
    out = []
    core = [[k] for k in SMALL] + CORE_PAIRS
    if tier(False, True):
        for q in core:
            out += [{"seq": q, "mode": "cuts", "nc": 3}, {"seq": q, "mode": "close", "nc": 2}]
        rest = [[k1, k2] for k1 in SMALL for k2 in SMALL if [k1, k2] not in CORE_PAIRS]
        rest += [["PDATA", "PDATA", "RELRQ"], ["RELRP", "ABORT", "PDATA"]]
        for q in rest:
            out += [{"seq": q, "mode": "cuts", "nc": 2}, {"seq": q, "mode": "close", "nc": 1}]
    else:
        for q in core:
            out += [{"seq": q, "mode": "cuts", "nc": 2}, {"seq": q, "mode": "close", "nc": 1}]
    # the same streams over TLS: the cuts are TLS record sizes (several PDUs may share one record, a PDU may span records)
    for q in (CORE_PAIRS if tier(True, False) else core):
        out += [{"seq": q, "mode": "cuts", "nc": 2, "tls": 1}]
    if tier(False, True):
        for q in CORE_PAIRS:
            out += [{"seq": q, "mode": "close", "nc": 1, "tls": 1}]
    return out


N_CUTS = shard("nc", 2)
_TLS = bool(shard("tls", 0))
_MODE = shard("mode", "cuts")


_SEQ = shard("seq", ["ABORT"])
_LENS = [len(small_pdu(k, 1, 1, b"\x01" * PAYLOAD)[1]) for k in _SEQ]
TOTAL = sum(_LENS)


@harness(
    "C03", timeout=(500, 1500),
    shards=_seq_shards,
    functions=["transport:AssociationSocket.recv", "transport:AssociationSocket.ready", "dul:DULServiceProvider._is_transport_event",
               "dul:DULServiceProvider._read_pdu_data", "dul:DULServiceProvider._decode_pdu"],
    bounds="a stream of 1..%d small PDUs (A-ABORT, P-DATA-TF with one %d-byte PDV, A-RELEASE-RQ/-RP, A-ASSOCIATE-RJ; field values and "
           "payload bytes symbolic); cuts of any size 1..stream length (solver-enumerated), then greedy delivery: %s"
           % (tier(2, 3), PAYLOAD, tier("up to 2 cuts without close; up to 1 cut with a close after any number of bytes 0..stream length",
                                        "single PDUs and five pairs: up to 3 cuts without close, up to 2 cuts with a close at any offset; "
                                        "all 25 ordered pairs and two triples: up to 2 cuts / 1 cut with close")),
    stubs=["FakeRawSocket / FakeSelect (vlib/stubs/fakesocket.py); provider built by make_provider; socket timeout configured"],
    outside="inter-chunk delays (invisible below the socket timeout; above it: C08); more cuts; large PDUs (see cuts_symbolic)",
)
def cuts_enumerated(cuts: List[int], close_at: int, a: int, b: int, payload: bytes) -> bool:
    """
    pre: len(cuts) <= N_CUTS and all(1 <= c <= TOTAL for c in cuts)
    pre: -1 <= close_at <= TOTAL
    pre: (_MODE == "cuts" and close_at == -1) or (_MODE == "close" and close_at >= 0)
    pre: 0 <= a <= 255 and 0 <= b <= 255
    pre: len(payload) == PAYLOAD
    post: _ == True
    """
    n = concrete(len(cuts))
    cuts = [concrete(cuts[i]) for i in range(n)]
    close_at = concrete(close_at)
    payload = bytes([payload[i] for i in range(PAYLOAD)])
    sent = [small_pdu(k, a, b, payload) for k in _SEQ]
    stream = b""
    for _, raw in sent:
        stream = stream + raw
    closed = close_at >= 0
    if closed:
        stream = stream[:close_at]
    res = pump(stream, cuts, closed, (close_at if closed else TOTAL), len(_SEQ) + 2, tls=_TLS)
    if res is None:
        return False
    events, pdus = res
    # PDUs completely delivered before the close
    whole, end = 0, 0
    for ln in _LENS:
        if closed and end + ln > close_at:
            break
        end += ln
        whole += 1
    want = [L.EVENT_OF[v[0]] for v, _ in sent[:whole]] + (["Evt17"] if closed else [])
    if events != want or len(pdus) != whole:
        return False
    for (v, raw), got in zip(sent, pdus):
        if type(got) is not PDU_CLASS[v[0]]:
            return False
        enc = got.encode()
        if len(enc) != len(raw) or enc != raw:
            return False
    return True


# ---------------------------------------------------------------------------------------------
# 2. realistic sizes: a full A-ASSOCIATE-RQ, a P-DATA-TF larger than recv()'s 4096-byte buffer, an A-ABORT
# ---------------------------------------------------------------------------------------------
BIG = bytes((7 * i + 3) % 256 for i in range(4200))
LARGE = [
    ("RQ", 1, "ANY-SCP", "ECHOSCU",
     [("app", "1.2.840.10008.3.1.1.1"),
      ("pcrq", 1, [("abs", "1.2.840.10008.1.1"), ("ts", "1.2.840.10008.1.2")]),
      ("ui", [("maxlen", 16382), ("impl_uid", "1.2.3"), ("impl_ver", "V1")])]),
    ("PDATA", [(1, b"\x02" + BIG)]),
    ("ABORT", 0, 0),
]
LARGE_RAW = [L.encode_pdu(v) for v in LARGE]
LARGE_STREAM = b"".join(LARGE_RAW)
LTOTAL = len(LARGE_STREAM)
_B0, _B1 = len(LARGE_RAW[0]), len(LARGE_RAW[0]) + len(LARGE_RAW[1])
# chunk sizes around every boundary that matters: 1, the 6-byte header, recv()'s 4096-byte buffer, the PDU ends
CUTSET = sorted({1, 5, 6, 7, 4095, 4096, 4097, _B0 - 1, _B0, _B0 + 1, _B0 + 6, len(LARGE_RAW[1]) - 1, len(LARGE_RAW[1]), LTOTAL})
CLOSESET = sorted({0, 1, 5, 6, 7, _B0 - 1, _B0, _B0 + 1, _B0 + 6, _B0 + 4096, _B0 + 4102, _B1 - 1, _B1, _B1 + 1, _B1 + 6, LTOTAL - 1, LTOTAL})
N_LCUTS = tier(2, 3)


@harness(
    "C03", timeout=(500, 1500),
    shards=[{"mode": "cuts"}, {"mode": "close"}],
    functions=["transport:AssociationSocket.recv", "transport:AssociationSocket.ready", "dul:DULServiceProvider._is_transport_event",
               "dul:DULServiceProvider._read_pdu_data", "dul:DULServiceProvider._decode_pdu"],
    bounds="the stream A-ASSOCIATE-RQ (%d bytes), P-DATA-TF (%d bytes: larger than recv()'s 4096-byte buffer), A-ABORT; up to %d "
           "chunk sizes from %s (then greedy); mode close: close after k bytes, k from %s, with at most one cut"
           % (len(LARGE_RAW[0]), len(LARGE_RAW[1]), N_LCUTS, CUTSET, CLOSESET),
    stubs=["FakeRawSocket / FakeSelect; make_provider; socket timeout configured"],
    outside="chunk sizes / close offsets other than the listed boundary values for this large stream (every size is covered on the "
            "small streams of cuts_enumerated)",
)
def cuts_large(ci: List[int], ki: int) -> bool:
    """
    pre: len(ci) <= N_LCUTS and all(0 <= c < len(CUTSET) for c in ci)
    pre: -1 <= ki < len(CLOSESET)
    pre: (_MODE == "cuts" and ki == -1) or (_MODE == "close" and ki >= 0 and len(ci) <= 1)
    post: _ == True
    """
    n = concrete(len(ci))
    cuts = [CUTSET[concrete(ci[i])] for i in range(n)]
    ki = concrete(ki)
    closed = ki >= 0
    close_at = CLOSESET[ki] if closed else LTOTAL
    res = pump(LARGE_STREAM[:close_at], cuts, closed, close_at, len(LARGE) + 2)
    if res is None:
        return False
    events, pdus = res
    whole = sum(1 for e in (_B0, _B1, LTOTAL) if e <= close_at)
    want = [L.EVENT_OF[v[0]] for v in LARGE[:whole]] + (["Evt17"] if closed else [])
    if events != want or len(pdus) != whole:
        return False
    for v, raw, got in zip(LARGE, LARGE_RAW, pdus):
        if type(got) is not PDU_CLASS[v[0]] or got.encode() != raw:
            return False
    return True
