"""C14 - concurrent acceptor associations never exceed the configured maximum  (claimed as an INDUCTIVE STEP).

The schedule quantifier of the property is removed by induction instead of being explored (DESIGN.md C14):

  Invariant I:  the number of live acceptor Association threads of the AE that have PASSED the limit check (this
                includes every established one) is <= ae.maximum_associations.
  Step:         from an ARBITRARY pre-state that satisfies I - x other live acceptor threads of this AE of which any
                subset has passed the check, r live requestor threads of this AE, o live Association threads of another
                AE, one unrelated thread, limit L - run the REAL ACSE._negotiate_as_acceptor of one more live acceptor
                thread atomically at its check.  Afterwards I holds again, and if this thread saw more live acceptor
                threads than the limit (x + 1 > L) its answer is A-ASSOCIATE reject (2, 3, 2) = rejected-transient /
                provider (presentation related) / local-limit-exceeded, and it is not established.
  Closure:      between steps threads only LEAVE the live set (a thread is in threading.enumerate() from start() until
                run() returns), passing the check happens only in the step, so I can only be broken by the step.

Assumptions (part of the claim): thread liveness as above; the check runs on the thread it counts (Association.run ->
run_reactor -> negotiate_association), so "this" thread is in the enumeration; the step is atomic with respect to other
threads *starting* (a thread that starts later counts this one as live).  Pre-emption between the check and
`is_established = True` is covered by counting "passed the check" instead of "established".
Outside: the real thread scheduler, AssociationServer/socket handling.
"""
from typing import List

from vlib.shim import *  # noqa: F401,F403
from vlib.h import harness, tier, shard

import pynetdicom.ae as ae_mod
from pynetdicom import AE
from pynetdicom._globals import MODE_ACCEPTOR, MODE_REQUESTOR
from pynetdicom.association import Association
from pynetdicom.pdu_primitives import (
    A_ASSOCIATE, ImplementationClassUIDNotification, MaximumLengthNotification)
from pynetdicom.presentation import build_context

from vlib.stubs.loopback import attach_fake_dul

silence_loggers()

import threading as _real_threading  # noqa: E402

N = tier(3, 6)          # bound on each population (other acceptors / requestors / other AE's threads)


class ThreadingStub:
    """`threading` as seen by pynetdicom.ae: enumerate() returns the pre-arranged live set, the rest is real."""

    def __init__(self, live):
        self._live = live
        self.calls = 0

    def enumerate(self):
        self.calls += 1
        return list(self._live)

    def __getattr__(self, name):
        return getattr(_real_threading, name)


def _standin(ae, mode, passed):
    """A live Association thread of `ae` as far as the limit check can see it (ae, mode, is_established)."""
    a = Association.__new__(Association)
    a._ae = ae
    a._mode = mode
    a.is_established = passed
    return a


def _request():
    p = A_ASSOCIATE()
    p.application_context_name = "1.2.840.10008.3.1.1.1"
    p.calling_ae_title = "RQ"
    p.called_ae_title = "AC"
    cx = build_context("1.2.840.10008.1.1", ["1.2.840.10008.1.2"])
    cx.context_id = 1
    p.presentation_context_definition_list = [cx]
    ml = MaximumLengthNotification()
    ml.maximum_length_received = 16382
    ic = ImplementationClassUIDNotification()
    ic.implementation_class_uid = "1.2.3.4"
    p.user_information = [ml, ic]
    return p


def _count(bools):
    n = 0
    for b in bools:
        n = n + b          # stays a linear term of the symbolic flags (no fork per flag)
    return n


def _shards():
    return [{"x": x} for x in range(0, N + 1)]


@harness(
    "C14", timeout=(120, 900),
    functions=["acse:ACSE._negotiate_as_acceptor", "ae:ApplicationEntity.active_associations",
               "ae:ApplicationEntity.maximum_associations", "acse:ACSE.send_reject", "acse:ACSE.send_accept"],
    bounds="inductive step: x = 0..%d other live acceptor threads of the AE (one shard per x; which of them have passed "
           "the check: solver-symbolic subset satisfying the invariant), r = 0..%d live requestor threads of the AE, "
           "o = 0..%d live Association threads of another AE (alternating modes), one non-Association thread; "
           "maximum_associations set through the real setter from any int in [-2, %d]" % (N, N, N, N + 2),
    stubs=["pynetdicom.ae.threading.enumerate returns the pre-arranged live set (bare Association objects carrying ae, "
           "mode, is_established) plus the real Association under test; everything else of `threading` is real",
           "FakeDUL records the A-ASSOCIATE response (vlib/stubs/loopback.py); AE()/Association() built untraced",
           "assumption: a thread is in threading.enumerate() from start() until run() returns, and the check runs on the "
           "thread it counts; the step is atomic w.r.t. other threads starting"],
    outside="the real thread scheduler and pre-emption inside the step; more than %d threads per population (the code's only "
            "operation on the enumeration is filtering and len)" % N,
    shards=_shards,
)
def limit_step(passed: List[bool], r: int, o: int, limit: int) -> bool:
    """
    pre: len(passed) == shard("x", 1)
    pre: 0 <= r <= N and 0 <= o <= N
    pre: -2 <= limit <= N + 2
    post: _ == True
    """
    x = len(passed)
    with untraced():
        ae = AE(ae_title="AC")
        other = AE(ae_title="OTHER")
        me = Association(ae, MODE_ACCEPTOR)
        dul = attach_fake_dul(me)
        me.acceptor.ae_title = "AC"
        me.acceptor.supported_contexts = [build_context("1.2.840.10008.1.1", ["1.2.840.10008.1.2"])]
        me.requestor.primitive = _request()
        plain = _real_threading.Thread(target=lambda: None)
    ae.maximum_associations = limit
    L = ae.maximum_associations
    if limit >= 1 and L != limit:      # the configured maximum is the one that is enforced
        return "maximum_associations setter: %r -> %r" % (limit, L)
    e = _count(passed)
    if e > L:
        out_of_bounds()          # pre-state must satisfy the invariant I
    live = [_standin(ae, MODE_ACCEPTOR, passed[i]) for i in range(x)]
    live.append(me)
    live += [_standin(ae, MODE_REQUESTOR, True) for _ in range(r)]
    live += [_standin(other, MODE_ACCEPTOR if i % 2 == 0 else MODE_REQUESTOR, True) for i in range(o)]
    live.append(plain)
    stub = ThreadingStub(live)
    saved = ae_mod.threading
    ae_mod.threading = stub
    try:
        me.acse._negotiate_as_acceptor()
    finally:
        ae_mod.threading = saved
    if stub.calls < 1:
        return "the limit check did not look at the live threads"
    if len(dul.sent) != 1 or not isinstance(dul.sent[0], A_ASSOCIATE):
        return "%d primitives sent" % len(dul.sent)
    rsp = dul.sent[0]
    me_passed = 1 if me.is_established else 0
    # invariant I after the step
    if e + me_passed > L:
        return "invariant broken: %d acceptor threads past the check with maximum_associations %d" % (e + me_passed, L)
    if me.is_established != (rsp.result == 0):
        return "is_established=%r but response result %r" % (me.is_established, rsp.result)
    # over the limit => rejected-transient (2), provider presentation-related (3), local-limit-exceeded (2)
    if x + 1 > L:
        if (rsp.result, rsp.result_source, rsp.diagnostic) != (2, 3, 2):
            return "over the limit but response is (%r, %r, %r)" % (rsp.result, rsp.result_source, rsp.diagnostic)
        if me.is_established or not me.is_rejected:
            return "over the limit but established"
    elif rsp.result != 0 and (rsp.result, rsp.result_source, rsp.diagnostic) != (2, 3, 2):
        return "rejected for another reason (%r, %r, %r)" % (rsp.result, rsp.result_source, rsp.diagnostic)
    return True
