"""C18 - every DIMSE message sent travels on an accepted presentation context whose abstract syntax
is the message's SOP class (or a documented substitute), on which the local side holds the needed
role; a data set is encoded in that context's transfer syntax and only converted between
uncompressed syntaxes of the same byte order.

Real code: Association._get_valid_context; send_c_store (whole function incl. the transfer-syntax
consistency block); send_c_echo/find/get/move, send_n_*; _wrap_get_move_responses + _c_store_scp
(responses to C-STORE sub-operations).
Oracle: spec/assoc_e.py (eligibility of a context, transfer syntax table) - no pynetdicom import.
"""
from typing import List

from vlib.shim import *  # noqa: F401,F403
from vlib.h import harness, tier, shard
from vlib import kf

from pydicom.dataset import Dataset, FileMetaDataset
from pydicom.uid import UID

import pynetdicom.association as am
from pynetdicom import evt
from pynetdicom.dimse_primitives import (
    C_ECHO, C_FIND, C_GET, C_MOVE, C_STORE, N_ACTION, N_CREATE, N_DELETE, N_EVENT_REPORT, N_GET, N_SET,
)
from vlib.stubs.assoc_e import RecordingDimse, make_assoc, mk_cx, bio, PairDict, MODE_REQUESTOR
from spec import assoc_e as spec

silence_loggers()


def _rng(xs, lo, hi):
    """all(lo <= x <= hi for x in xs) with early exit (CrossHair's all() does not short-circuit)"""
    for x in xs:
        if x < lo:
            return False
        if x > hi:
            return False
    return True

IDS = (1, 3, 5)
N_CX = tier(2, 3)

ROLES = (None, "scu", "scp")


def _tuple_of(cx):
    return (cx.context_id, str(cx.abstract_syntax), str(cx.transfer_syntax[0]), cx.as_scu, cx.as_scp)


def _check_selection(accepted_cx, ab, ts, role, allow, got, raised, cid_cx=None):
    """Compare one outcome of context selection with the oracle.  `got` is the returned context
    (or None), `raised` True iff ValueError; cid_cx = the accepted context the caller pinned, if any."""
    acc = [_tuple_of(c) for c in accepted_cx]
    cands = acc if cid_cx is None else [_tuple_of(cid_cx)]
    elig = [t for t in cands if spec.eligible(t, acc, ab, ts, role, allow)]
    if raised:
        return elig == []
    if got is None or not any(got is c for c in accepted_cx):
        return False  # not an accepted context
    t = _tuple_of(got)
    if t not in elig:
        return False
    # an exact transfer syntax match is preferred over a conversion
    if ts != "" and any(spec.exact(e, ts) for e in elig) and not spec.exact(t, ts):
        return False
    return True


def _mk_accepted(abs_idx, ts_idx, scu, scp, ab_pool, ts_pool):
    cxs = []
    for i in range(len(abs_idx)):
        cxs.append(mk_cx(ab_pool[abs_idx[i]], ts_pool[ts_idx[i]], IDS[i], scu[i], scp[i]))
    return cxs


def _call_gvc(assoc, ab, ts, role, cid, allow):
    try:
        return assoc._get_valid_context(ab, ts, role, context_id=cid, allow_conversion=allow), False
    except ValueError:
        return None, True


_STUBS = ["a real Association whose threads never start; _accepted_cx filled directly with accepted PresentationContexts",
          "abstract / transfer syntaxes come from pools (they are pydicom UID objects, which realise any symbolic string)"]

# ---- abstract syntax, role, pinned context id --------------------------------------------------
A0_SHARDS = tier((-1,), (0, 1, 2, 3, 4))   # thorough: one process per abstract syntax of the first context


def _first_is(xs, v):
    """shard selector: v < 0 = no restriction; v == 0 also takes the empty list"""
    if v < 0:
        return True
    if len(xs) == 0:
        return v == 0
    return xs[0] == v


AB_POOL_A = (spec.CT_STORAGE, spec.MR_STORAGE, spec.UPS_PUSH, spec.UPS_PULL, spec.UPS_WATCH)
REQ_AB = (spec.CT_STORAGE, spec.UPS_PUSH)


@harness(
    "C18",
    timeout=(120, 900),
    shards=[dict(ab=a, role=r, a0=a0) for a in (0, 1) for r in (0, 1, 2) for a0 in A0_SHARDS],
    functions=["association:Association._get_valid_context", "association:Association.accepted_contexts"],
    bounds="<= %d accepted contexts, abstract syntax each from {CT, MR, UPS Push, UPS Pull, UPS Watch}, as_scu / as_scp any "
           "bool (solver-symbolic); request: SOP class CT or UPS Push, role none/scu/scp (sharded), no transfer syntax; "
           "context_id none, each accepted id, or an id that was not accepted" % N_CX,
    stubs=_STUBS,
    outside="context_id together with the UPS substitution (never used by pynetdicom itself)",
)
def select_abstract_role(abs_idx: List[int], scu: List[bool], scp: List[bool], cid_sel: int) -> bool:
    """
    pre: len(abs_idx) <= N_CX and _rng(abs_idx, 0, 4)
    pre: len(scu) == len(abs_idx) and len(scp) == len(abs_idx)
    pre: -1 <= cid_sel <= len(abs_idx)
    pre: cid_sel == -1 or shard("ab", 0) == 0
    pre: _first_is(abs_idx, shard("a0", -1))
    post: _ == True
    """
    ab = REQ_AB[shard("ab", 0)]
    role = ROLES[shard("role", 0)]
    with untraced():
        assoc = make_assoc(MODE_REQUESTOR)
    cxs = _mk_accepted(abs_idx, [0] * len(abs_idx), scu, scp, AB_POOL_A, spec.TS_POOL)
    assoc._accepted_cx = {c.context_id: c for c in cxs}
    # cid_sel: -1 = no context_id, i < n = the id of accepted context i, n = an id that was not accepted
    cid, pinned = None, None
    if cid_sel >= 0:
        if cid_sel < len(cxs):
            pinned = cxs[cid_sel]
            cid = pinned.context_id
        else:
            cid = 99
    got, raised = _call_gvc(assoc, ab, "", role, cid, True)
    return _check_selection(cxs, ab, "", role, True, got, raised, pinned)


# ---- transfer syntax matching / conversion -------------------------------------------------------
@harness(
    "C18",
    timeout=(120, 900),
    shards=[dict(ts=t, t0=t0) for t in range(5) for t0 in A0_SHARDS],
    functions=["association:Association._get_valid_context"],
    bounds="<= %d accepted contexts for CT, transfer syntax each from {implicit LE, explicit LE, explicit BE, deflated LE, "
           "JPEG baseline}, as_scu any bool; request: CT with each pool transfer syntax (sharded), role scu, "
           "allow_conversion any bool" % N_CX,
    stubs=_STUBS,
)
def select_transfer(ts_idx: List[int], scu: List[bool], allow: bool) -> bool:
    """
    pre: len(ts_idx) <= N_CX and _rng(ts_idx, 0, 4)
    pre: len(scu) == len(ts_idx)
    pre: _first_is(ts_idx, shard("t0", -1))
    post: _ == True
    """
    ts = spec.TS_POOL[shard("ts", 0)]
    with untraced():
        assoc = make_assoc(MODE_REQUESTOR)
    n = len(ts_idx)
    cxs = _mk_accepted([0] * n, ts_idx, scu, [False] * n, (spec.CT_STORAGE,), spec.TS_POOL)
    assoc._accepted_cx = {c.context_id: c for c in cxs}
    got, raised = _call_gvc(assoc, spec.CT_STORAGE, ts, "scu", None, allow)
    return _check_selection(cxs, spec.CT_STORAGE, ts, "scu", allow, got, raised)


# ---- all filters together (2 contexts) ---------------------------------------------------------------
@harness(
    "C18",
    timeout=(150, 900),
    shards=[dict(ts=t, role=r, ab0=a) for t in range(-1, 5) for r in (0, 1, 2) for a in (0, 1)],
    tiers=("thorough",),
    functions=["association:Association._get_valid_context"],
    bounds="2 accepted contexts, abstract syntax CT or MR, transfer syntax from the pool of 5, as_scu / as_scp any bool; request "
           "CT with each pool transfer syntax or none, each role (sharded), allow_conversion any bool, no context_id",
    stubs=_STUBS,
)
def select_combined(ab1: int, ts0: int, ts1: int, scu: List[bool], scp: List[bool], allow: bool) -> bool:
    """
    pre: 0 <= ab1 <= 1 and 0 <= ts0 <= 4 and 0 <= ts1 <= 4
    pre: len(scu) == 2 and len(scp) == 2
    pre: allow or shard("ts", -1) >= 0
    post: _ == True
    """
    # (allow_conversion=False without a transfer syntax to match is a combination no caller in pynetdicom uses -
    #  send_c_store always names the data set's syntax - and "an exact match" is undefined for it: not judged)
    ab0 = shard("ab0", 0)
    cid_sel = -1
    t = shard("ts", -1)
    ts = "" if t < 0 else spec.TS_POOL[t]
    role = ROLES[shard("role", 0)]
    with untraced():
        assoc = make_assoc(MODE_REQUESTOR)
    cxs = _mk_accepted([ab0, ab1], [ts0, ts1], scu, scp, (spec.CT_STORAGE, spec.MR_STORAGE), spec.TS_POOL)
    assoc._accepted_cx = {c.context_id: c for c in cxs}
    cid, pinned = None, None
    if cid_sel >= 0:
        if cid_sel < 2:
            pinned = cxs[cid_sel]
            cid = pinned.context_id
        else:
            cid = 99
    got, raised = _call_gvc(assoc, spec.CT_STORAGE, ts, role, cid, allow)
    return _check_selection(cxs, spec.CT_STORAGE, ts, role, allow, got, raised, pinned)


# ---- send_c_store: the data set's own encoding, context choice, what is handed to the encoder ----------
ENCODINGS = ((None, None), (True, True), (False, True), (False, False), (True, False))
#   original_encoding (implicit VR, little endian) -> the transfer syntax that names it
CANONICAL = {(True, True): spec.IMPLICIT_LE, (False, True): spec.EXPLICIT_LE, (False, False): spec.EXPLICIT_BE,
             (True, False): None}


STORE_AB_MAX = tier(0, 1)   # quick: every accepted context is for CT (other abstract syntaxes: select_abstract_role)


class EncodeRecorder:
    def __init__(self):
        self.calls = []

    def __call__(self, ds, implicit, little, deflated=False):
        self.calls.append((ds, (implicit, little, deflated)))
        return b"\x00\x00"


def _mk_dataset(sop, ts, enc):
    ds = Dataset()
    ds.SOPClassUID = sop
    ds.SOPInstanceUID = "1.2.3.4"
    ds.file_meta = FileMetaDataset()
    ds.file_meta.TransferSyntaxUID = ts
    if enc != (None, None):
        ds.set_original_encoding(enc[0], enc[1])
    return ds


def _store_rsp():
    r = C_STORE()
    r.MessageIDBeingRespondedTo = 1
    r.Status = 0x0000
    return r


@harness(
    "C18",
    timeout=(150, 900),
    shards=[dict(ts=t, enc=e) for t in range(5) for e in range(5)],
    functions=["association:Association.send_c_store", "association:Association._get_valid_context",
               "association:Association._check_received_status"],
    bounds="a CT data set whose file-meta transfer syntax is each of the 5 pool syntaxes and whose original encoding is "
           "unknown or each (implicit?, little?) pair (25 shards); <= 2 accepted contexts, abstract syntax CT%s, transfer "
           "syntax from the pool, as_scu any bool" % (" or MR" if STORE_AB_MAX else ""),
    stubs=_STUBS + ["pynetdicom.association.encode replaced by a recorder (its arguments are what is checked)",
                    "assoc.dimse = RecordingDimse answering with one C-STORE response 0x0000"],
    outside="sending from a file path (dcmread / chunked: file system); the bytes the encoder produces (pydicom)",
)
def store_request(ab_idx: List[int], ts_idx: List[int], scu: List[bool]) -> bool:
    """
    pre: len(ab_idx) <= 2 and _rng(ab_idx, 0, STORE_AB_MAX)
    pre: len(ts_idx) == len(ab_idx) and _rng(ts_idx, 0, 4)
    pre: len(scu) == len(ab_idx)
    post: _ == True
    """
    file_ts = spec.TS_POOL[shard("ts", 0)]
    enc = ENCODINGS[shard("enc", 0)]
    with untraced():
        assoc = make_assoc(MODE_REQUESTOR)
        ds = _mk_dataset(spec.CT_STORAGE, file_ts, enc)
        assoc.dimse = RecordingDimse([(1, _store_rsp())])
    n = len(ab_idx)
    cxs = _mk_accepted(ab_idx, ts_idx, scu, [False] * n, (spec.CT_STORAGE, spec.MR_STORAGE), spec.TS_POOL)
    assoc._accepted_cx = {c.context_id: c for c in cxs}
    rec = EncodeRecorder()
    saved = am.encode
    am.encode = rec
    outcome = "sent"
    try:
        try:
            status = assoc.send_c_store(ds)
        except ValueError:
            outcome = "no-context"
        except AttributeError:
            outcome = "refused"
    finally:
        am.encode = saved
    sent = assoc.dimse.sent
    # which transfer syntax names the data set's real encoding?
    flags = spec.ts_flags(file_ts)
    mismatch = enc != (None, None) and enc != (flags[0], flags[1])
    eff = CANONICAL[enc] if mismatch else file_ts
    if outcome == "refused":
        # declining to send is only legitimate when the data set contradicts its file meta
        return mismatch and sent == [] and rec.calls == []
    if eff is None:
        return False  # implicit VR big endian is no DICOM encoding: nothing may be sent
    acc = [_tuple_of(c) for c in cxs]
    elig = [t for t in acc if spec.eligible(t, acc, spec.CT_STORAGE, eff, "scu", True)]
    if outcome == "no-context":
        return elig == [] and sent == [] and rec.calls == []
    if len(sent) != 1 or sent[0].kind != "C_STORE" or sent[0].is_response:
        return False
    used = [t for t in acc if t[0] == sent[0].context_id]
    if len(used) != 1 or used[0] not in elig:
        return False
    if any(spec.exact(e, eff) for e in elig) and not spec.exact(used[0], eff):
        return False
    req = sent[0].primitive
    if str(req.AffectedSOPClassUID) != spec.CT_STORAGE or str(req.AffectedSOPInstanceUID) != "1.2.3.4":
        return False
    # the data set is handed to the encoder exactly once, with the chosen context's transfer syntax
    if len(rec.calls) != 1 or rec.calls[0][0] is not ds or rec.calls[0][1] != spec.ts_flags(used[0][2]):
        return False
    return isinstance(status, Dataset) and status.Status == 0x0000


# ---- every other SCU request: context choice and encoder arguments ------------------------------------------
FIND_MODEL = "1.2.840.10008.5.1.4.1.2.1.1"
MOVE_MODEL = "1.2.840.10008.5.1.4.1.2.1.2"
GET_MODEL = "1.2.840.10008.5.1.4.1.2.1.3"
FILM_SESSION = "1.2.840.10008.5.1.1.1"

# op -> (message SOP class, role the operation needs, response class, has a data set)
OPS = {
    "echo": (spec.VERIFICATION, "scu", C_ECHO, False),
    "find": (FIND_MODEL, "scu", C_FIND, True),
    "get": (GET_MODEL, "scu", C_GET, True),
    "move": (MOVE_MODEL, "scu", C_MOVE, True),
    "cancel": (FIND_MODEL, "scu", None, False),
    "n_action": (FILM_SESSION, "scu", N_ACTION, True),
    "n_create": (FILM_SESSION, "scu", N_CREATE, True),
    "n_delete": (FILM_SESSION, "scu", N_DELETE, False),
    "n_event_report": (FILM_SESSION, None, N_EVENT_REPORT, True),   # sent by the SCP: negotiated role not applicable
    "n_get": (FILM_SESSION, "scu", N_GET, False),
    "n_set": (FILM_SESSION, "scu", N_SET, True),
    "n_action_ups": (spec.UPS_PUSH, "scu", N_ACTION, True),           # UPS Push may travel on Pull / Watch / Event / Query
}
OP_AB_MAX = tier(0, 2)


def _ab_pool(op):
    sop = OPS[op][0]
    if op == "n_action_ups":
        return (spec.UPS_WATCH, spec.UPS_PUSH, spec.MR_STORAGE)
    return (sop, spec.MR_STORAGE, spec.CT_STORAGE)


def _invoke(assoc, op, ds):
    sop = OPS[op][0]
    if op == "echo":
        return assoc.send_c_echo()
    if op == "find":
        return assoc.send_c_find(ds, sop)
    if op == "get":
        return assoc.send_c_get(ds, sop)
    if op == "move":
        return assoc.send_c_move(ds, "DEST", sop)
    if op == "cancel":
        return assoc.send_c_cancel(1, query_model=sop)
    if op in ("n_action", "n_action_ups"):
        return assoc.send_n_action(ds, 1, sop, "1.2.3")
    if op == "n_create":
        return assoc.send_n_create(ds, sop, "1.2.3")
    if op == "n_delete":
        return assoc.send_n_delete(sop, "1.2.3")
    if op == "n_event_report":
        return assoc.send_n_event_report(ds, 1, sop, "1.2.3")
    if op == "n_get":
        return assoc.send_n_get([], sop, "1.2.3")
    if op == "n_set":
        return assoc.send_n_set(ds, sop, "1.2.3")
    raise AssertionError(op)


@harness(
    "C18",
    timeout=(120, 900),
    shards=[dict(op=o) for o in OPS],
    functions=["association:Association.send_c_echo", "association:Association.send_c_find", "association:Association.send_c_get",
               "association:Association.send_c_move", "association:Association.send_c_cancel", "association:Association.send_n_*",
               "association:Association._get_valid_context"],
    bounds="each SCU operation (one shard each, incl. N-ACTION for UPS Push); <= 2 accepted contexts, abstract syntax from a pool "
           "of %d (the operation's SOP class first), transfer syntax from the pool of 5, as_scu / as_scp any bool"
           % (OP_AB_MAX + 1),
    stubs=_STUBS + ["pynetdicom.association.encode replaced by a recorder", "assoc.dimse = RecordingDimse answering with one "
                    "valid response 0x0000 of the operation's type"],
    outside="meta SOP classes (meta_uid); the bytes the encoder produces",
)
def scu_request(ab_idx: List[int], ts_idx: List[int], scu: List[bool], scp: List[bool]) -> bool:
    """
    pre: len(ab_idx) <= 2 and _rng(ab_idx, 0, OP_AB_MAX)
    pre: len(ts_idx) == len(ab_idx) and _rng(ts_idx, 0, 4)
    pre: len(scu) == len(ab_idx) and len(scp) == len(ab_idx)
    post: _ == True
    """
    op = shard("op", "echo")
    sop, role, rsp_cls, has_ds = OPS[op]
    with untraced():
        assoc = make_assoc(MODE_REQUESTOR)
        incoming = []
        if rsp_cls is not None:
            r = rsp_cls()
            r.MessageIDBeingRespondedTo = 1
            r.Status = 0x0000
            incoming.append((1, r))
        assoc.dimse = RecordingDimse(incoming)
        ds = Dataset()
        ds.PatientID = "1"
    cxs = _mk_accepted(ab_idx, ts_idx, scu, scp, _ab_pool(op), spec.TS_POOL)
    assoc._accepted_cx = {c.context_id: c for c in cxs}
    rec = EncodeRecorder()
    saved = am.encode
    am.encode = rec
    raised = False
    try:
        try:
            result = _invoke(assoc, op, ds if has_ds else None)
        except ValueError:
            raised = True
    finally:
        am.encode = saved
    sent = assoc.dimse.sent
    acc = [_tuple_of(c) for c in cxs]
    elig = [t for t in acc if spec.eligible(t, acc, sop, "", role, True)]
    if raised:
        return elig == [] and sent == [] and rec.calls == []
    if len(sent) != 1 or (sent[0].is_response and op != "cancel"):
        return False
    used = [t for t in acc if t[0] == sent[0].context_id]
    if len(used) != 1 or used[0] not in elig:
        return False
    if has_ds:
        if len(rec.calls) != 1 or rec.calls[0][0] is not ds or rec.calls[0][1] != spec.ts_flags(used[0][2]):
            return False
    elif rec.calls != []:
        return False
    return True


# ---- responses to C-STORE sub-operation requests (the requestor acting as storage SCP during C-GET) ----
class _SubopPeer(RecordingDimse):
    def __init__(self, cid, sop):
        RecordingDimse.__init__(self)
        self.cid, self.sop, self.pos = cid, sop, 0

    def get_msg(self, block=False):
        self.pos += 1
        if self.pos == 1:
            r = C_STORE()
            r.MessageID = 7
            r.AffectedSOPClassUID = self.sop
            r.AffectedSOPInstanceUID = "1.2.3"
            r.Priority = 2
            r.DataSet = bio()
            r._context_id = self.cid
            return self.cid, r
        if self.pos == 2:
            r = C_GET()
            r.MessageIDBeingRespondedTo = 1
            r.Status = 0x0000
            return 1, r
        return None, None


@harness(
    "C18",
    timeout=(90, 600),
    functions=["association:Association._wrap_get_move_responses", "association:Association._c_store_scp",
               "association:Association._get_valid_context"],
    bounds="a C-STORE sub-operation request for CT arriving during a C-GET on an ACCEPTED context (any of <= 2 accepted "
           "contexts with any distinct odd IDs 1..255, solver-symbolic); the first context is for CT or MR with the SCP role "
           "held or not, the second for CT with the SCP role",
    stubs=_STUBS + ["Association._accepted_cx is a PairDict so that IDs may be symbolic", "EVT_C_STORE handler returns 0x0000",
                    "the peer's messages come from a stand-in for assoc.dimse"],
    outside="requests on IDs that were not accepted (that is C19)",
    findings=["C18-substore-refusal-context-1"],
)
def substore_response(a1: int, a2: int, two: bool, first_is_ct: bool, scp1: bool, on_second: bool) -> bool:
    """
    pre: 1 <= a1 <= 255 and a1 % 2 == 1
    pre: 1 <= a2 <= 255 and a2 % 2 == 1 and a2 != a1
    pre: two or not on_second
    pre: not kf.skip("C18-substore-refusal-context-1", a1=a1, a2=a2, two=two, first_is_ct=first_is_ct, scp1=scp1, on_second=on_second)
    post: _ == True
    """
    with untraced():
        assoc = make_assoc(MODE_REQUESTOR)
        calls = []
        assoc.bind(evt.EVT_C_STORE, lambda e: (calls.append(e.context.context_id), 0x0000)[1])
    pairs = [(a1, mk_cx(spec.CT_STORAGE if first_is_ct else spec.MR_STORAGE, spec.IMPLICIT_LE, a1, True, scp1))]
    if two:
        pairs.append((a2, mk_cx(spec.CT_STORAGE, spec.IMPLICIT_LE, a2, True, True)))
    assoc._accepted_cx = PairDict(pairs)
    cid = a2 if on_second else a1
    assoc.dimse = _SubopPeer(cid, spec.CT_STORAGE)
    for st, ident in assoc._wrap_get_move_responses(UID(spec.IMPLICIT_LE)):
        pass
    sent = assoc.dimse.sent
    legal = on_second or (first_is_ct and scp1)
    # exactly one C-STORE response, on the context the request arrived on (an accepted one)
    if len(sent) != 1 or sent[0].kind != "C_STORE" or not sent[0].is_response:
        return False
    if sent[0].context_id != cid:
        return False
    if legal:
        return calls == [cid] and sent[0].status == 0x0000
    # SOP class / role do not fit the context: refused, the handler is not involved
    return calls == [] and sent[0].status != 0x0000
