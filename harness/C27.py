"""C27 - the notifications pynetdicom emits form a well-formed history.

history_reactor   the C05 reactor environment (real run_reactor / state machine / AssociationSocket / Timer / queues,
                  single-stepped under a solver-enumerated schedule) with recording notification handlers bound
                  through the real Association.bind (or, for the acceptor from connection arrival, through the real
                  RequestHandler.handle): EVT_FSM_TRANSITION, EVT_CONN_OPEN, EVT_CONN_CLOSE, EVT_PDU_SENT, EVT_PDU_RECV,
                  EVT_DATA_SENT, EVT_DATA_RECV (+ EVT_ACSE_SENT / EVT_ACSE_RECV).  The handlers write into the same
                  log as the fake OS socket, so "what crossed the wire" and "what was notified" are one ordered list.
history_assoc     the association-level kernels (ACSE.negotiate_association as acceptor / requestor,
                  Association._run_reactor single-stepped through `_reactor_checkpoint`, Association.release ->
                  ACSE.negotiate_release, Association.abort) on a real Association whose `dul` is a recording FakeDUL
                  that hands out a solver-enumerated script of indications: EVT_ESTABLISHED at most once and before
                  any EVT_RELEASED / EVT_ABORTED.

Reading of "connection-open precedes everything else": every wire-level notification (PDU / data sent / received,
connection close).  EVT_ACSE_SENT for the A-ASSOCIATE request necessarily precedes EVT_CONN_OPEN on the requestor side
(PS3.8: Evt1, the request primitive, is what makes AE-1 open the connection), so it is not demanded to follow it.
"""
from typing import List

from vlib.shim import *  # noqa: F401,F403
from vlib import h
from vlib.h import harness, shard, tier

from spec import ps38_fsm as spec
from vlib.stubs import reactor as R
from harness import C05
from harness.C05 import NA_FULL, NA_QUICK, STARTS

import pynetdicom.association as assoc_mod
from pynetdicom import evt
from pynetdicom._globals import MODE_ACCEPTOR, MODE_REQUESTOR
from pynetdicom.association import Association
from pynetdicom.pdu_primitives import A_ABORT, A_ASSOCIATE, A_P_ABORT, A_RELEASE

silence_loggers()

N = tier(2, 3)
NA = tier(NA_QUICK, NA_FULL)
START_ACCEPT = len(STARTS)         # extra start: the acceptor from the arrival of the TCP connection
_STARTS_QUICK = list(range(13)) + [START_ACCEPT]
_STARTS_THOROUGH = list(range(17)) + [START_ACCEPT]
_KNOWN_TYPES = (1, 2, 3, 4, 5, 6, 7)


class HRun(C05.Run):
    """C05.Run plus recording handlers."""

    def __init__(self, start, steps):
        if start == START_ACCEPT:
            # build everything the way C05.Run does, but around the association RequestHandler.handle() creates
            self.steps = steps
            self.clock = R.TickClock()
            with untraced():
                with R.patched_modules(self.clock):
                    self.p = R.accept_connection(self.clock, R.WIRE_EVENTS)
                self.user = R.UserView(R.V_ACC_WAIT, False)
                self.p.concrete_codec()
            self.start_state = "Sta1"
            self.must_end = False
            self.anything = False
            self.trace, self.issued, self.offender, self.refused, self.failed = [], {}, None, None, None
            self.conn_preexisting = False
        else:
            super().__init__(start, steps)
            with untraced():
                R.bind_recorder(self.p.assoc, self.p.log, R.WIRE_EVENTS)
            self.conn_preexisting = self.start_state != "Sta1"


def _frames(stream):
    """Cut the byte stream the local side consumed into PDU frames (type, complete?, bytes)."""
    out, i = [], 0
    while i < len(stream):
        if len(stream) - i < 6:
            out.append((None, False, stream[i:]))
            break
        t = stream[i]
        if t not in _KNOWN_TYPES:
            # the reader stops after the 6 header bytes of an unrecognised PDU
            out.append((t, True, stream[i:i + 6]))
            i += 6
            continue
        n = int.from_bytes(stream[i + 2:i + 6], "big")
        body = stream[i + 6:i + 6 + n]
        out.append((t, len(body) == n, stream[i:i + 6 + len(body)]))
        i += 6 + len(body)
    return out


KF_PDU_SENT = "C27-pdu-sent-without-send"
KF_CLOSE_NO_OPEN = "C27-conn-close-without-open"


def check_history(r, outcome):
    """The well-formedness conditions of C27 over the ordered log of one run.  Returns the set of violated
    conditions (empty = well-formed); the two patterns that are findings on the unrepaired tree get their own tag."""
    p = r.p
    log = p.log
    flaws = set()

    def need(cond, tag):
        if not cond:
            flaws.add(tag)

    names = [(i, e[1], e[2]) for i, e in enumerate(log) if e[0] == "evt"]

    # (1) state-machine transitions chain, start in the constructed state, end in the provider's state
    cur = r.start_state
    for i, name, pl in names:
        if name == "EVT_FSM_TRANSITION":
            need(pl[0] == cur and pl[3] in spec.STATES and pl[1] in spec.EVENTS, "fsm-chain")
            need(pl[2] == spec.cell(pl[0], pl[1]), "fsm-action-name")
            cur = pl[3]
    need(cur == p.state, "fsm-chain-end")

    # (3) sent: every write to the OS socket is notified as EVT_DATA_SENT then EVT_PDU_SENT with the same bytes,
    #     and nothing else is notified as sent
    seq = [(i, "tx", e[1]) if e[0] == "tx" else (i, e[1], e[2]) for i, e in enumerate(log)
           if e[0] == "tx" or (e[0] == "evt" and e[1] in ("EVT_DATA_SENT", "EVT_PDU_SENT"))]
    unsent = [x for j, x in enumerate(seq) if x[1] == "EVT_PDU_SENT" and (j == 0 or seq[j - 1][1] != "EVT_DATA_SENT")]
    need(not unsent, KF_PDU_SENT)      # a PDU notified as sent although no bytes were handed to the OS socket
    seq = [x for x in seq if x not in unsent]
    need(len(seq) == 3 * len(p.raw.sent), "sent-count")
    for k in range(len(p.raw.sent)):
        if 3 * k + 2 < len(seq):
            b = p.raw.sent[k]
            need([x[1] for x in seq[3 * k:3 * k + 3]] == ["tx", "EVT_DATA_SENT", "EVT_PDU_SENT"], "sent-order")
            need(all(x[2] == b for x in seq[3 * k:3 * k + 3]), "sent-bytes")
            need(not has_sentinel(b), "sentinel")

    # (2) connection events
    opens = [i for i, n, _ in names if n == "EVT_CONN_OPEN"]
    closes = [i for i, n, _ in names if n == "EVT_CONN_CLOSE"]
    sent_idx = [x[0] for x in seq if x[1] != "tx"]
    wire = sent_idx + [i for i, n, _ in names if n in ("EVT_PDU_RECV", "EVT_DATA_RECV")]
    raw_tx = [i for i, e in enumerate(log) if e[0] == "tx"]
    need(len(opens) <= 1, "open-twice")
    need(len(closes) <= 1, "close-twice")
    if opens:
        need(all(i > opens[0] for i in wire + closes + raw_tx), "before-open")
    elif not r.conn_preexisting:
        # a connection that was never opened: nothing may be notified as sent / received / closed on it
        need(not wire and not raw_tx, "wire-without-open")
        need(not closes, KF_CLOSE_NO_OPEN)
    if closes:
        need(all(i < closes[0] for i in wire + raw_tx), "after-close")
        need(all(x[0] < closes[0] for x in unsent), "after-close")
    # the acceptor's association thread (which emits every later notification) must not be started before the
    # connection-open notification has been delivered: everything it emits must happen-after EVT_CONN_OPEN
    starts = [i for i, e in enumerate(log) if e[0] == "thread.start"]
    if starts:
        need(bool(opens) and opens[0] < starts[0], "open-after-thread-start")
    connects = [i for i, e in enumerate(log) if e[0] == "raw.connect"]
    if r.start_state == "Sta1" and r.user.requestor:
        # requestor: notified open <=> the OS connect succeeded, and right after it
        need(len(opens) == len(connects), "open-vs-connect")
        if opens and connects:
            need(connects[0] < opens[0] and not any(connects[0] < i < opens[0] for i, _, _ in names), "open-late")
    if outcome == "ok" and getattr(r, "how", None) == "returned" and (r.conn_preexisting or opens):
        # the association is over and there was a connection: its close is notified exactly once
        need(len(closes) == 1, "close-missing")

    # (4) received: EVT_DATA_RECV / EVT_PDU_RECV correspond, in order, to the frames consumed from the OS socket
    recv = [(n, pl) for _, n, pl in names if n in ("EVT_DATA_RECV", "EVT_PDU_RECV")]
    j = 0
    for t, complete, b in _frames(p.raw.consumed):
        if t in _KNOWN_TYPES and complete:
            need(j < len(recv) and recv[j] == ("EVT_DATA_RECV", b), "data-recv")
            j += 1
            if b != R.BAD_AC_BYTES:
                # a PDU in its canonical encoding: notified once, and the notified PDU encodes to the bytes received
                need(j < len(recv) and recv[j] == ("EVT_PDU_RECV", b), "pdu-recv")
                j += 1
            elif j < len(recv) and recv[j][0] == "EVT_PDU_RECV":
                j += 1      # a lenient decode of a malformed PDU: what it re-encodes to is C01/C02's subject
    need(j == len(recv), "recv-extra")
    return flaws


def _history(start, steps):
    """Returns (set of violated conditions, the run)."""
    r = HRun(start, steps)
    outcome = r.run()
    if outcome == "bad":
        return {"c05:" + repr(r.failed)}, r      # C05's own assertions fail: also not a well-formed run
    # outcome "invalid-event": the provider thread died (C05's findings); the history up to that point must still
    # be well-formed (the close-exactly-once condition needs a completed run and is skipped)
    return check_history(r, outcome), r


def classify(start, steps):
    """Concrete classification of a schedule (used by the `match` expressions of the known findings)."""
    flaws, _r = _history(start, list(steps))
    return sorted(flaws)


def explain(start, steps):
    ok, r = _history(start, list(steps))
    return {"flaws": sorted(ok), "failed": r.failed, "state": r.p.state, "trace": r.trace,
            "log": [e if e[0] != "evt" else (e[1], e[2] if not isinstance(e[2], bytes) else e[2][:10].hex())
                    for e in r.p.log if e[0] in ("evt", "tx", "raw.close", "raw.connect")]}


def _e2e(args, sh):
    from harness import C05_e2e

    flaws = classify(sh.get("start", 3), list(args["steps"]))
    if KF_CLOSE_NO_OPEN in flaws:
        name = "close_no_open"
    elif KF_PDU_SENT in flaws:
        name = "pdu_sent_unsent"
    else:
        return False, "no end-to-end reproducer for %r" % (flaws,)
    ok, tail = C05_e2e.run(name)
    return ok, "flaws %r, reproducer %s: %s" % (flaws, name, tail)


def _shards_a():
    starts = tier(_STARTS_QUICK, _STARTS_THOROUGH)
    if tier(True, False):
        return [{"start": s} for s in starts]
    return [{"start": s, "first": f} for s in starts for f in range(NA_FULL) if C05.first_admissible(HRun, s, f)]


_FIRST = shard("first", -1)
_START = shard("start", 3)


@harness(
    "C27",
    timeout=(600, 1500),
    shards=_shards_a,
    functions=["events:trigger", "events:Event.__init__", "association:Association.bind", "association:Association.get_handlers",
               "transport:RequestHandler.handle/_create_association", "transport:AssociationSocket.__init__/connect/send/close",
               "dul:DULServiceProvider.run_reactor/_decode_pdu/_send/send_pdu/receive_pdu", "fsm:StateMachine.do_action",
               "fsm:AE_*/DT_*/AR_*/AA_* (EVT_CONN_CLOSE triggers)"],
    bounds="the C05 bounds: start configuration enumerated (quick 13 + the acceptor from connection arrival via "
           "RequestHandler.handle, thorough 17 + 1); every schedule of exactly %d environment actions from an alphabet of %d "
           "(quick) / 30 (thorough) actions followed by %d idle iterations.  Solver-enumerated." % (N, NA_QUICK + 2, C05.IDLE_TAIL),
    stubs=R.STUBS + ["UserView contract automaton (as C05)", "Event.timestamp: pynetdicom.events.datetime replaced by a fixed clock",
                     "Association.start (thread start) suppressed inside RequestHandler.handle"],
    outside="histories longer than the bound; cross-thread ordering of handlers (one thread here); the close-exactly-once "
            "condition on runs in which the provider thread dies with InvalidEventError (those runs are C05's findings)",
    findings=[KF_PDU_SENT, KF_CLOSE_NO_OPEN],
    e2e=_e2e,
)
def history_reactor(steps: List[int]) -> bool:
    """
    pre: len(steps) == N
    pre: all(C05.in_alphabet(a) for a in steps)
    pre: _FIRST < 0 or steps[0] == _FIRST
    post: _ == True
    """
    flaws, _r = _history(_START, steps)
    if not flaws:
        return True
    rest = {f for f in flaws if not h.excluded(f)}
    if not rest:
        out_of_bounds()       # only listed, unrepaired findings: outside the search (any other flaw is reported)
    return False


# ---------------------------------------------------------------------------------------------------------------
# association level: established / released / aborted
class _Checkpoint:
    """behind assoc._reactor_checkpoint: lets Association._run_reactor execute exactly `n` loop iterations"""

    def __init__(self, n):
        self.n = n

    def wait(self, *a):
        if self.n <= 0:
            raise R.Stop()
        self.n -= 1
        return True

    def set(self):
        return None

    def clear(self):
        return None

    def is_set(self):
        return True


class Livelock(Exception):
    """A spin-wait of the association layer that nothing in this single thread will ever end."""


class _NoSleep:
    """`time` inside pynetdicom.association: sleeping is a no-op (nothing else runs in this thread); a spin loop
    that sleeps more than 500 times is reported instead of hanging the harness"""

    def __init__(self, real):
        self._real = real
        self.n = 0

    def sleep(self, s):
        self.n += 1
        if self.n > 500:
            raise Livelock()
        return None

    def __getattr__(self, n):
        return getattr(self._real, n)


# what the FakeDUL can hand to the association layer
I_NONE, I_ACCEPT, I_REJECT, I_ABORT, I_P_ABORT, I_REL_RQ, I_REL_RP, I_RQ, I_ACCEPT_NOCX = range(9)


def _indication(k):
    if k == I_NONE:
        return None
    if k == I_ACCEPT:
        return R.assoc_accept_primitive()
    if k == I_ACCEPT_NOCX:
        p = R.assoc_accept_primitive()
        p.presentation_context_definition_results_list[0].result = 3   # abstract syntax not supported
        return p
    if k == I_REJECT:
        return R.assoc_reject_primitive()
    if k == I_ABORT:
        return R.abort_primitive(0)
    if k == I_P_ABORT:
        return R.p_abort_primitive(0)
    if k == I_REL_RQ:
        return R.release_primitive(False)
    if k == I_REL_RP:
        return R.release_primitive(True)
    if k == I_RQ:
        return R.assoc_request_primitive()
    raise ValueError(k)


# what the local user does once negotiation is over
C_NOTHING, C_RELEASE, C_ABORT, C_ABORT_TWICE, C_RELEASE_THEN_ABORT, C_ABORT_IN_HANDLER = range(6)
K_SCRIPT = tier(2, 3)


def _assoc_history(requestor, script, call, reactor_iters, call_first):
    log = []
    with untraced():
        from pynetdicom import AE, build_context
        ae = AE()
        ae.add_supported_context("1.2.840.10008.1.1", "1.2.840.10008.1.2")
        a = Association(ae, MODE_REQUESTOR if requestor else MODE_ACCEPTOR)
        a.requestor.address_info = R.address(*R.REQ_ADDR)
        a.acceptor.address_info = R.address(*R.ACC_ADDR)
        a.requestor.ae_title, a.acceptor.ae_title = "REQ", "ACC"
        cx = build_context("1.2.840.10008.1.1", "1.2.840.10008.1.2")
        cx.context_id = 1
        a.requestor.requested_contexts = [cx]
        a.acceptor.supported_contexts = [build_context("1.2.840.10008.1.1", "1.2.840.10008.1.2")]
        items = [_indication(k) for k in script]
        dul = R.FakeDUL(a, items, log)
        sock = R.AssociationSocket.__new__(R.AssociationSocket)
        sock._assoc, sock.socket, sock._is_connected, sock._tls_args = a, R.FakeRaw(log), True, None
        sock._ready = R.StepStub(lambda i: None)
        dul.socket = sock
        a.dul = dul
        a.acse_timeout = 1
        h_ = R.bind_recorder(a, log, R.ASSOC_EVENTS)
        if call == C_ABORT_IN_HANDLER:
            a.bind(evt.EVT_ESTABLISHED, lambda event: event.assoc.abort())
    saved = (assoc_mod.time, R.evmod.datetime)
    assoc_mod.time = _NoSleep(saved[0])
    R.evmod.datetime = R.FixedDatetime
    try:
        # negotiation: the real ACSE code; the acceptor first takes the A-ASSOCIATE indication as run_reactor does
        if requestor:
            a.acse.negotiate_association()
        else:
            prim = dul.receive_pdu(wait=True, timeout=1)
            if isinstance(prim, A_ASSOCIATE) and prim.result is None:
                a.requestor.primitive = prim
                evt.trigger(a, evt.EVT_REQUESTED, {})
                if not a.is_aborted and not a.is_rejected:
                    a.acse.negotiate_association()

        def user_call():
            a._is_paused = True      # the association's own reactor thread is parked at its checkpoint
            if call in (C_RELEASE, C_RELEASE_THEN_ABORT):
                a.release()
            if call in (C_ABORT, C_ABORT_TWICE, C_RELEASE_THEN_ABORT):
                a.abort()
            if call == C_ABORT_TWICE:
                a.abort()

        def reactor():
            if a.is_established and not a._kill:
                a._reactor_checkpoint = _Checkpoint(reactor_iters)
                try:
                    a._run_reactor()
                except R.Stop:
                    pass

        if call_first:
            user_call()
            reactor()
        else:
            reactor()
            user_call()
    finally:
        assoc_mod.time, R.evmod.datetime = saved
    ev = [e[1] for e in log if e[0] == "evt"]
    est = [i for i, n in enumerate(ev) if n == "EVT_ESTABLISHED"]
    end = [i for i, n in enumerate(ev) if n in ("EVT_RELEASED", "EVT_ABORTED")]
    ok = len(est) <= 1
    if est and end:
        ok = ok and est[0] < min(end)
    return ok, ev


_ITERS = shard("iters", -1)


@harness(
    "C27",
    timeout=(600, 1500),
    shards=[{"requestor": rq, "call": c, **it} for rq in (True, False) for c in range(6)
            for it in tier([{}], [{"iters": 0}, {"iters": 1}, {"iters": 2}])],
    functions=["acse:ACSE.negotiate_association", "acse:ACSE._negotiate_as_acceptor", "acse:ACSE._negotiate_as_requestor",
               "acse:ACSE.negotiate_release", "acse:ACSE.send_abort/send_release/send_accept/send_request/is_aborted/"
               "is_release_requested", "association:Association._run_reactor", "association:Association.release",
               "association:Association._abort_blocking/_abort_nonblocking/kill", "events:trigger"],
    bounds="role x user call (nothing / release / abort / abort twice / release then abort / abort inside the EVT_ESTABLISHED "
           "handler) enumerated as shards; the script of what the DUL hands to the association layer: <= %d entries from "
           "{timeout, A-ASSOCIATE accept, accept without any accepted context, reject, A-ABORT, A-P-ABORT, A-RELEASE request, "
           "A-RELEASE response, A-ASSOCIATE indication}; 0-2 iterations of Association._run_reactor before or after the user "
           "call.  Solver-enumerated." % K_SCRIPT,
    stubs=["FakeDUL: records what the association layer sends, hands out the scripted indications (None = timeout); no "
           "protocol logic", "pynetdicom.association.time.sleep is a no-op; `_reactor_checkpoint` stub single-steps "
           "Association._run_reactor", "Event.timestamp fixed"],
    outside="DIMSE traffic during the association; the state machine / transport (history_reactor); two-sided co-simulation "
            "(owned by C06)",
)
def history_assoc(script: List[int], reactor_iters: int, call_first: bool) -> bool:
    """
    pre: len(script) <= K_SCRIPT
    pre: all(0 <= k < 9 for k in script)
    pre: 0 <= reactor_iters <= 2
    pre: _ITERS < 0 or reactor_iters == _ITERS
    post: _ == True
    """
    requestor = bool(shard("requestor", True))
    call = int(shard("call", 1))
    sc = [C05._concrete(k) for k in script]
    it = C05._concrete(reactor_iters)
    cf = True if call_first else False
    ok, _ev = _assoc_history(requestor, sc, call, it, cf)
    return ok
