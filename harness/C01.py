"""C01 - every PDU value survives encode/decode and matches the PS3.8 byte layout.

Real code: pynetdicom.pdu (all seven PDU classes), pynetdicom.pdu_items (every item / sub-item class),
the user-information primitives' from_primitive, utils.set_ae/set_uid/decode_bytes.
Oracle: spec/ps38_layout.py (independent reference encoder + parser, written from PS3.8 / PS3.7).

Three assertions per class (DESIGN.md section 5, C01):
  (L) encode(v) == reference_encode(v) byte for byte - hence every length field equals the length of
      what follows it (the reference encoder computes each length field as len() of the bytes that
      follow; encoder and parser of the spec are cross-checked against hand-assembled PDUs at import);
  (R) decode(encode(v)) == v;
  (P) primitive -> PDU -> bytes -> PDU -> primitive preserves every parameter PS3.8 transmits.

Numbers and byte payloads are solver-symbolic; string *lengths* and multiplicities are solver-enumerated
(pydicom.uid.UID is a str subclass built by C code, which realises strings): strings are the legal
string of the chosen length from the fixed pools below.
"""
from typing import List

from vlib.shim import *  # noqa: F401,F403
from vlib.h import harness, tier, shard
from vlib import kf

from spec import ps38_layout as L

from pynetdicom import pdu as P
from pynetdicom import pdu_items as I
from pynetdicom import pdu_primitives as PR
from pynetdicom.presentation import PresentationContext

silence_loggers()

# ---------------------------------------------------------------------------------------------
# string pools: one legal string per length (different pools for different roles so that a swap of
# two fields is visible)
# ---------------------------------------------------------------------------------------------
uid_of_len, ae_of_len = L.uid_of_len, L.ae_of_len

ULENS = tier([1, 2, 63, 64], list(range(1, 65)))          # UID lengths (odd and even, both ends)
ALENS = tier([1, 2, 15, 16], list(range(1, 17)))          # AE title / version name lengths
NB = 4                                                     # payload bytes are symbolic, length <= NB
U32 = 2**32 - 1


def concrete(x):
    """Realise a solver-enumerated input (lengths, multiplicities): CrossHair forks once per value of the
    declared finite range; in a concrete replay this is the identity."""
    if is_tracing():
        from crosshair.core import realize
        return realize(x)
    return x


def fixlen(b):
    """The same byte string with its length realised first (solver-enumerated, <= NB) and its bytes kept
    symbolic: everything after such a payload then sits at a concrete offset (otherwise every later slice
    and every character of every later string costs solver queries - measured 15-37 s per path)."""
    n = concrete(len(b))
    return bytes([b[i] for i in range(n)])


# ---------------------------------------------------------------------------------------------
# common assertions
# ---------------------------------------------------------------------------------------------
def eq_bytes(a, b):
    return len(a) == len(b) and a == b


def check_pdu(obj, value, cls):
    """(L) and (R) for a PDU object against its reference value."""
    enc = obj.encode()
    if not eq_bytes(enc, L.encode_pdu(value)):
        return False
    if len(obj) != len(enc):
        return False
    q = cls()
    q.decode(enc)
    if not (q == obj) or (q != obj):
        return False
    return eq_bytes(q.encode(), enc)


def check_item(obj, value, cls):
    """(L) and (R) for an item / sub-item object against its reference value."""
    enc = obj.encode()
    if not eq_bytes(enc, L.encode_item(value)):
        return False
    if len(obj) != len(enc):
        return False
    q = cls()
    q.decode(enc)
    if not (q == obj) or (q != obj):
        return False
    return eq_bytes(q.encode(), enc)


# ---------------------------------------------------------------------------------------------
# 1. the four fixed-size PDUs
# ---------------------------------------------------------------------------------------------
@harness(
    "C01", timeout=(60, 300),
    functions=["pdu:A_ASSOCIATE_RJ.encode/decode/from_primitive/to_primitive", "pdu:A_RELEASE_RQ.*", "pdu:A_RELEASE_RP.*",
               "pdu:A_ABORT_RQ.encode/decode/from_primitive/to_primitive", "pdu:PDU.__eq__"],
    bounds="A-ASSOCIATE-RJ / A-RELEASE-RQ / A-RELEASE-RP / A-ABORT: every field any value 0..255 (PDU level); primitives with "
           "every value their setters accept (result 1-2, source 1-3, diagnostic 1,2,3,7; abort source 0-2; provider reason 0,1,2,4,5,6)",
    stubs=[], outside="nothing inside these four PDU types",
)
def fixed_pdus(kind: int, a: int, b: int, c: int) -> bool:
    """
    pre: 0 <= kind <= 5
    pre: 0 <= a <= 255 and 0 <= b <= 255 and 0 <= c <= 255
    post: _ == True
    """
    if kind == 0:
        p = P.A_ASSOCIATE_RJ()
        p.result, p.source, p.reason_diagnostic = a, b, c
        if not check_pdu(p, ("RJ", a, b, c), P.A_ASSOCIATE_RJ):
            return False
        if (1 <= a <= 2) and (1 <= b <= 3) and (c == 1 or c == 2 or c == 3 or c == 7):
            prim = PR.A_ASSOCIATE()
            prim.result, prim.result_source, prim.diagnostic = a, b, c
            enc = P.A_ASSOCIATE_RJ(prim).encode()
            if not eq_bytes(enc, L.encode_pdu(("RJ", a, b, c))):
                return False
            q = P.A_ASSOCIATE_RJ()
            q.decode(enc)
            back = q.to_primitive()
            return back.result == a and back.result_source == b and back.diagnostic == c
        return True
    if kind == 1 or kind == 2:
        cls = P.A_RELEASE_RQ if kind == 1 else P.A_RELEASE_RP
        name = "RELRQ" if kind == 1 else "RELRP"
        prim = PR.A_RELEASE()
        if kind == 2:
            prim.result = "affirmative"
        p = cls(prim)
        if not check_pdu(p, (name,), cls):
            return False
        q = cls()
        q.decode(p.encode())
        back = q.to_primitive()
        return isinstance(back, PR.A_RELEASE) and back.result == prim.result
    if kind == 3:
        p = P.A_ABORT_RQ()
        p.source, p.reason_diagnostic = a, b
        return check_pdu(p, ("ABORT", a, b), P.A_ABORT_RQ)
    if kind == 4:
        # A-ABORT primitive (service-user initiated): source 0 (1 = reserved, 2 = provider are accepted by the setter)
        if a > 2:
            return True
        prim = PR.A_ABORT()
        prim.abort_source = a
        enc = P.A_ABORT_RQ(prim).encode()
        if not eq_bytes(enc, L.encode_pdu(("ABORT", a, 0))):
            return False
        q = P.A_ABORT_RQ()
        q.decode(enc)
        back = q.to_primitive()
        if a == 2:      # source 2 *is* the provider abort: delivered as A-P-ABORT, reason 0
            return isinstance(back, PR.A_P_ABORT) and back.provider_reason == 0
        return isinstance(back, PR.A_ABORT) and back.abort_source == a
    # kind == 5: A-P-ABORT primitive
    if not (a == 0 or a == 1 or a == 2 or a == 4 or a == 5 or a == 6):
        return True
    prim = PR.A_P_ABORT()
    prim.provider_reason = a
    enc = P.A_ABORT_RQ(prim).encode()
    if not eq_bytes(enc, L.encode_pdu(("ABORT", 2, a))):
        return False
    q = P.A_ABORT_RQ()
    q.decode(enc)
    back = q.to_primitive()
    return isinstance(back, PR.A_P_ABORT) and back.provider_reason == a


# ---------------------------------------------------------------------------------------------
# 2. P-DATA-TF
# ---------------------------------------------------------------------------------------------
N_PDV = tier(2, 3)


@harness(
    "C01", timeout=(90, 600),
    functions=["pdu:P_DATA_TF.encode/decode/_generate_items/_wrap_generate_items/from_primitive/to_primitive",
               "pdu_items:PresentationDataValueItem.encode/item_length"],
    bounds="1..%d PDV items; context id any 0..255; each PDV 1..%d symbolic bytes (control header + fragment)" % (N_PDV, NB),
    stubs=[], outside="more PDV items; longer PDVs (no branch depends on the payload length beyond empty/non-empty)",
)
def pdata(n: int, c0: int, c1: int, c2: int, d0: bytes, d1: bytes, d2: bytes) -> bool:
    """
    pre: 1 <= n <= N_PDV
    pre: 0 <= c0 <= 255 and 0 <= c1 <= 255 and 0 <= c2 <= 255
    pre: 1 <= len(d0) <= NB and 1 <= len(d1) <= NB and 1 <= len(d2) <= NB
    post: _ == True
    """
    n = concrete(n)
    pdvs = [(c0, fixlen(d0)), (c1, fixlen(d1)), (c2, fixlen(d2))][:n]
    prim = PR.P_DATA()
    prim.presentation_data_value_list = [[c, d] for c, d in pdvs]
    p = P.P_DATA_TF(prim)
    if not check_pdu(p, ("PDATA", pdvs), P.P_DATA_TF):
        return False
    q = P.P_DATA_TF()
    q.decode(p.encode())
    back = q.to_primitive().presentation_data_value_list
    if len(back) != n:
        return False
    for (c, d), got in zip(pdvs, back):
        if got[0] != c or not eq_bytes(got[1], d):
            return False
    return True


# ---------------------------------------------------------------------------------------------
# 3. every user-information sub-item kind, alone:  primitive -> sub-item -> bytes -> sub-item -> primitive
# ---------------------------------------------------------------------------------------------
UI_KINDS = ["maxlen", "impl_uid", "impl_ver", "async", "role", "ext", "cext", "uid_rq", "uid_ac"]


def make_ui(kind, a, b, c, f, g, p, s, ulen, alen, nrel):
    """(primitive, reference value, sub-item class) of one user-information sub-item.
    a: 32-bit, b, c: 16-bit ints; f, g: bools; p, s: bytes; ulen/alen: string lengths; nrel: number of related UIDs.
    ulen, alen, nrel must be concrete: the string-only part of each primitive is set up untraced (the strings
    are concrete; pydicom's UID machinery costs ~0.3 s per path when traced), numbers / payloads are set traced."""
    if kind == "maxlen":
        prim = PR.MaximumLengthNotification()
        prim.maximum_length_received = a
        return prim, ("maxlen", a), I.MaximumLengthSubItem
    if kind == "impl_uid":
        with untraced():
            u = uid_of_len(ulen, 2)
            prim = PR.ImplementationClassUIDNotification()
            prim.implementation_class_uid = u
        return prim, ("impl_uid", u), I.ImplementationClassUIDSubItem
    if kind == "impl_ver":
        with untraced():
            v = ae_of_len(alen, 1)
            prim = PR.ImplementationVersionNameNotification()
            prim.implementation_version_name = v
        return prim, ("impl_ver", v), I.ImplementationVersionNameSubItem
    if kind == "async":
        prim = PR.AsynchronousOperationsWindowNegotiation()
        prim.maximum_number_operations_invoked = b
        prim.maximum_number_operations_performed = c
        return prim, ("async", b, c), I.AsynchronousOperationsWindowSubItem
    if kind == "role":
        with untraced():
            u = uid_of_len(ulen, 3)
            prim = PR.SCP_SCU_RoleSelectionNegotiation()
            prim.sop_class_uid = u
        prim.scu_role = f
        prim.scp_role = g
        return prim, ("role", u, 1 if f else 0, 1 if g else 0), I.SCP_SCU_RoleSelectionSubItem
    if kind == "ext":
        with untraced():
            u = uid_of_len(ulen, 4)
            prim = PR.SOPClassExtendedNegotiation()
            prim.sop_class_uid = u
        prim.service_class_application_information = p
        return prim, ("ext", u, p), I.SOPClassExtendedNegotiationSubItem
    if kind == "cext":
        with untraced():
            u = uid_of_len(ulen, 5)
            svc = uid_of_len(65 - ulen, 6)
            rel = [uid_of_len(ulen, 7), uid_of_len(3, 8)][:nrel]
            prim = PR.SOPClassCommonExtendedNegotiation()
            prim.sop_class_uid = u
            prim.service_class_uid = svc
            prim.related_general_sop_class_identification = list(rel)
        return prim, ("cext", u, svc, rel), I.SOPClassCommonExtendedNegotiationSubItem
    if kind == "uid_rq":
        prim = PR.UserIdentityNegotiation()
        prim.user_identity_type = b
        prim.positive_response_requested = f
        prim.primary_field = p
        prim.secondary_field = s
        return prim, ("uid_rq", b, 1 if f else 0, p, s), I.UserIdentitySubItemRQ
    if kind == "uid_ac":
        prim = PR.UserIdentityNegotiation()
        prim.server_response = p
        return prim, ("uid_ac", p), I.UserIdentitySubItemAC
    raise AssertionError(kind)


def ui_legal(kind, a, b, c, f, g, p, s):
    """The documented validity predicate of the primitive (what PS3.7 Annex D allows)."""
    if kind == "role":
        return f or g                      # "SCU and SCP roles cannot both be unsupported"
    if kind == "uid_rq":
        if not (1 <= b <= 5):
            return False
        if b == 2 and len(s) == 0:         # a passcode is required with type 2
            return False
        return True
    return True


_KIND = shard("kind", "maxlen")
PLEN = shard("slen", None)                                 # uid_rq is split by the length of the secondary field
USES_U = _KIND in ("impl_uid", "role", "ext", "cext")     # parameters a kind does not use are pinned
USES_A = _KIND == "impl_ver"
USES_N = _KIND == "cext"
USES_P = ("ext", "uid_rq", "uid_ac")                     # kinds that carry the byte payload p / s
USES_S = ("uid_rq",)


@harness(
    "C01", timeout=(120, 900),
    shards=[{"kind": k} for k in UI_KINDS if k != "uid_rq"] + [{"kind": "uid_rq", "slen": n} for n in range(NB + 1)],
    functions=["pdu_items:<each user-information sub-item>.encode/decode/from_primitive/to_primitive/item_length",
               "pdu_primitives:<each user-information primitive>.from_primitive", "utils:set_uid/set_ae/decode_bytes"],
    bounds="one sub-item of each of the nine kinds; numbers any value of their field width; byte fields 0..%d symbolic bytes; "
           "UID lengths %s, version-name lengths %s; 0..2 related general UIDs" % (NB, "1..64" if len(ULENS) > 4 else ULENS,
                                                                                "1..16" if len(ALENS) > 4 else ALENS),
    stubs=["strings are the fixed legal string of the enumerated length (pydicom.uid.UID realises strings)"],
    outside="byte fields longer than %d bytes; other characters" % NB,
    findings=["C01-zero-length-field"],
)
def ui_subitem(a: int, b: int, c: int, f: bool, g: bool, p: bytes, s: bytes, ulen: int, alen: int, nrel: int) -> bool:
    """
    pre: 0 <= a <= U32 and 0 <= b <= 65535 and 0 <= c <= 65535
    pre: len(p) <= NB and len(s) <= NB
    pre: ulen in ULENS and alen in ALENS and 0 <= nrel <= 2
    pre: USES_U or ulen == ULENS[0]
    pre: USES_A or alen == ALENS[0]
    pre: USES_N or nrel == 0
    pre: PLEN is None or len(s) == PLEN
    pre: not kf.skip("C01-zero-length-field", p=p)
    post: _ == True
    """
    kind = shard("kind", "maxlen")
    if not ui_legal(kind, a, b, c, f, g, p, s):
        return True
    ulen, alen, nrel = concrete(ulen), concrete(alen), concrete(nrel)
    p = fixlen(p) if kind in USES_P else b""      # a payload the kind does not carry is not enumerated
    s = fixlen(s) if kind in USES_S else b""
    prim, value, cls = make_ui(kind, a, b, c, f, g, p, s, ulen, alen, nrel)
    item = prim.from_primitive()
    if type(item) is not cls:
        return False
    if not check_item(item, value, cls):
        return False
    q = cls()
    q.decode(item.encode())
    back = q.to_primitive()
    return (back == prim) and not (back != prim)


# ---------------------------------------------------------------------------------------------
# 3b. long variable fields: the 16-bit length fields at their sign / width boundaries
# ---------------------------------------------------------------------------------------------
BIG_LENS = tier([32761, 32762, 65000], [127, 128, 255, 256, 32761, 32762, 32763, 32767, 32768, 65000, 65400])   # the User Information item around it must still fit 16 bits


@harness(
    "C01", timeout=(120, 600),
    shards=[{"big": n, "which": w} for n in BIG_LENS for w in ("uid_rq", "uid_ac")],
    functions=["pdu_items:UserIdentitySubItemRQ.*", "pdu_items:UserIdentitySubItemAC.*", "pdu_items:UserInformationItem.*",
               "pdu_items:PDUItem._generate_items", "pdu_items:PDUItem.decode"],
    bounds="User Identity RQ primary field / AC server response of a LONG concrete length L (shard; quick: item lengths just "
           "below / at 2^15 and near 2^16; thorough: also 2^7, 2^8 boundaries) whose first byte and the small fields (type, "
           "positive-response flag, 0..1 byte secondary field) are solver-symbolic; as a sub-item on its own and inside a "
           "User Information item next to Maximum Length and Implementation Class UID (so that the parent's item walk reads "
           "its 16-bit length)",
    stubs=["the long field is one symbolic byte followed by L-1 concrete bytes"],
    outside="other long fields (P-DATA values use a 32-bit length: pdata harness)",
)
def ui_big_fields(b: int, f: bool, head: int, s: bytes) -> bool:
    """
    pre: 1 <= b <= 5 and 0 <= head <= 255
    pre: len(s) <= 1
    pre: b != 2 or len(s) == 1
    post: _ == True
    """
    big, which = shard("big", 32762), shard("which", "uid_rq")
    with untraced():
        # same item length for both kinds: the RQ sub-item has 6 bytes of fixed fields, the AC sub-item 2
        tail = bytes([65]) * ((big if which == "uid_rq" else big + 4) - 1)
    pfield = bytes([head]) + tail
    if which == "uid_rq":
        prim, value, cls = make_ui("uid_rq", 0, b, 0, f, False, pfield, fixlen(s), ULENS[0], ALENS[0], 0)
    else:
        prim, value, cls = make_ui("uid_ac", 0, 0, 0, False, False, pfield, b"", ULENS[0], ALENS[0], 0)
    item = prim.from_primitive()
    if type(item) is not cls or not check_item(item, value, cls):
        return False
    back = cls()
    back.decode(item.encode())
    if not (back.to_primitive() == prim):
        return False
    # inside its parent: the User Information item walks its sub-items by their 16-bit length fields
    mprim, mvalue, _ = make_ui("maxlen", 16382, 0, 0, False, False, b"", b"", ULENS[0], ALENS[0], 0)
    iprim, ivalue, _ = make_ui("impl_uid", 0, 0, 0, False, False, b"", b"", ULENS[0], ALENS[0], 0)
    ui = I.UserInformationItem()
    ui.user_data = [mprim.from_primitive(), iprim.from_primitive(), item]
    enc = ui.encode()
    if not eq_bytes(enc, L.encode_item(("ui", [mvalue, ivalue, value]))):
        return False
    q = I.UserInformationItem()
    q.decode(enc)
    if not (q == ui) or len(q.user_data) != 3:
        return False
    return eq_bytes(q.encode(), enc)


# ---------------------------------------------------------------------------------------------
# 4. application context / abstract syntax / transfer syntax / presentation context items
# ---------------------------------------------------------------------------------------------
def make_pcrq(cid, ulen, nts):
    """(PresentationContext primitive, reference value) of a proposed presentation context."""
    with untraced():                     # ulen, nts concrete; the id is set traced
        ab = uid_of_len(ulen, 1)
        tss = [uid_of_len(65 - ulen, 2), uid_of_len(ulen, 3), uid_of_len(7, 4)][:nts]
        cx = PresentationContext()
        cx.abstract_syntax = ab
        cx.transfer_syntax = list(tss)
    cx.context_id = cid
    return cx, ("pcrq", cid, [("abs", ab)] + [("ts", t) for t in tss])


def make_pcac(cid, result, ulen):
    """(PresentationContext primitive, reference value) of a presentation context result."""
    with untraced():
        ts = uid_of_len(ulen, 2)
        cx = PresentationContext()
        cx.transfer_syntax = [ts]
    cx.context_id = cid
    cx.result = result
    return cx, ("pcac", cid, result, [("ts", ts)])


def same_context(got, cx, with_abstract):
    if got.context_id != cx.context_id or got.result != cx.result:
        return False
    if with_abstract and got.abstract_syntax != cx.abstract_syntax:
        return False
    return list(got.transfer_syntax) == list(cx.transfer_syntax)


N_TS = tier(2, 2)


@harness(
    "C01", timeout=(120, 900),
    shards=[{"ikind": k} for k in ("app", "abs", "ts", "pcrq", "pcac")],
    functions=["pdu_items:ApplicationContextItem.*", "pdu_items:AbstractSyntaxSubItem.*", "pdu_items:TransferSyntaxSubItem.*",
               "pdu_items:PresentationContextItemRQ.encode/decode/from_primitive/to_primitive/item_length",
               "pdu_items:PresentationContextItemAC.encode/decode/from_primitive/to_primitive/item_length/_wrap_generate_items",
               "pdu_items:PDUItem._generate_items"],
    bounds="context id any odd 1..255 (primitive) / any 0..255 (item); result any 0..255; 1..%d transfer syntaxes; UID lengths %s"
           % (N_TS, "1..64" if len(ULENS) > 4 else ULENS),
    stubs=["strings are the fixed legal string of the enumerated length"],
    outside="more transfer syntaxes per context",
)
def pc_items(cid: int, result: int, ulen: int, nts: int) -> bool:
    """
    pre: 0 <= cid <= 255 and 0 <= result <= 255
    pre: ulen in ULENS and 1 <= nts <= N_TS
    pre: shard("ikind", "app") == "pcrq" or nts == 1
    post: _ == True
    """
    k = shard("ikind", "app")
    ulen, nts = concrete(ulen), concrete(nts)
    if k == "app":
        u = uid_of_len(ulen, 9)
        it = I.ApplicationContextItem()
        it.application_context_name = u
        return check_item(it, ("app", u), I.ApplicationContextItem)
    if k == "abs":
        u = uid_of_len(ulen, 1)
        it = I.AbstractSyntaxSubItem()
        it.abstract_syntax_name = u
        return check_item(it, ("abs", u), I.AbstractSyntaxSubItem)
    if k == "ts":
        u = uid_of_len(ulen, 2)
        it = I.TransferSyntaxSubItem()
        it.transfer_syntax_name = u
        return check_item(it, ("ts", u), I.TransferSyntaxSubItem)
    if k == "pcrq":
        odd = (cid % 2 == 1)
        cx, value = make_pcrq(cid if odd else 1, ulen, nts)
        it = I.PresentationContextItemRQ()
        it.from_primitive(cx)
        if not odd:                      # item level: the id byte may hold any value
            it.presentation_context_id = cid
            value = ("pcrq", cid, value[2])
        if not check_item(it, value, I.PresentationContextItemRQ):
            return False
        if not odd:
            return True
        q = I.PresentationContextItemRQ()
        q.decode(it.encode())
        return same_context(q.to_primitive(), cx, True)
    # pcac
    odd = (cid % 2 == 1)
    cx, value = make_pcac(cid if odd else 1, result, ulen)
    it = I.PresentationContextItemAC()
    it.from_primitive(cx)
    if not odd:
        it.presentation_context_id = cid
        value = ("pcac", cid, result, value[3])
    if not check_item(it, value, I.PresentationContextItemAC):
        return False
    if not odd:
        return True
    q = I.PresentationContextItemAC()
    q.decode(it.encode())
    return same_context(q.to_primitive(), cx, False)


# ---------------------------------------------------------------------------------------------
# 5. whole A-ASSOCIATE-RQ / A-ASSOCIATE-AC:  primitive -> PDU -> bytes -> PDU -> primitive
# ---------------------------------------------------------------------------------------------
RQ_KINDS = [k for k in UI_KINDS if k != "uid_ac"]          # an RQ carries the request form of user identity
AC_KINDS = [k for k in UI_KINDS if k != "uid_rq"]
N_PC = tier(2, 2)
NB_PDU = tier(1, 2)                                        # byte payloads inside whole PDUs (item harnesses go to NB)
QUICK = not (len(ULENS) > 4)
# whole-PDU harness: AE-title length and UID length are enumerated TOGETHER from these four pairings in both tiers
# (their independent product, 16 x 64, is covered by assoc_header and the item harnesses); quick: one pairing per
# shard, thorough: all four in every shard
PAIR_A = [1, 2, 15, 16]
PAIR_U = [1, 2, 63, 64]


def build_assoc(which, alen, ulen, npc, nts, k0, k1, cid0, cid1, res, a, b, c, f, g, p, s):
    """(A_ASSOCIATE primitive, reference value) of an association request (which='RQ') or accept ('AC')."""
    kinds = RQ_KINDS if which == "RQ" else AC_KINDS
    with untraced():
        called = ae_of_len(alen, 0)
        calling = ae_of_len(17 - alen, 1)
        app = uid_of_len(ulen, 9)
        prim = PR.A_ASSOCIATE()
        prim.application_context_name = app
        prim.called_ae_title = called
        prim.calling_ae_title = calling
    items = [("app", app)]
    cxs = []
    for n, cid in enumerate([cid0, cid1, 5][:npc]):
        if which == "RQ":
            cx, v = make_pcrq(cid, ulen, nts if n == 0 else 1)
        else:
            cx, v = make_pcac(cid, res if n == 0 else 0, ulen)
        cxs.append(cx)
        items.append(v)
    if which == "RQ":
        prim.presentation_context_definition_list = cxs
    else:
        prim.presentation_context_definition_results_list = cxs
        prim.result = 0
    uis, uvals = [], []
    for k in (k0, k1):
        if k < len(kinds):
            up, uv, _ = make_ui(kinds[k], a, b, c, f, g, p, s, ulen, alen, 1)
            uis.append(up)
            uvals.append(uv)
    prim.user_information = uis
    items.append(("ui", uvals))
    return prim, (which, 1, called, calling, items), cxs, uis


def _assoc_pre_ok(kinds, k0, k1, a, b, c, f, g, p, s):
    for k in (k0, k1):
        if k < len(kinds) and not ui_legal(kinds[k], a, b, c, f, g, p, s):
            return False
    return True


def _assoc_shards():
    out = []
    for w in ("RQ", "AC"):
        for k in range(len(RQ_KINDS) + 1):
            # shards that can contain the user-identity request (two byte fields, five types) are split by len(s)
            heavy = w == "RQ" and (RQ_KINDS[k:k + 1] == ["uid_rq"] or RQ_KINDS[(k + 1) % len(RQ_KINDS)] == "uid_rq" or not QUICK) and k < len(RQ_KINDS)
            if heavy:
                out += [{"pdu": w, "k0": k, "slen": n} for n in range(NB_PDU + 1)]
            else:
                out.append({"pdu": w, "k0": k})
    return out


_W = shard("pdu", "RQ")
_K0 = shard("k0", 0)
# second user-information sub-item: quick = none or the next kind (every kind occurs first and second, every
# kind is followed by another item and is last); thorough = every ordered pair
K1_OK = tier([len(RQ_KINDS), (_K0 + 1) % len(RQ_KINDS)], list(range(len(RQ_KINDS) + 1)))
LI_OK = [0, 1, 2, 3]


@harness(
    "C01", timeout=(250, 1200),
    shards=_assoc_shards,
    functions=["pdu:A_ASSOCIATE_RQ.encode/decode/from_primitive/to_primitive/pdu_length", "pdu:A_ASSOCIATE_AC.*",
               "pdu:PDU._generate_items/_wrap_generate_items/_wrap_encode_str", "pdu_items:UserInformationItem.*",
               "pdu_items:<every item class>", "utils:set_ae/set_uid/decode_bytes"],
    bounds="A-ASSOCIATE-RQ and -AC built from the A-ASSOCIATE primitive: 1..%d presentation contexts (first with 1..%d transfer "
           "syntaxes, ids any odd 1..255, AC result any 0..4), 0..2 user-information sub-items (first kind = shard k0, 8 = none; "
           "second: %s), numbers any value (maximum length 0..65535 here; its full 32-bit range is in ui_subitem and assoc_header), byte fields 0..%d bytes, protocol version any 0..65535 at PDU level; "
           "(quick tier: the shards that contain the user-identity request use one presentation context with one transfer syntax); "
           "(AE title length, UID length) from the pairings %s (%s)"
           % (N_PC, N_TS, "none or the next kind" if QUICK else "any kind or none", NB_PDU, list(zip(PAIR_A, PAIR_U)),
              "one pairing per shard; all lengths in assoc_header / item harnesses" if QUICK else "all four per shard; all 16 x 64 lengths in assoc_header"),
    stubs=["strings are the fixed legal string of the enumerated length"],
    outside="more than two user-information sub-items / %d presentation contexts per PDU; longer byte fields (item harnesses)" % N_PC,
    findings=["C01-zero-length-field-pdu"],
)
def assoc_pdu(li: int, ulen: int, npc: int, nts: int, k1: int, cid0: int, cid1: int, res: int, pv: int,
              a: int, b: int, c: int, f: bool, g: bool, p: bytes, s: bytes) -> bool:
    """
    pre: li in LI_OK and ulen == PAIR_U[li]
    pre: (not QUICK) or li == _K0 % 4
    pre: 1 <= npc <= N_PC and 1 <= nts <= N_TS and k1 in K1_OK
    pre: 0 <= cid0 <= 127 and 0 <= cid1 <= 127 and 0 <= res <= 4 and 0 <= pv <= 65535
    pre: _W == "AC" or res == 0
    pre: _W == "RQ" or nts == 1
    pre: 0 <= a <= 65535 and 0 <= b <= 65535 and 0 <= c <= 65535
    pre: len(p) <= NB_PDU and len(s) <= NB_PDU
    pre: PLEN is None or len(s) == PLEN
    pre: not (QUICK and PLEN is not None) or (npc == 1 and nts == 1)
    pre: not kf.skip("C01-zero-length-field-pdu", p=p, k1=k1)
    post: _ == True
    """
    which = _W
    kinds = RQ_KINDS if which == "RQ" else AC_KINDS
    li, ulen, npc, nts, k1 = concrete(li), concrete(ulen), concrete(npc), concrete(nts), concrete(k1)
    present = [kinds[k] for k in (_K0, k1) if k < len(kinds)]
    p = fixlen(p) if any(k in USES_P for k in present) else b""
    s = fixlen(s) if any(k in USES_S for k in present) else b""
    if not _assoc_pre_ok(kinds, _K0, k1, a, b, c, f, g, p, s):
        return True
    cid0, cid1 = 2 * cid0 + 1, 2 * cid1 + 1
    prim, value, cxs, uis = build_assoc(which, PAIR_A[li], ulen, npc, nts, _K0, k1, cid0, cid1, res, a, b, c, f, g, p, s)
    cls = P.A_ASSOCIATE_RQ if which == "RQ" else P.A_ASSOCIATE_AC
    pdu = cls(prim)
    if not check_pdu(pdu, value, cls):
        return False
    q = cls()
    q.decode(pdu.encode())
    back = q.to_primitive()
    if back.called_ae_title != prim.called_ae_title or back.calling_ae_title != prim.calling_ae_title:
        return False
    if back.application_context_name != prim.application_context_name:
        return False
    got = (back.presentation_context_definition_list if which == "RQ"
           else back.presentation_context_definition_results_list)
    if len(got) != len(cxs):
        return False
    for gcx, cx in zip(got, cxs):
        if not same_context(gcx, cx, which == "RQ"):
            return False
    if which == "AC" and back.result != 0:
        return False
    if len(back.user_information) != len(uis):
        return False
    for gu, u in zip(back.user_information, uis):
        if not (gu == u):
            return False
    # PDU level: the protocol-version field holds any 16-bit value
    pdu.protocol_version = pv
    return check_pdu(pdu, (which, pv) + value[2:], cls)


@harness(
    "C01", timeout=(90, 900),
    shards=[{"pdu": "RQ"}, {"pdu": "AC"}],
    functions=["pdu:A_ASSOCIATE_RQ.*", "pdu:A_ASSOCIATE_AC.*", "pdu:PDU._wrap_encode_str", "utils:set_ae/decode_bytes"],
    bounds="fixed part of A-ASSOCIATE-RQ/-AC: called AE title of every length in %s with a calling AE title of length 17 - that, "
           "application context / syntax UIDs of every length in %s, one presentation context, maximum-length sub-item with any "
           "32-bit value, protocol version any 16-bit value" % (ALENS if QUICK else "1..16", ULENS if QUICK else "1..64"),
    stubs=["strings are the fixed legal string of the enumerated length"],
    outside="AE title characters other than the pool's",
)
def assoc_header(alen: int, ulen: int, cid0: int, pv: int, a: int) -> bool:
    """
    pre: alen in ALENS and ulen in ULENS
    pre: 0 <= cid0 <= 127 and 0 <= pv <= 65535 and 0 <= a <= U32
    post: _ == True
    """
    which = _W
    alen, ulen = concrete(alen), concrete(ulen)
    prim, value, cxs, uis = build_assoc(which, alen, ulen, 1, 1, 0, 99, 2 * cid0 + 1, 3, 0, a, 0, 0, True, True, b"", b"")
    cls = P.A_ASSOCIATE_RQ if which == "RQ" else P.A_ASSOCIATE_AC
    pdu = cls(prim)
    pdu.protocol_version = pv
    value = (which, pv) + value[2:]
    if not check_pdu(pdu, value, cls):
        return False
    q = cls()
    q.decode(pdu.encode())
    back = q.to_primitive()
    return (back.called_ae_title == prim.called_ae_title and back.calling_ae_title == prim.calling_ae_title
            and back.application_context_name == prim.application_context_name
            and back.maximum_length_received == a)
