"""C15 - DIMSE fragmentation respects the peer's maximum length and reassembles exactly.

Real code: DIMSEMessage.encode_msg (in-memory and file-backed branch), DIMSEMessage._generate_pdv_fragments,
DIMSEMessage.decode_msg, P_DATA_TF.from_primitive / pdu_length / encode / decode / to_primitive,
PresentationDataValueItem.item_length, DIMSEServiceProvider.maximum_pdu_size / send_msg.

Harnesses
  frag_arith    sizes up to 2^40 / maxima up to 2^32-1 as solver constraints (Seg / Num stand-ins, exact ceil)
  frag_bytes    real (symbolic) byte content at small sizes, fragments regrouped into PDUs by a symbolic
                grouping, through the real P-DATA-TF encoder/decoder into the real decode_msg
  send_max      real DIMSEServiceProvider.send_msg of a real C-STORE request on a real Association whose peer
                announced the maximum length m: maximum_pdu_size, encode, fragmentation, PDU length
  lceil_lemma   the side lemma that justifies replacing float division (tools/lceil_lemma.py)
"""
import os
import sys
from typing import List

from vlib.shim import *  # noqa: F401,F403
from vlib.h import harness, tier, shard, THOROUGH
from vlib.stubs.num import (Cat, Num, Seg, SegFile, SegSink, exact_ceil, num_len, seg_len)
from vlib.stubs.pybuf import PyBytesIO

from pydicom.dataset import Dataset

import pynetdicom.dimse_messages as dm
import pynetdicom.pdu as pdu_mod
import pynetdicom.pdu_items as pdu_items_mod
from pynetdicom.dimse_messages import DIMSEMessage
from pynetdicom.pdu import P_DATA_TF
from pynetdicom.pdu_primitives import P_DATA

K = tier(4, 8)            # unwinding bound: fragments per part in frag_arith
BIG = 2 ** 40
MAXLEN = 2 ** 32 - 1
CID = 3                   # presentation context id used throughout

_MISSING = object()


class _Patched:
    """set module attributes for the duration of a harness call and restore them"""

    def __init__(self, *triples):
        self.triples = triples
        self.saved = []

    def __enter__(self):
        for mod, name, val in self.triples:
            self.saved.append((mod, name, mod.__dict__.get(name, _MISSING)))
            setattr(mod, name, val)
        return self

    def __exit__(self, *a):
        for mod, name, old in reversed(self.saved):
            if old is _MISSING:
                delattr(mod, name)
            else:
                setattr(mod, name, old)
        return False


class _Buf:
    """the `data_set` attribute of a message whose encoded data set is the abstract buffer `seg`"""

    def __init__(self, seg):
        self.seg = seg

    def getvalue(self):
        return self.seg


def _command_set(has_data_set):
    """what the (stubbed) command-set decoder hands to decode_msg: a C-STORE-RQ command set whose
    CommandDataSetType says whether data-set fragments follow"""
    cs = Dataset()
    cs.CommandField = 0x0001
    cs.CommandDataSetType = 0x0001 if has_data_set else 0x0101
    return cs


def _sent_as_specified(pdatas, c, n, off, m, backing, expect_ds):
    """The oracle for what encode_msg may emit (property statement + PS3.8 Annex E control header):
    one PDV per P-DATA; the P-DATA-TF PDU built from it by the real PDU classes is 4+1+1+fragment long and
    <= m unless m == 0; command fragments 01..01 03 covering C[0,c) contiguously, then (iff a data set is
    expected) data fragments 00..00 02 covering D[off, off+n); no empty fragment (except the single last
    fragment of an empty file-backed data set); nothing else."""
    ok = True
    parts = []        # (control byte, Seg)
    for p in pdatas:
        pdvs = p.presentation_data_value_list
        if len(pdvs) != 1:
            return False
        cid, data = pdvs[0]
        if cid != CID or not isinstance(data, Cat) or len(data.head) != 1:
            return False
        parts.append((data.head[0], data.seg))
        # the P-DATA-TF PDU built from this primitive by the real PDU classes
        tf = P_DATA_TF()
        tf.from_primitive(p)
        plen = tf.pdu_length
        ok = ok and (plen == 4 + 1 + 1 + data.seg.size())
        if m != 0:
            ok = ok and (plen <= m)

    # order, markers, coverage
    i = 0
    pos = 0
    while i < len(parts) and parts[i][0] == 0x01:
        s = parts[i][1]
        ok = ok and s.src == "C" and s.lo == pos and s.hi > s.lo
        pos = s.hi
        i += 1
    if i >= len(parts) or parts[i][0] != 0x03:
        return False
    s = parts[i][1]
    ok = ok and s.src == "C" and s.lo == pos and s.hi > s.lo and s.hi == c
    i += 1
    n_cmd = i
    if expect_ds:
        pos = off
        while i < len(parts) and parts[i][0] == 0x00:
            s = parts[i][1]
            ok = ok and s.src == "D" and s.lo == pos and s.hi > s.lo
            pos = s.hi
            i += 1
        if i >= len(parts) or parts[i][0] != 0x02:
            return False
        s = parts[i][1]
        # an empty file-backed data set is sent as one empty last fragment; otherwise no empty fragment
        nonempty = (s.hi > s.lo) or (backing == 2 and n == 0 and i == n_cmd)
        ok = ok and s.src == "D" and s.lo == pos and nonempty and s.hi == off + n
        i += 1
    ok = ok and i == len(parts)          # nothing after the last fragment / nothing for an empty data set
    return ok


# ---------------------------------------------------------------------------------------------
# A. arithmetic, sizes as solver constraints
# ---------------------------------------------------------------------------------------------
@harness(
    "C15",
    timeout=(120, 900),
    functions=["dimse_messages:DIMSEMessage.encode_msg", "dimse_messages:DIMSEMessage._generate_pdv_fragments",
               "dimse_messages:DIMSEMessage.decode_msg", "pdu:P_DATA_TF.from_primitive", "pdu:P_DATA_TF.pdu_length",
               "pdu_items:PresentationDataValueItem.item_length", "pdu_items:PDUItem.__len__"],
    bounds="command-set length c any int in [1, 2^40], data-set length n any int in [0, 2^40], file offset any int in "
           "[0, 2^20], maximum length m any int in {0} u [7, 2^32-1] (all solver-symbolic); data set absent / in memory / "
           "file-backed; at most K=%d fragments per part (unwinding bound: paths with more fragments are cut)" % K,
    stubs=["Num/Frac: len() of a buffer is an int stand-in whose '/' is exact; dimse_messages.ceil replaced by the exact "
           "case-split ceiling (justified by lemma L-ceil, harness lceil_lemma)",
           "Seg/Cat: buffers are abstract ranges [lo,hi) of the command set 'C' and the data set 'D' (content abstract)",
           "dimse_messages.encode stubbed: returns the abstract command set (pydicom's writer is not the subject)",
           "dimse_messages.decode stubbed: returns a C-STORE-RQ command set whose CommandDataSetType tells whether "
           "data-set fragments were sent (consistency of that flag is C16); records the buffer it is given",
           "dimse_messages.open stubbed by a Seg-backed read-only file object (seek/read)",
           "receiver buffers (encoded_command_set, data_set) are SegSink recorders instead of io.BytesIO"],
    outside="more than K fragments per part; maxima 1-6 and None; the float division itself (lemma L-ceil); "
            "STORE_RECV_CHUNKED_DATASET receive mode",
)
def frag_arith(c: int, n: int, off: int, m: int, backing: int) -> bool:
    """
    pre: 1 <= c <= BIG
    pre: 0 <= n <= BIG
    pre: 0 <= off <= 1048576
    pre: m == 0 or 7 <= m <= MAXLEN
    pre: 0 <= backing <= 2
    post: _ == True
    """
    with untraced():
        msg = DIMSEMessage()
        rcv = DIMSEMessage()
        rcv.encoded_command_set = SegSink()
        rcv.data_set = SegSink()
        decoded = []
        files = []
    if backing == 0:
        msg.data_set = None
        n = 0
    elif backing == 1:
        msg.data_set = _Buf(Seg("D", 0, n))
        off = 0
    else:
        msg.data_set = None
        msg._data_set_path = ("abstract-file", off)

    def fake_encode(ds, implicit, little, deflated=False):
        return Seg("C", 0, c)

    def fake_open(path, mode="r"):
        f = SegFile("D", off + n)
        files.append(f)
        return f

    expect_ds = (backing == 2) or (backing == 1 and n > 0)

    def fake_decode(buf, implicit, little, deflated=False):
        decoded.append(buf)
        return _command_set(expect_ds)

    with _Patched((dm, "ceil", exact_ceil(K)), (dm, "len", seg_len), (dm, "encode", fake_encode),
                  (dm, "decode", fake_decode), (dm, "open", fake_open),
                  (pdu_mod, "len", seg_len), (pdu_items_mod, "len", seg_len)):
        pdatas = list(msg.encode_msg(CID, m))

        if not _sent_as_specified(pdatas, c, n, off, m, backing, expect_ds):
            return False
        if backing == 2 and not (len(files) == 1 and files[0].closed):
            return False
        ok = True

        # reassembly by the real decoder, fragments delivered as sent (one PDV per P-DATA)
        for j, p in enumerate(pdatas):
            done = rcv.decode_msg(p)
            if done != (j == len(pdatas) - 1):
                return False
        ok = ok and len(decoded) == 1 and decoded[0].covers("C", c)
        ok = ok and rcv.context_id == CID
        if expect_ds:
            sink = rcv.data_set
            pos = off
            for s in sink.parts:
                ok = ok and s.src == "D" and s.lo == pos
                pos = s.hi
            ok = ok and pos == off + n
        else:
            ok = ok and rcv.data_set.parts == []
        return ok


# ---------------------------------------------------------------------------------------------
# B. real byte content, small sizes, symbolic regrouping into PDUs, real P-DATA-TF codec
# ---------------------------------------------------------------------------------------------
NB = tier(4, 5)                    # bytes per part
M_POOL = tier([0, 7, 8, 9], [0, 7, 8, 9, 10, 11, 12])


def _bytes_shards():
    return [{"m": m} for m in M_POOL]


@harness(
    "C15",
    shards=_bytes_shards,
    timeout=(300, 1200),
    functions=["dimse_messages:DIMSEMessage.encode_msg", "dimse_messages:DIMSEMessage._generate_pdv_fragments",
               "dimse_messages:DIMSEMessage.decode_msg", "pdu:P_DATA_TF.from_primitive", "pdu:P_DATA_TF.encode",
               "pdu:P_DATA_TF.decode", "pdu:P_DATA_TF.to_primitive", "pdu:P_DATA_TF.pdu_length"],
    bounds="command set: any 1..%d bytes, data set: absent or any 0..%d bytes (content and lengths solver-symbolic); "
           "maximum length m in %s (one shard each); the fragments are regrouped into P-DATA-TF PDUs by any grouping "
           "(one symbolic bool per gap between consecutive fragments)" % (NB, NB, M_POOL),
    stubs=["dimse_messages.len answers with a Num and dimse_messages.ceil is the exact case-split ceiling (lemma L-ceil)",
           "dimse_messages.encode / decode stubbed: the encoded command set IS the symbolic byte string; the decoder "
           "records the reassembled bytes and returns a C-STORE-RQ command set with the matching CommandDataSetType",
           "message buffers are PyBytesIO (io.BytesIO subclass holding a Python bytes value) so content stays symbolic"],
    outside="more than %d bytes per part; PDUs that mix fragments of different messages" % NB,
)
def frag_bytes(cmd: bytes, ds: bytes, has_ds: bool, cuts: List[bool]) -> bool:
    """
    pre: 1 <= len(cmd) <= NB
    pre: len(ds) <= NB
    pre: len(cuts) == 2 * NB
    post: _ == True
    """
    m = shard("m", 7)
    with untraced():
        msg = DIMSEMessage()
        rcv = DIMSEMessage()
        rcv.encoded_command_set = PyBytesIO()
        rcv.data_set = PyBytesIO()
        decoded = []
    msg.data_set = PyBytesIO(ds) if has_ds else None
    expect_ds = has_ds and len(ds) > 0

    def fake_encode(d, implicit, little, deflated=False):
        return cmd

    def fake_decode(buf, implicit, little, deflated=False):
        decoded.append(buf.getvalue())
        return _command_set(expect_ds)

    with _Patched((dm, "ceil", exact_ceil(NB)), (dm, "len", num_len), (dm, "encode", fake_encode),
                  (dm, "decode", fake_decode)):
        pdatas = list(msg.encode_msg(CID, m))
        # as sent: one PDV per PDU, PDU length within the maximum
        frags = []
        for p in pdatas:
            if len(p.presentation_data_value_list) != 1:
                return False
            tf = P_DATA_TF()
            tf.from_primitive(p)
            if m != 0 and tf.pdu_length > m:
                return False
            frags.append(p.presentation_data_value_list[0])
        if len(frags) - 1 > len(cuts):
            return False
        # regroup: cuts[i] == True closes a PDU after fragment i
        groups = [[]]
        for i, f in enumerate(frags):
            groups[-1].append(f)
            if i < len(frags) - 1 and cuts[i]:
                groups.append([])
        ok = True
        for j, g in enumerate(groups):
            prim = P_DATA()
            for f in g:
                prim.presentation_data_value_list.append(f)     # as encode_msg does
            wire = P_DATA_TF(prim).encode()                 # real encoder
            back = P_DATA_TF()
            back.decode(wire)                               # real decoder
            done = rcv.decode_msg(back.to_primitive())
            ok = ok and (done == (j == len(groups) - 1))
        ok = ok and len(decoded) == 1 and decoded[0] == cmd and rcv.context_id == CID
        ok = ok and rcv.data_set.getvalue() == (ds if expect_ds else b"")
        return ok


# ---------------------------------------------------------------------------------------------
# C. the maximum that send_msg uses is the PEER's, on a real Association
# ---------------------------------------------------------------------------------------------
import io

from pynetdicom import AE
from pynetdicom._globals import MODE_ACCEPTOR, MODE_REQUESTOR
from pynetdicom.association import Association
from pynetdicom.dimse_primitives import C_STORE

silence_loggers()


class _SegBytesIO(io.BytesIO):
    """a BytesIO (the primitive's setter insists on the type) whose value is the abstract data set"""

    def __init__(self, seg):
        super().__init__()
        self.seg = seg

    def getvalue(self):
        return self.seg


class _RecordingDUL:
    def __init__(self):
        self.sent = []

    def send_pdu(self, primitive):
        self.sent.append(primitive)


@harness(
    "C15",
    timeout=(300, 900),
    functions=["dimse:DIMSEServiceProvider.send_msg", "dimse:DIMSEServiceProvider.maximum_pdu_size",
               "association:ServiceUser.maximum_length", "dimse_messages:DIMSEMessage.primitive_to_message",
               "dimse_messages:DIMSEMessage.encode_msg", "dimse_messages:DIMSEMessage._generate_pdv_fragments",
               "pdu:P_DATA_TF.from_primitive", "pdu:P_DATA_TF.pdu_length"],
    bounds="a real Association as requestor or acceptor; own and peer maximum length any ints in {0} u [7, 2^32-1] "
           "(set through ServiceUser.maximum_length); a real C-STORE request primitive (concrete parameters) with an "
           "in-memory data set of any length n in [0, 2^40]; command-set length abstracted to any c in [1, 2^40]; "
           "at most K=%d fragments per part" % K,
    stubs=["as frag_arith, but the stand-ins are switched on only while the real encode_msg runs (primitive_to_message "
           "runs unmodified on real pydicom objects)",
           "assoc.dul replaced by a recorder of the P-DATA primitives handed to send_pdu (no socket, no threads)"],
    outside="the peer omitting the Maximum Length item (maximum_length None) or announcing 1-6: encode_msg raises",
)
def send_max(c: int, n: int, m_peer: int, m_own: int, requestor: bool, has_ds: bool) -> bool:
    """
    pre: 1 <= c <= BIG
    pre: 0 <= n <= BIG
    pre: m_peer == 0 or 7 <= m_peer <= MAXLEN
    pre: m_own == 0 or 7 <= m_own <= MAXLEN
    post: _ == True
    """
    with untraced():
        ae = AE()
        assoc = Association(ae, MODE_REQUESTOR if requestor else MODE_ACCEPTOR)
        dul = _RecordingDUL()
        assoc.dul = dul
        prim = C_STORE()
        prim.MessageID = 7
        prim.AffectedSOPClassUID = "1.2.840.10008.5.1.4.1.1.2"
        prim.AffectedSOPInstanceUID = "1.2.3.4"
        prim.Priority = 2
    # the peer is the acceptor when we are the requestor, and vice versa
    if requestor:
        assoc.acceptor.maximum_length = m_peer
        assoc.requestor.maximum_length = m_own
    else:
        assoc.requestor.maximum_length = m_peer
        assoc.acceptor.maximum_length = m_own
    if has_ds:
        prim.DataSet = _SegBytesIO(Seg("D", 0, n))
    else:
        n = 0
    real_encode_msg = DIMSEMessage.encode_msg

    def fake_encode(ds, implicit, little, deflated=False):
        return Seg("C", 0, c)

    def encode_msg_with_standins(self, context_id, max_pdu_length):
        with _Patched((dm, "ceil", exact_ceil(K)), (dm, "len", seg_len), (dm, "encode", fake_encode),
                      (pdu_mod, "len", seg_len), (pdu_items_mod, "len", seg_len)):
            yield from real_encode_msg(self, context_id, max_pdu_length)

    with _Patched((DIMSEMessage, "encode_msg", encode_msg_with_standins)):
        assoc.dimse.send_msg(prim, CID)
    with _Patched((pdu_mod, "len", seg_len), (pdu_items_mod, "len", seg_len)):
        return _sent_as_specified(dul.sent, c, n, 0, m_peer, 1 if has_ds else 0, has_ds and n > 0)


# ---------------------------------------------------------------------------------------------
# D. lemma L-ceil (engine 2): justifies the exact ceiling used above
# ---------------------------------------------------------------------------------------------
def _lemma_result():
    sys.path.insert(0, os.path.join(os.path.dirname(os.path.dirname(os.path.abspath(__file__))), "tools"))
    try:
        import lceil_lemma
    finally:
        sys.path.pop(0)
    res = lceil_lemma.run(("z3",), 60.0)
    if THOROUGH:
        other = lceil_lemma.run(("cvc5",), 120.0)
        if other["solvers"]["cvc5"]["lemma_query"] == "unavailable":
            alt = lceil_lemma.run_elsewhere(("cvc5",), 120.0)
            if alt is not None:
                other = alt
        res["solvers"].update(other["solvers"])
        avail = [e for e in res["solvers"].values() if e["lemma_query"] != "unavailable"]
        res["available"] = len(avail)
        res["contradicted"] = any(e["lemma_query"] == "sat" for e in avail)
        res["holds"] = bool(avail) and all(e.get("as_expected") for e in avail)
    return res, lceil_lemma.summary(res)


@harness(
    "C15",
    timeout=(120, 600),
    twin=False,
    functions=[],
    bounds="lemma L-ceil: for all integers 0 <= a <= 2^40, 1 <= b <= 2^32-1: math.ceil(a / b) is the exact ceiling "
           "(direct SMT query, tools/lceil_lemma.py; z3 in quick, z3 and cvc5 in thorough - cvc5 missing is reported, "
           "not an error)",
    stubs=["IEEE 754 round-to-nearest division modelled by its relative error bound 2^-53 with exact quotients unrounded "
           "(assumption; the bit-precise QF_BVFP query does not finish in either solver)"],
    outside="no pynetdicom code is executed by this obligation",
)
def lceil_lemma(unused: bool) -> bool:
    """
    post: _ == True
    """
    with untraced():
        res, line = _lemma_result()
        try:
            import json as _json
            ev = os.path.join(os.path.dirname(os.path.dirname(os.path.abspath(__file__))), "evidence", "aux")
            os.makedirs(ev, exist_ok=True)
            with open(os.path.join(ev, "C15-lceil.json"), "w") as f:
                _json.dump(res, f, indent=1)
        except OSError:
            pass
        print(line)
        return bool(res["holds"])


# when imported by the driver process (not by a CrossHair child), print the lemma's verdict with the check's output
_main_spec = getattr(sys.modules.get("__main__"), "__spec__", None)
if getattr(_main_spec, "name", None) == "vlib.run" and "VERIF_SHARD" not in os.environ:
    try:
        print(_lemma_result()[1], flush=True)
    except Exception as _e:  # reporting only - the deciding run is the lceil_lemma obligation
        print("L-ceil lemma: could not be run in the driver process: %r" % (_e,), flush=True)
