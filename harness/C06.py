"""C06 - both peers agree on how an association ended, and it always ends
(claimed at reactor-iteration granularity; OS pre-emption inside a step is outside the claim).

Part 1 (`cosim_*`): two real, established Associations (real DUL reactors, real state machines, real
AssociationSockets over a pipe pair) co-simulated in one thread (vlib/stubs/cosim.py); the solver
chooses the interleaving (schedule), the step at which a second user call starts, and the step at
which an ACSE timeout fires.

Part 2 (`side_*`): per-side kernels on one real Association whose `dul` is a scripted stand-in:
`ACSE.negotiate_release` (incl. collision branches), `Association._run_reactor` (release / abort /
dead-provider / idle-timeout branches) and `abort()/release()/kill()`.
"""
import queue
from typing import List

from vlib.shim import *  # noqa: F401,F403
from vlib.h import harness, tier, shard, excluded
from vlib.stubs import cosim

import pynetdicom.association as assoc_mod
from pynetdicom import AE, _config, build_context, evt
from pynetdicom.association import Association
from pynetdicom.pdu_primitives import A_ABORT, A_P_ABORT, A_RELEASE, A_ASSOCIATE

silence_loggers()

# ---------------------------------------------------------------------------------------------
# Part 1: two-sided co-simulation
# ---------------------------------------------------------------------------------------------
# scenario -> (first user action, second user action or None, who makes the second call)
SCENARIOS = {
    "release": ("release", None, None),
    "abort": ("abort", None, None),
    "release+peer-release": ("release", "release", "other"),
    "release+peer-abort": ("release", "abort", "other"),
    "abort+peer-abort": ("abort", "abort", "other"),
    "abort+peer-release": ("abort", "release", "other"),
    "abort+own-abort": ("abort", "abort", "same"),
    "release+drop": ("release", "drop", "same"),
    "abort+drop": ("abort", "drop", "same"),
    "release+own-abort": ("release", "abort", "same"),
}
SCEN = shard("scen", "release")
B_FIRST = bool(shard("b_first", 0))
FIRST, SECOND, WHO = SCENARIOS[SCEN]
L = tier(1, 3 if SECOND is None else 2)   # schedule length
AT_MAX = tier(10, 14)     # the second call starts after 0..AT_MAX scheduler steps
FIRE_MAX = tier(18, 24)
NTHREADS = 6

KF_RELEASE_RACE = "C06-release-after-peer-request"
KF_ABORT_IN_RELEASE = "C06-abort-during-release"
KF_ABORT_TWICE = "C06-abort-after-peer-abort"
KF_RELEASED_AND_ABORTED = "C06-released-and-aborted"


def _run_cosim(schedule, at, fire_at):
    """Execute one interleaving; returns the observation record."""
    with cosim.installed():
        with untraced():
            sim = cosim.Sim(budget=400)
            x, y = ("B", "A") if B_FIRST else ("A", "B")
            u1 = sim.add_user(x, FIRST, 0)
            u2 = None
        sim.schedule = list(schedule)
        sim.fire_at = fire_at
        if SECOND is not None:
            u2 = sim.add_user(x if WHO == "same" else y, SECOND, at)
        done = sim.drain()
        with untraced():
            obs = _observe(sim, done, u1, u2)
            sim.close()
    return obs


def _observe(sim, done, u1, u2):
    o = {"done": done, "budget_left": sim.budget, "fired": list(sim.fired), "trace": list(sim.trace)}
    for n, side in (("A", sim.A), ("B", sim.B)):
        a = side.assoc
        o[n] = {
            "released": a.is_released, "aborted": a.is_aborted, "established": a.is_established, "rejected": a.is_rejected,
            "terminal": side.terminal_events(), "state": side.state(), "closed": side.raw.closed,
            "dul_crash": repr(side.dul_thread.crash) if side.dul_thread.crash else None,
            "assoc_crash": repr(side.assoc_thread.crash) if side.assoc_thread.crash else None,
            "dul_done": side.dul_thread.done, "assoc_done": side.assoc_thread.done,
        }
    o["users"] = [(t.name, t.done, repr(t.crash) if t.crash else None) for t in sim.threads[4:]]
    o["sentinel"] = has_sentinel(sim.ab.log) or has_sentinel(sim.ba.log)
    # did the second call start while the first one was in progress?
    o["overlap"] = False
    if u2 is not None and u1.name in sim.trace and u2.name in sim.trace:
        i2 = sim.trace.index(u2.name)
        started1 = u1.name in sim.trace[:i2]
        # u1 was not finished when u2 started: it ran (or timed out) again later, or never finished
        later = [n for n in sim.trace[i2:] if n == u1.name or n == "timeout:" + u1.name]
        o["overlap"] = started1 and (bool(later) or not u1.done)
    return o


def _side_ok(s):
    """Exactly one terminal outcome, reported once, everything shut down."""
    one_flag = (s["released"] != s["aborted"]) and not s["established"] and not s["rejected"]
    want = ["EVT_RELEASED"] if s["released"] else ["EVT_ABORTED"]
    return (one_flag and s["terminal"] == want and s["state"] == "Sta1" and s["closed"]
            and s["dul_done"] and s["assoc_done"] and s["dul_crash"] is None and s["assoc_crash"] is None)


def _classify(o):
    """Name of the *listed* known finding this execution is an instance of, or None."""
    crashes = [o[n]["dul_crash"] for n in ("A", "B") if o[n]["dul_crash"]]
    if SCEN == "release+peer-release" and crashes and all("'Evt11' for the current state 'Sta8'" in c for c in crashes):
        # release() issued after the provider has read the peer's A-RELEASE-RQ but before the user
        # consumed the indication: Evt11 in Sta8 is undefined, the provider thread dies (same family as C05)
        return KF_RELEASE_RACE
    if SCEN == "release+own-abort" and o["overlap"]:
        return KF_ABORT_IN_RELEASE
    if SCEN in ("abort+peer-abort", "release+peer-abort", "abort+peer-release", "abort+drop", "release+drop"):
        # abort() called on an association that the peer's A-ABORT (or a lost connection) has already ended
        # fires EVT_ABORTED a second time; everything else must be in order
        bad = [n for n in ("A", "B") if o[n]["terminal"] == ["EVT_ABORTED", "EVT_ABORTED"]]
        if bad:
            fixed = {n: dict(o[n], terminal=["EVT_ABORTED"]) if n in bad else o[n] for n in ("A", "B")}
            if _verdict(dict(o, A=fixed["A"], B=fixed["B"])):
                return KF_ABORT_TWICE
    # a release() that completed while the peer's A-ABORT indication was already queued: the association reactor, woken
    # by kill(), still processes the indication - the side ends up released AND aborted, with both events
    both = [n for n in ("A", "B") if o[n]["released"] and o[n]["aborted"] and o[n]["terminal"] == ["EVT_RELEASED", "EVT_ABORTED"]]
    if both:
        fixed = {n: dict(o[n], aborted=False, terminal=["EVT_RELEASED"]) if n in both else o[n] for n in ("A", "B")}
        if _verdict(dict(o, A=fixed["A"], B=fixed["B"])):
            return KF_RELEASED_AND_ABORTED
    return None


def _verdict(o):
    if not o["done"] or o["sentinel"]:
        return False
    if any((not d) or c for (_, d, c) in o["users"]):
        return False
    a, b = o["A"], o["B"]
    if not (_side_ok(a) and _side_ok(b)):
        return False
    if a["released"] and b["released"]:
        return True
    if a["aborted"] and b["aborted"]:
        return True
    # one side released, the other aborted: only where the protocol cannot do better -
    # the connection was lost, an ACSE timeout fired on the aborted side, or the aborting side's own
    # user aborted while its release was already answered by the peer
    ab = "A" if a["aborted"] else "B"
    if SECOND == "drop":
        return True
    if any(name.startswith(ab + ".") for name in o["fired"]):
        return True
    if SCEN == "release+own-abort":
        return True
    return False


def cosim_check(schedule, at, fire_at):
    o = _run_cosim(schedule, at, fire_at)
    ok = _verdict(o)
    if not ok:
        k = _classify(o)
        if k == KF_ABORT_IN_RELEASE and excluded(k):
            # this finding covers the whole scenario; inside its region the part of the property that does
            # not depend on the two racing calls is still required: the peer ends orderly, exactly once
            x = "B" if B_FIRST else "A"
            peer = o["A" if x == "B" else "B"]
            mine = o[x]
            return _side_ok(peer) and mine["aborted"] and not mine["established"] and o["done"] is not None
        if k is not None and excluded(k):
            out_of_bounds()          # region of a listed known finding: excluded, everything else still checked
    return ok


def kf_class(shard_, schedule, at, fire_at):
    """Used by the `match` expressions of the known-finding entries (concrete replay)."""
    global SCEN, B_FIRST, FIRST, SECOND, WHO
    saved = (SCEN, B_FIRST, FIRST, SECOND, WHO)
    SCEN, B_FIRST = shard_.get("scen", "release"), bool(shard_.get("b_first", 0))
    FIRST, SECOND, WHO = SCENARIOS[SCEN]
    try:
        o = _run_cosim(schedule, at, fire_at)
        return None if _verdict(o) else _classify(o)
    finally:
        SCEN, B_FIRST, FIRST, SECOND, WHO = saved


_COSIM_FUNCS = ["association:Association.release", "association:Association.abort", "association:Association._abort_blocking",
                "association:Association.kill", "association:Association._run_reactor", "acse:ACSE.negotiate_release",
                "acse:ACSE.send_release", "acse:ACSE.send_abort", "acse:ACSE.is_release_requested", "acse:ACSE.is_aborted",
                "dul:DULServiceProvider.run_reactor", "dul:DULServiceProvider.stop_dul", "dul:DULServiceProvider.receive_pdu",
                "fsm:StateMachine.do_action", "fsm:AR_1..AR_10, AA_1..AA_8", "transport:AssociationSocket.ready/recv/send/close",
                "events:trigger"]
_COSIM_STUBS = ["vlib/stubs/cosim.py: pipe-pair sockets + select; Queue.get / time.sleep / Event.wait hand over to a scheduler; "
                "each pynetdicom thread is a greenlet of the one harness thread; scheduling points = top of a provider iteration, "
                "_reactor_checkpoint.wait(), blocking Queue.get, time.sleep; code between two scheduling points is atomic",
                "both associations are constructed directly in the established state (Sta6, one accepted context); timers read a "
                "frozen simulation clock; an ACSE timeout fires when nothing else can run or at the symbolic step fire_at",
                "user actions: release(), abort(), connection loss; no DIMSE traffic"]


@harness(
    "C06",
    timeout=(200, 3000),
    shards=[{"scen": s, "b_first": b} for s in SCENARIOS for b in (0, 1)],
    functions=_COSIM_FUNCS,
    bounds="per scenario (shard: which user call is made first by which side, which second call / connection loss): every "
           "schedule prefix of length <= %d over the 6 threads (then round robin), the second call starting after any of "
           "0..%d scheduler steps; ACSE timeouts fire only when nothing else can run" % (L, AT_MAX),
    stubs=_COSIM_STUBS,
    outside="pre-emption inside a reactor iteration / between two blocking points of a user call; association negotiation and "
            "DIMSE traffic; two user threads releasing the same association; wall-clock timing; leftover OS threads",
    findings=[KF_RELEASE_RACE, KF_ABORT_IN_RELEASE, KF_ABORT_TWICE, KF_RELEASED_AND_ABORTED],
)
def cosim_outcomes(schedule: List[int], at: int) -> bool:
    """
    pre: len(schedule) <= L and all(0 <= c < NTHREADS for c in schedule)
    pre: 0 <= at <= AT_MAX
    pre: SECOND is not None or at == 0
    post: _ == True
    """
    return cosim_check(schedule, at, -1)


LT = tier(0, 1)


@harness(
    "C06",
    timeout=(200, 3000),
    shards=[{"scen": s, "b_first": b} for s in SCENARIOS if SCENARIOS[s][0] == "release" or SCENARIOS[s][1] == "release"
            for b in (0, 1)],
    functions=_COSIM_FUNCS,
    bounds="scenarios with a release(): an ACSE timeout fires at any of the scheduler steps 1..%d although the peer could still "
           "answer (timeout racing the answer); second call starting after any of 0..%d steps; schedule prefix of length <= %d"
           % (FIRE_MAX, AT_MAX, LT),
    stubs=_COSIM_STUBS,
    outside="as cosim_outcomes",
    findings=[KF_RELEASE_RACE, KF_ABORT_IN_RELEASE, KF_ABORT_TWICE, KF_RELEASED_AND_ABORTED],
)
def cosim_timeout_race(schedule: List[int], at: int, fire_at: int) -> bool:
    """
    pre: len(schedule) <= LT and all(0 <= c < NTHREADS for c in schedule)
    pre: 0 <= at <= AT_MAX
    pre: 1 <= fire_at <= FIRE_MAX
    pre: SECOND is not None or at == 0
    post: _ == True
    """
    return cosim_check(schedule, at, fire_at)


# ---------------------------------------------------------------------------------------------
# Part 2: per-side kernels (one real Association, scripted provider)
# ---------------------------------------------------------------------------------------------
TIMEOUT, REL_RQ, REL_RP, ABORT, P_ABORT = 0, 1, 2, 3, 4


def _prim(code):
    if code == REL_RQ:
        return A_RELEASE()
    if code == REL_RP:
        p = A_RELEASE()
        p.result = "affirmative"
        return p
    if code == ABORT:
        p = A_ABORT()
        p.abort_source = 0
        return p
    if code == P_ABORT:
        p = A_P_ABORT()
        p.provider_reason = 0
        return p
    return None


class ScriptDUL:
    """Neighbour of the kernels: records what is handed to the provider, hands out scripted indications.
    Contains no protocol logic."""

    def __init__(self, assoc):
        self.assoc = assoc
        self.sent = []
        self.to_user_queue = queue.Queue()
        self.script = []          # indications delivered by blocking receive_pdu calls, in order
        self.recv_calls = []      # (wait, timeout) of every receive_pdu call
        self.alive = True
        self.idle_expired = False
        self.kills = 0
        self.socket = None
        self.spins = 0

    def send_pdu(self, p):
        self.sent.append(p)

    def peek_next_pdu(self):
        try:
            return self.to_user_queue.queue[0]
        except IndexError:
            return None

    def receive_pdu(self, wait=False, timeout=None):
        self.recv_calls.append((wait, timeout))
        if not self.to_user_queue.empty():
            p = self.to_user_queue.get(False)
        elif wait and self.script:
            p = _prim(self.script.pop(0))
        else:
            p = None
        if p is not None:
            evt.trigger(self.assoc, evt.EVT_ACSE_RECV, {"primitive": p})
        return p

    def is_alive(self):
        return self.alive

    def stop_dul(self):
        self.alive = False
        return True

    def kill_dul(self):
        self.alive = False

    def idle_timer_expired(self):
        return self.idle_expired


class _Sock:
    def _shutdown_socket(self):
        pass


class _NoSleep:
    def sleep(self, s):
        return None

    def __getattr__(self, n):
        import time
        return getattr(time, n)


def _make_side(is_requestor):
    """Real Association in the established state with a ScriptDUL (heavy, concrete: call untraced)."""
    _config_saved = _config.LOG_HANDLER_LEVEL
    _config.LOG_HANDLER_LEVEL = "none"
    try:
        ae = AE()
        ae.add_supported_context(cosim.VERIFICATION)
        assoc = Association(ae, "requestor" if is_requestor else "acceptor")
    finally:
        _config.LOG_HANDLER_LEVEL = _config_saved
    dul = ScriptDUL(assoc)
    assoc.dul = dul
    dul.socket = _Sock()
    cx = build_context(cosim.VERIFICATION, "1.2.840.10008.1.2")
    cx.context_id, cx.result, cx._as_scu, cx._as_scp = 1, 0, True, True
    assoc._accepted_cx = {1: cx}
    assoc.is_established = True
    log = []
    for e in (evt.EVT_RELEASED, evt.EVT_ABORTED, evt.EVT_REJECTED):
        assoc.bind(e, lambda ev, n=e.name: log.append(n))
    return assoc, dul, log


def _kinds(sent):
    out = []
    for p in sent:
        if isinstance(p, A_RELEASE):
            out.append(REL_RQ if p.result is None else REL_RP)
        elif isinstance(p, A_ABORT):
            out.append(ABORT)
        elif isinstance(p, A_P_ABORT):
            out.append(P_ABORT)
        else:
            out.append(-1)
    return out


def _release_oracle(is_requestor, seq):
    """PS3.8 7.2.2 (A-RELEASE, incl. 7.2.2.7 collision: the association-requestor answers the peer's
    request at once and then awaits the response; the acceptor first awaits the requestor's response and
    only then answers) + the property: a missing answer ends in an abort by the local side."""
    sent, collision, consumed = [REL_RQ], False, 0
    for x in list(seq) + [TIMEOUT]:
        consumed += 1
        if x == TIMEOUT:
            return sent + [ABORT], "aborted", consumed
        if x == ABORT or x == P_ABORT:
            return sent, "aborted", consumed
        if x == REL_RQ:
            collision = True
            if is_requestor:
                sent = sent + [REL_RP]
            continue
        if x == REL_RP:
            if collision and not is_requestor:
                sent = sent + [REL_RP]
            return sent, "released", consumed
    raise AssertionError


NSEQ = tier(3, 4)
NARR = tier(2, 3)


@harness(
    "C06",
    timeout=(120, 900),
    functions=["acse:ACSE.negotiate_release", "acse:ACSE.send_release", "acse:ACSE.send_abort", "association:Association.kill",
               "events:trigger"],
    bounds="role requestor/acceptor; the provider hands <= %d indications from {timeout, A-RELEASE request, A-RELEASE response, "
           "A-ABORT, A-P-ABORT} to negotiate_release (at most one A-RELEASE request - PS3.8 allows no second one), then times out"
           % NSEQ,
    stubs=["assoc.dul is a ScriptDUL (records send_pdu, hands out the scripted indications, no protocol logic); "
           "pynetdicom.association.time.sleep is a no-op; ACSE timeout 30"],
    outside="how the indications come about (provider / state machine: C04, C05, co-simulation above)",
)
def side_negotiate_release(is_requestor: bool, seq: List[int]) -> bool:
    """
    pre: len(seq) <= NSEQ and all(0 <= x <= 4 for x in seq)
    pre: len([x for x in seq if x == 1]) <= 1
    post: _ == True
    """
    req = True if is_requestor else False
    with untraced():
        assoc, dul, log = _make_side(req)
    saved = assoc_mod.time
    assoc_mod.time = _NoSleep()
    try:
        dul.script = list(seq)
        assoc.acse.negotiate_release()
        want_sent, want_outcome, consumed = _release_oracle(req, seq)
        ok = _kinds(dul.sent) == want_sent
        ok = ok and len(dul.recv_calls) == consumed and all(c == (True, 30) for c in dul.recv_calls)
        ok = ok and (assoc.is_released == (want_outcome == "released")) and (assoc.is_aborted == (want_outcome == "aborted"))
        ok = ok and not assoc.is_established and assoc._kill and not dul.alive
        ok = ok and log == (["EVT_RELEASED"] if want_outcome == "released" else ["EVT_ABORTED"])
        return ok
    finally:
        assoc_mod.time = saved


class _Gate:
    """`_reactor_checkpoint` stand-in: before iteration i the environment delivers arrivals[i]; after the last one the
    loop gets IDLE further iterations, then the harness stops it."""

    class Stop(Exception):
        pass

    def __init__(self, dul, arrivals, idle):
        self.dul, self.arrivals, self.idle, self.i = dul, arrivals, idle, 0

    def wait(self, *a):
        if self.i < len(self.arrivals):
            p = _prim(self.arrivals[self.i])
            if p is not None:
                self.dul.to_user_queue.put(p)
        elif self.i >= len(self.arrivals) + self.idle:
            raise _Gate.Stop()
        self.i += 1

    def set(self):
        pass

    def clear(self):
        pass


@harness(
    "C06",
    timeout=(120, 900),
    functions=["association:Association._run_reactor", "acse:ACSE.is_release_requested", "acse:ACSE.is_aborted",
               "acse:ACSE.send_release", "association:Association.kill", "association:Association._abort_blocking",
               "events:trigger"],
    bounds="role; <= %d reactor iterations, before each of which one of {nothing, A-RELEASE request, A-RELEASE response, A-ABORT, "
           "A-P-ABORT} is queued by the provider; provider thread dead / idle timer expired from a symbolic iteration on" % NARR,
    stubs=["assoc.dul is a ScriptDUL; _reactor_checkpoint is a gate object that delivers the arrivals and stops the real loop "
           "after the bound; no DIMSE message queued; time.sleep no-op"],
    outside="a stray A-RELEASE response while idle (cannot be produced by the provider in Sta6) is only required not to stop the loop",
)
def side_reactor(is_requestor: bool, arrivals: List[int], dead_from: int, idle_from: int) -> bool:
    """
    pre: len(arrivals) <= NARR and all(0 <= x <= 4 for x in arrivals)
    pre: 0 <= dead_from <= 4 and 0 <= idle_from <= 4
    post: _ == True
    """
    req = True if is_requestor else False
    with untraced():
        assoc, dul, log = _make_side(req)
        gate = _Gate(dul, [], 2)
        assoc._reactor_checkpoint = gate
    gate.arrivals = list(arrivals)
    saved = assoc_mod.time
    assoc_mod.time = _NoSleep()

    # the environment flips the provider flags when the reactor reaches the given iteration
    orig_wait = gate.wait

    def wait(*a):
        if gate.i >= dead_from:
            dul.alive = False
        if gate.i >= idle_from:
            dul.idle_expired = True
        return orig_wait(*a)

    gate.wait = wait
    stopped = False
    try:
        try:
            assoc._run_reactor()
        except _Gate.Stop:
            stopped = True
        # reference: what the first decisive thing is, iteration by iteration
        want, at = None, None
        for i in range(len(arrivals) + 2):
            x = arrivals[i] if i < len(arrivals) else TIMEOUT
            if x == REL_RQ:
                want, at = "released", i
            elif x == ABORT or x == P_ABORT:
                want, at = "aborted-by-peer", i
            elif i >= dead_from:
                want, at = "provider-dead", i
            elif i >= idle_from:
                want, at = "idle-abort", i
            if want is not None:
                break
            if x == REL_RP:
                break                    # stray response while idle: outside (see `outside`)
        if want is None:
            return True if (stopped or assoc._kill) else False
        sent = _kinds(dul.sent)
        ok = (not stopped) and assoc._kill and not assoc.is_established
        if want == "released":
            ok = ok and sent == [REL_RP] and assoc.is_released and not assoc.is_aborted and log == ["EVT_RELEASED"]
        elif want == "aborted-by-peer":
            ok = ok and sent == [] and assoc.is_aborted and not assoc.is_released and log == ["EVT_ABORTED"]
        elif want == "idle-abort":
            ok = ok and sent == [ABORT] and assoc.is_aborted and not assoc.is_released and log == ["EVT_ABORTED"]
            ok = ok and dul.sent[0].abort_source == 0
        else:
            ok = ok and sent == [] and log == []
        return ok
    finally:
        assoc_mod.time = saved


OPS_RELEASE, OPS_ABORT, OPS_ABORT_NB, OPS_KILL = 0, 1, 2, 3
NOPS = tier(3, 4)


@harness(
    "C06",
    timeout=(150, 1200),
    functions=["association:Association.release", "association:Association.abort", "association:Association._abort_blocking",
               "association:Association._abort_nonblocking", "association:Association.kill", "acse:ACSE.negotiate_release"],
    bounds="role; <= %d user calls in sequence from {release, abort, abort(block=False), kill}; the provider answers a release with "
           "a symbolic script of <= 2 indications (then timeout)" % NOPS,
    stubs=["assoc.dul is a ScriptDUL; the association reactor is parked (`_is_paused` True); time.sleep no-op"],
    outside="calls racing each other (co-simulation above)",
    findings=[KF_ABORT_TWICE],
)
def side_user_calls(is_requestor: bool, ops: List[int], seq: List[int]) -> bool:
    """
    pre: len(ops) <= NOPS and all(0 <= o <= 3 for o in ops)
    pre: len(seq) <= 2 and all(0 <= x <= 4 for x in seq)
    pre: len([x for x in seq if x == 1]) <= 1
    post: _ == True
    """
    req = True if is_requestor else False
    with untraced():
        assoc, dul, log = _make_side(req)
        assoc._is_paused = True
    saved = assoc_mod.time
    assoc_mod.time = _NoSleep()
    try:
        dul.script = list(seq)
        outcome = None            # reference: the first call that ends the association decides
        for o in ops:
            if o == OPS_RELEASE:
                if outcome is None:
                    outcome = _release_oracle(req, seq)[1]
                assoc.release()
            elif o == OPS_ABORT:
                if outcome is None:
                    outcome = "aborted"
                assoc.abort()
            elif o == OPS_ABORT_NB:
                if outcome is None:
                    outcome = "aborted"
                assoc.abort(block=False)
            else:
                if outcome is None:
                    outcome = "killed"
                assoc.kill()
        sent = _kinds(dul.sent)
        n_abort = len([k for k in sent if k == ABORT])
        ok = n_abort <= 1                                    # at most one A-ABORT is handed to the provider
        if outcome is None:
            return ok and assoc.is_established and log == [] and sent == []
        ok = ok and not assoc.is_established
        if outcome == "released":
            ok = ok and assoc.is_released and not assoc.is_aborted and log == ["EVT_RELEASED"] and n_abort == 0
        elif outcome == "aborted":
            ok = ok and assoc.is_aborted and not assoc.is_released and log == ["EVT_ABORTED"]
        else:
            # kill() is not a protocol outcome; a later abort() may still announce itself, once
            ok = ok and not assoc.is_released and len(log) <= 1
        if not ok and excluded(KF_ABORT_TWICE) and _abort_after_end(ops, outcome):
            out_of_bounds()
        return ok
    finally:
        assoc_mod.time = saved


class _WakeGate:
    """`_reactor_checkpoint` stand-in for a PARKED reactor (the user abandoned a response iterator, or a send_* call
    is in progress): `set()` wakes the reactor and the woken reactor thread is scheduled right there - it runs the
    real `_run_reactor` loop body until it parks again in `wait()` or leaves the loop.  This is the pre-emption
    point that matters for calls that wake the reactor before they have finished their own bookkeeping."""

    class Park(Exception):
        pass

    def __init__(self, assoc):
        self.assoc, self.flag, self.in_reactor, self.ran, self.waits = assoc, False, False, 0, 0

    def clear(self):
        self.flag = False

    def is_set(self):
        return self.flag

    def wait(self, *a):
        self.waits += 1
        if self.waits > 1:
            raise _WakeGate.Park()      # back at the top of the loop: parked again (nothing else wakes it here)

    def set(self):
        self.flag = True
        if self.in_reactor or self.ran or self.assoc._kill:
            return
        self.in_reactor, self.ran = True, 1
        try:
            self.assoc._run_reactor()
        except _WakeGate.Park:
            pass
        finally:
            self.in_reactor = False


@harness(
    "C06",
    timeout=(60, 300),
    functions=["association:Association.abort", "association:Association._abort_blocking",
               "association:Association._abort_nonblocking", "association:Association.release",
               "association:Association._run_reactor", "association:Association.kill"],
    bounds="role; one user call (abort, abort(block=False), release) on an association whose reactor is parked at its "
           "checkpoint; when the call wakes the reactor, the reactor thread runs at once (one pass of the real loop) and may "
           "find the network idle timer expired and/or the provider thread dead (symbolic bools)",
    stubs=["assoc.dul is a ScriptDUL; _reactor_checkpoint is a wake gate that runs the real _run_reactor loop body at the "
           "moment set() is called - or only after the user call has returned (late_pass); time.sleep no-op",
           "optionally the peer's A-RELEASE request / A-ABORT indication is already queued for the association"],
    outside="pre-emption at other points of the user call (co-simulation above)",
)
def user_call_wakes_reactor(is_requestor: bool, op: int, idle_expired: bool, provider_dead: bool, seq: List[int],
                            queued: int, late_pass: bool) -> bool:
    """
    pre: 0 <= op <= 2
    pre: len(seq) <= 1 and all(0 <= x <= 4 for x in seq)
    pre: 0 <= queued <= 2
    post: _ == True
    """
    req = True if is_requestor else False
    with untraced():
        assoc, dul, log = _make_side(req)
        assoc._is_paused = True
        gate = _WakeGate(assoc)
        assoc._reactor_checkpoint = gate
    dul.idle_expired = True if idle_expired else False
    dul.alive = False if provider_dead else True
    dul.script = list(seq)
    if queued == 1:
        dul.to_user_queue.put(_prim(REL_RQ))      # the peer's release request is already waiting to be consumed
    elif queued == 2:
        dul.to_user_queue.put(_prim(ABORT))
    if late_pass:
        gate.ran = 1                              # the woken reactor only gets to run after the user call returned
    saved = assoc_mod.time
    assoc_mod.time = _NoSleep()
    try:
        if op == 0:
            assoc.abort()
        elif op == 1:
            assoc.abort(block=False)
        else:
            assoc.release()
        if late_pass and not assoc._kill:
            gate.ran, gate.waits = 0, 0
            gate.set()
        sent = _kinds(dul.sent)
        if ABORT in sent and any(k == REL_RP or k == REL_RQ for k in sent[sent.index(ABORT) + 1:]):
            return False                          # nothing may follow the A-ABORT the local side handed to the provider
        n_abort = len([k for k in sent if k == ABORT])
        # one terminal outcome, announced once, and at most one A-ABORT handed to the provider
        ok = n_abort <= 1 and len(log) <= 1 and not assoc.is_established
        ok = ok and not (assoc.is_released and assoc.is_aborted)
        if op != 2:
            ok = ok and assoc.is_aborted and log == ["EVT_ABORTED"]
        return ok
    finally:
        assoc_mod.time = saved


class _ReactorEndsWhileWaiting:
    """pynetdicom.association.time stand-in for a user call that waits for the reactor: the first time the call
    sleeps, the running reactor thread (just past its checkpoint) gets to run and ENDS - the peer's A-ABORT indication
    is queued and one pass of the REAL Association._run_reactor processes it (flags, event, kill()).  Afterwards
    nothing else runs: a wait that does not end within a few more sleeps never ends."""

    class Hang(Exception):
        pass

    def __init__(self, assoc, dul):
        self.assoc, self.dul, self.n, self.busy = assoc, dul, 0, False

    def sleep(self, s):
        if self.busy:
            return
        self.n += 1
        if self.n == 1:
            self.busy = True
            try:
                gate = _WakeGate(self.assoc)
                gate.ran = 1                               # set() must not re-enter the reactor
                saved = self.assoc._reactor_checkpoint
                was_cleared = not saved.is_set()
                self.assoc._reactor_checkpoint = gate
                self.dul.to_user_queue.put(_prim(ABORT))
                try:
                    self.assoc._run_reactor()
                except _WakeGate.Park:
                    pass
                finally:
                    self.assoc._reactor_checkpoint = saved
                    if gate.flag and was_cleared:
                        saved.set()                        # kill() releases the checkpoint
            finally:
                self.busy = False
        elif self.n > 20:
            raise _ReactorEndsWhileWaiting.Hang()

    def __getattr__(self, n):
        import time
        return getattr(time, n)


@harness(
    "C06",
    timeout=(60, 300),
    functions=["association:Association.release", "association:Association.abort", "association:Association.kill",
               "association:Association._run_reactor", "acse:ACSE.negotiate_release"],
    bounds="role; a user call (release / abort) that has passed its is_established check and waits for the reactor to park, "
           "while the running reactor ends because of a peer abort (one pass of the real _run_reactor incl. the real kill() "
           "runs at the first sleep of the wait): the call returns instead of waiting for ever",
    stubs=["assoc.dul is a ScriptDUL; pynetdicom.association.time replaced by a stand-in whose first sleep() runs the "
           "reactor pass and whose 20th sleep() reports a hang"],
    outside="other points at which the reactor may end; which outcome is reported when release() races a peer abort "
            "(co-simulation)",
)
def user_call_while_reactor_ends(is_requestor: bool, op: int, seq: List[int]) -> bool:
    """
    pre: 0 <= op <= 1
    pre: len(seq) <= 1 and all(0 <= x <= 4 for x in seq)
    post: _ == True
    """
    req = True if is_requestor else False
    with untraced():
        assoc, dul, log = _make_side(req)
        assoc._is_paused = False          # the reactor is running
    dul.script = list(seq)
    saved = assoc_mod.time
    assoc_mod.time = _ReactorEndsWhileWaiting(assoc, dul)
    try:
        try:
            if op == 0:
                assoc.release()
            else:
                assoc.abort()
        except _ReactorEndsWhileWaiting.Hang:
            return False                  # the call waits for ever for a reactor that has already ended
        return not assoc.is_established
    finally:
        assoc_mod.time = saved


def kf_user_calls(is_requestor, ops, seq):
    """`match` helper of the known-finding entry (concrete replay)."""
    outcome = None
    for o in ops:
        if outcome is None:
            outcome = {OPS_RELEASE: _release_oracle(is_requestor, seq)[1], OPS_ABORT: "aborted", OPS_ABORT_NB: "aborted",
                       OPS_KILL: "killed"}[o]
    return _abort_after_end(ops, outcome)


def _abort_after_end(ops, outcome):
    """Region of the listed finding: an abort() call made after the association was already aborted by a
    release that failed (peer abort / timeout)."""
    if outcome != "aborted":
        return False
    seen_release = False
    for o in ops:
        if o == OPS_RELEASE:
            seen_release = True
        elif o in (OPS_ABORT, OPS_ABORT_NB):
            return seen_release
    return False


# ---------------------------------------------------------------------------------------------
# end-to-end reproducer (two real AEs on localhost, real threads, no stub) for the duplicate EVT_ABORTED
# ---------------------------------------------------------------------------------------------
def _e2e_abort_twice(args, shard_):
    import time

    ae = AE()
    ae.add_supported_context(cosim.VERIFICATION)
    ae.add_requested_context(cosim.VERIFICATION)
    ae.acse_timeout = ae.dimse_timeout = ae.network_timeout = 3

    def echo(event):
        event.assoc.abort()
        return 0

    srv = ae.start_server(("127.0.0.1", 0), block=False, evt_handlers=[(evt.EVT_C_ECHO, echo)])
    try:
        port = srv.socket.getsockname()[1]
        fired = []
        assoc = ae.associate("127.0.0.1", port, evt_handlers=[(evt.EVT_ABORTED, lambda e: fired.append(1))])
        assoc.send_c_echo()               # the peer aborts
        time.sleep(0.5)
        before = len(fired)
        assoc.abort()                     # the user aborts an association that is already aborted
        after = len(fired)
    finally:
        srv.shutdown()
    return after > 1, "peer aborted: EVT_ABORTED fired %d time(s); after a local abort() on the same association: %d" % (before, after)


from vlib.h import REGISTRY  # noqa: E402

if "side_user_calls" in REGISTRY:
    REGISTRY["side_user_calls"].e2e = _e2e_abort_twice


# ---------------------------------------------------------------------------------------------
# Part 1b: co-simulation including association negotiation (vlib/stubs/cosim_neg.py)
# ---------------------------------------------------------------------------------------------
from vlib.stubs import cosim_neg  # noqa: E402

NEG_SCEN = {
    # name -> (user script of the requestor A, acceptor rejects?)
    "associate+release": ("associate+release", False),
    "associate+abort": ("associate+abort", False),
    "associate-rejected": ("associate", True),
}
NSCEN = shard("neg", "associate+release")
LN = tier(1, 2)
FIRE_NEG = tier(24, 30)
PRODUCT = tier(False, True)      # thorough: schedule prefixes x early timeouts; quick: one of the two at a time


def _run_neg(schedule, fire_at):
    script, reject = NEG_SCEN[NSCEN]
    with cosim_neg.installed():
        with untraced():
            sim = cosim_neg.NegSim(budget=600, reject=reject)
            sim.add_user("A", script, 0)
        sim.schedule = list(schedule)
        sim.fire_at = fire_at
        done = sim.drain()
        with untraced():
            o = _observe(sim, done, sim.threads[4], None)
            for n, side in (("A", sim.A), ("B", sim.B)):
                o[n]["events"] = list(side.events)
            sim.close()
    return o


def _neg_side_ok(s, is_requestor):
    flags = [s["released"], s["aborted"], s["rejected"]]
    n = len([f for f in flags if f])
    base = (not s["established"] and s["state"] == "Sta1" and s["closed"] and s["dul_done"] and s["assoc_done"]
            and s["dul_crash"] is None and s["assoc_crash"] is None)
    if not base or n > 1:
        return False
    was_established = "EVT_ESTABLISHED" in s["events"]
    if n == 0:
        # no outcome at all: only an acceptor whose association never got established
        return (not is_requestor) and (not was_established) and s["terminal"] == []
    want = ["EVT_RELEASED"] if s["released"] else (["EVT_ABORTED"] if s["aborted"] else ["EVT_REJECTED"])
    if s["released"] and not was_established:
        return False
    return s["terminal"] == want and len([e for e in s["events"] if e == "EVT_ESTABLISHED"]) <= 1


def _neg_verdict(o):
    if not o["done"] or o["sentinel"] or any((not d) or c for (_, d, c) in o["users"]):
        return False
    a, b = o["A"], o["B"]
    if not (_neg_side_ok(a, True) and _neg_side_ok(b, False)):
        return False
    if a["released"] and b["released"]:
        return True
    if a["rejected"] and b["rejected"]:
        return True
    if a["aborted"] and (b["aborted"] or not (b["released"] or b["rejected"])):
        return True
    if b["aborted"] and a["aborted"]:
        return True
    # released on one side, aborted on the other: only if an ACSE timeout fired on the aborted side
    ab = "A" if a["aborted"] else ("B" if b["aborted"] else None)
    if ab is not None and any(name.startswith(ab + ".") for name in o["fired"]):
        return True
    return False


@harness(
    "C06",
    timeout=(200, 3000),
    shards=[{"neg": s} for s in NEG_SCEN],
    functions=_COSIM_FUNCS + ["association:Association.request", "association:Association.run_reactor",
                              "acse:ACSE._negotiate_as_requestor", "acse:ACSE._negotiate_as_acceptor", "acse:ACSE.send_request",
                              "acse:ACSE.send_accept", "acse:ACSE.send_reject", "transport:AssociationSocket.connect",
                              "fsm:AE_1..AE_8"],
    bounds="both sides start idle; the requestor's user associates and then releases / aborts, or the acceptor rejects (called AE "
           "title not recognised) (shard); schedule prefix of length <= %d over the 5 threads, an ACSE timeout firing early at any "
           "of the steps 1..%d or only when nothing else can run (a prefix or an early timeout, not both)" % (LN, FIRE_NEG),
    stubs=_COSIM_STUBS + ["vlib/stubs/cosim_neg.py: accepted connection = Evt5 queued at the acceptor; requestor's dul.start() "
                          "suppressed; pynetdicom.transport.socket replaced by sock8's fake module (no name resolution); one "
                          "presentation context (Verification / Implicit VR LE)"],
    outside="user calls of the acceptor side while the negotiation is in progress (abort() there hits the undefined-event family "
            "recorded under C05); extended negotiation items; DIMSE traffic",
)
def cosim_negotiation(schedule: List[int], fire_at: int) -> bool:
    """
    pre: len(schedule) <= LN and all(0 <= c < 5 for c in schedule)
    pre: -1 <= fire_at <= FIRE_NEG and fire_at != 0
    pre: len(schedule) == 0 or fire_at == -1
    post: _ == True
    """
    # A schedule prefix is NOT combined with an early ACSE timeout here (the first thorough run did, and reported the
    # acceptor's association thread giving up before the A-ASSOCIATE-RQ had arrived: kill() then waits for the provider
    # to leave Sta2, which only the ARTIM timer does - and the co-simulation clock is frozen, ARTIM expiry is not
    # modelled (stated assumption; ARTIM is C05 / C08 / C09).  That combination is outside this harness.)
    return _neg_verdict(_run_neg(schedule, fire_at))
