"""C17 - DIMSE primitives survive conversion to command sets and back; command field values per PS3.7.

primitive --primitive_to_message--> message --encode_msg--> P-DATA ... --decode_msg--> message
          --message_to_primitive--> primitive'

Real code: DIMSEMessage.primitive_to_message / _set_command_group_length / encode_msg / decode_msg /
message_to_primitive, the table lookups _COMMAND_SET_KEYWORDS / _MESSAGE_TYPES / _DATASET_KEYWORDS /
_MSG_TO_PRIMITIVE, the dimse_primitives setters, dsutils.encode / decode (pydicom) for the command set.

Oracle: spec/ps37_dimse.py - command field codes (PS3.7 Table E.1-1), fields of each of the 23 messages
(PS3.7 9.3 / 10.3 tables + Annex C status related fields), request/response direction, and an independent
Implicit-VR-Little-Endian parser that reads the command set actually put on the wire.
"""
from typing import List

from vlib.shim import *  # noqa: F401,F403
from vlib.h import harness, tier, shard, THOROUGH

from spec import ps37_dimse as spec
from vlib.stubs.pybuf import PyBytesIO

import pynetdicom.dimse_messages as dm
from pynetdicom.dimse_messages import DIMSEMessage
from vlib.stubs.wire16 import SERVICE_CLASS

silence_loggers()

CID = 5
MAX_PDU = 70               # the command set is split into several fragments

_UIDS = ("1.2.840.10008.1.1", "1.2.840.10008.5.1.4.1.1.2", "1.2.826.0.1.3680043.9.3811.123456789.123456789.123456789.12345")
_US = (0, 1, 0xFFFF)
_AES = ("A", "DEST", "SIXTEEN_CHARS_AE")
_LOS = ("x", "no such object", "E" * 64)
# one tag, two tags, empty list, two tags of group 0000 (each <= 0xFFFF as an int); entry 3 is used with sel == 3
_ATS = ((0x00100010,), (0x00100010, 0x7FE00010), (), (0x00000900, 0x00000902))

# keyword -> pool of three legal values (index = the solver-enumerated selector)
POOLS = {
    "AffectedSOPClassUID": _UIDS, "RequestedSOPClassUID": _UIDS, "AffectedSOPInstanceUID": _UIDS[::-1],
    "RequestedSOPInstanceUID": _UIDS[::-1], "MessageID": _US, "MessageIDBeingRespondedTo": _US,
    "Priority": (0, 1, 2), "MoveDestination": _AES, "MoveOriginatorApplicationEntityTitle": _AES,
    "MoveOriginatorMessageID": _US, "Status": (0x0000, 0xFF00, 0xFFFF), "EventTypeID": _US, "ActionTypeID": _US,
    "ErrorID": _US, "ErrorComment": _LOS, "OffendingElement": _ATS, "AttributeIdentifierList": _ATS,
    "NumberOfRemainingSuboperations": _US, "NumberOfCompletedSuboperations": _US[::-1],
    "NumberOfFailedSuboperations": _US, "NumberOfWarningSuboperations": _US[::-1],
}
assert set(POOLS) == set(spec.ELEMENTS) - {"CommandGroupLength", "CommandField", "CommandDataSetType"}
N_PARAMS_MAX = max(len(m.fields) + len(m.status_related) for m in spec.MESSAGES)

PRIORITY_DEFAULT = 2        # PS3.7: MEDIUM = 0000H, HIGH = 0001H, LOW = 0002H; the primitives start with LOW


def _params(msg):
    return list(msg.fields) + list(msg.status_related)


def _norm(keyword, v):
    """comparable form of a parameter value (what the property calls 'the same')"""
    if v is None:
        return None
    vr, multi = spec.ELEMENTS[keyword][1], spec.ELEMENTS[keyword][2]
    if vr == "AT":
        if isinstance(v, (list, tuple)) or hasattr(v, "__iter__") and not isinstance(v, (str, bytes, int)):
            out = [int(t) for t in v]
        else:
            out = [int(v)]
        return out or None          # an empty tag list and an absent one are not distinguished
    if vr == "US":
        return int(v)
    return str(v)


def _wire_value(keyword, raw):
    vr = spec.ELEMENTS[keyword][1]
    if vr == "US":
        return spec.us(raw)
    if vr == "AT":
        return spec.at_list(raw) or None
    return spec.text(raw)


def _pick(group, which):
    for i, name in enumerate(group):
        if which == i:
            return name
    out_of_bounds()


def _sel(pool, sel):
    for i, v in enumerate(pool):
        if sel == i:
            return v
    out_of_bounds()


class _RecDul:
    def __init__(self):
        self.sent = []

    def send_pdu(self, p):
        self.sent.append(p)


class _Side:
    maximum_length = MAX_PDU


class _SendAssoc:
    """what DIMSEServiceProvider.send_msg needs of an association: the peer's maximum length, a DUL, no handlers"""
    is_requestor = True
    acceptor = _Side()
    requestor = _Side()

    def __init__(self):
        self.dul = _RecDul()

    def get_handlers(self, event):
        return []

    def _abort_blocking(self):
        return None

    abort = _abort_blocking


def _roundtrip(msg, present, sel, with_ds, via_send_msg=False):
    """`present[i]`: is parameter i of _params(msg) given; `sel`: which pool value; with_ds: give the data set;
    via_send_msg: let the real DIMSEServiceProvider.send_msg choose the message class (request / response direction)"""
    params = _params(msg)
    prim = SERVICE_CLASS[msg.service]()
    expect = {}
    for i, kw in enumerate(params):
        if present[i]:
            pool = POOLS[kw]
            v = _sel(pool, sel if (sel < 3 or len(pool) > 3) else 2)
            v = list(v) if isinstance(v, tuple) else v
            setattr(prim, kw, v)
            expect[kw] = _norm(kw, v)
        else:
            expect[kw] = None
    if "Priority" in params and expect["Priority"] is None:
        expect["Priority"] = PRIORITY_DEFAULT            # Priority cannot be unset on the primitive
    payload = b"\x08\x00\x18\x00\x02\x00\x00\x00\x31\x20"
    if msg.data_set is not None and with_ds:
        setattr(prim, msg.data_set, PyBytesIO(payload))
    expect_ds = payload if (msg.data_set is not None and with_ds) else b""

    # ---- there
    cls = getattr(dm, msg.name.replace("-", "_"))
    if via_send_msg:
        from pynetdicom.dimse import DIMSEServiceProvider
        with untraced():
            sa = _SendAssoc()
            provider = DIMSEServiceProvider(sa)
        provider.send_msg(prim, CID)
        pdatas = sa.dul.sent
    else:
        m = cls()
        m.primitive_to_message(prim)
        pdatas = list(m.encode_msg(CID, MAX_PDU))

    # ---- the command set on the wire, read by the independent parser
    cmd = b""
    for p in pdatas:
        for cid, data in p.presentation_data_value_list:
            if data[0] & 1:
                cmd = cmd + data[1:]
    if has_sentinel(cmd):
        return False
    try:
        els = spec.parse_command_set(cmd)
        if not spec.command_group_length_ok(cmd):
            return False
        if spec.us(els[spec.ELEMENTS["CommandField"][0]]) != msg.code:
            return False                                 # PS3.7 Table E.1-1
        if spec.says_data_set_follows(cmd) != (expect_ds != b""):
            return False
        on_wire = {spec.TAG_TO_KEYWORD[t] for t in els}
    except (ValueError, KeyError):
        return False
    allowed = set(msg.keywords)
    if not on_wire <= allowed:
        return False                                     # a field PS3.7 does not give this message
    for kw in params:
        if expect[kw] is None:
            if kw in on_wire and POOLS[kw] is not _ATS:
                return False                             # absent must stay absent
        else:
            if kw not in on_wire or _wire_value(kw, els[spec.ELEMENTS[kw][0]]) != expect[kw]:
                return False
    # request / response direction on the wire
    other_id = "MessageID" if msg.id_field == "MessageIDBeingRespondedTo" else "MessageIDBeingRespondedTo"
    if other_id in on_wire:
        return False

    # ---- and back
    r = DIMSEMessage()
    r.encoded_command_set = PyBytesIO()
    r.data_set = PyBytesIO()
    done = False
    for j, p in enumerate(pdatas):
        done = r.decode_msg(p)
        if done != (j == len(pdatas) - 1):
            return False
    if not done or type(r) is not cls or r.context_id != CID:
        return False
    q = r.message_to_primitive()
    if type(q) is not type(prim):
        return False
    ok = True
    for kw in params:
        ok = ok and _norm(kw, getattr(q, kw)) == expect[kw]
    # parameters of the service that are not fields of this message stay unset
    for kw in POOLS:
        if kw not in params and hasattr(q, kw):
            ok = ok and getattr(q, kw) == (PRIORITY_DEFAULT if kw == "Priority" else None)
    if msg.data_set is not None:
        got = getattr(q, msg.data_set)
        ok = ok and (got.getvalue() if got is not None else b"") == expect_ds
    ok = ok and q._context_id == CID
    return ok


PER_SHARD = tier(2, 1)
_GROUP = shard("msgs", ["C-STORE-RQ", "C-GET-RSP", "N-GET-RQ"])
N_GROUP = len(_GROUP)


def _chunks(names, per):
    return [names[i:i + per] for i in range(0, len(names), per)]


def _shards():
    return [{"msgs": g} for g in _chunks([m.name for m in spec.MESSAGES], PER_SHARD)]


_FUNCS = ["dimse_messages:DIMSEMessage.primitive_to_message", "dimse_messages:DIMSEMessage._set_command_group_length",
          "dimse_messages:DIMSEMessage.encode_msg", "dimse_messages:DIMSEMessage.decode_msg",
          "dimse_messages:DIMSEMessage.message_to_primitive", "dsutils:encode", "dsutils:decode",
          "dimse_primitives:DIMSEPrimitive.* setters"]
_STUBS = ["values come from pools of three boundary values per parameter (pydicom's writer realises every value at its "
          "BytesIO, so they cannot stay solver-symbolic); presence of parameters is decided by the solver-enumerated inputs",
          "message buffers of the receiving DIMSEMessage are PyBytesIO (io.BytesIO subclass with a Python-level value)",
          "an empty tag list and an absent tag list are not distinguished; Priority cannot be absent (default LOW)"]
_OUTSIDE = ("values outside the pools; out-of-range values that the setters accept (e.g. Status or sub-operation counts "
            "above 0xFFFF, which pydicom then refuses to encode); empty data-set buffers (C16); pydicom's own codec")


@harness(
    "C17",
    shards=_shards,
    timeout=(240, 1500),
    functions=_FUNCS,
    bounds="all 23 messages; for each: starting from 'every field of the message present' or from 'none present' "
           "(solver-enumerated bool) one parameter at a time is flipped (index solver-enumerated, or none), values from "
           "pool entry sel in {0,1,2} for all parameters; data set given iff sel != 0; maximum length 70",
    stubs=_STUBS,
    outside=_OUTSIDE + "; subsets that differ from all/none in more than one parameter (thorough tier: subsets harness)",
)
def roundtrip_flip(which: int, all_present: bool, flip: int, sel: int) -> bool:
    """
    pre: 0 <= which < N_GROUP
    pre: -1 <= flip < N_PARAMS_MAX
    pre: 0 <= sel <= 3
    post: _ == True
    """
    msg = spec.BY_NAME[_pick(_GROUP, which)]
    n = len(_params(msg))
    if flip >= n:
        out_of_bounds()
    if sel == 3 and "AttributeIdentifierList" not in _params(msg) and "OffendingElement" not in _params(msg):
        out_of_bounds()        # entry 3 only exists for the tag-list parameters
    present = []
    for i in range(n):
        f = (flip == i)
        present.append((not all_present) if f else all_present)
    return _roundtrip(msg, present, sel, sel != 0)


@harness(
    "C17",
    shards=_shards,
    timeout=(240, 900),
    functions=["dimse:DIMSEServiceProvider.send_msg"] + _FUNCS,
    bounds="all 23 messages with every field present, values from pool entry sel in {0,1,2} (so Message ID / Message ID "
           "Being Responded To in {0, 1, 0xFFFF}), sent through the real DIMSEServiceProvider.send_msg, which chooses the "
           "request / response message class: the command set on the wire is the message's own (PS3.7 command field) "
           "and the round trip preserves type and direction",
    stubs=_STUBS + ["assoc stand-in for send_msg: peer maximum length 70, recording DUL, no event handlers"],
    outside=_OUTSIDE,
)
def direction_via_send_msg(which: int, sel: int) -> bool:
    """
    pre: 0 <= which < N_GROUP
    pre: 0 <= sel <= 2
    post: _ == True
    """
    msg = spec.BY_NAME[_pick(_GROUP, which)]
    present = [True for _ in _params(msg)]
    return _roundtrip(msg, present, sel, sel != 0, via_send_msg=True)


def _subset_shards():
    # one process per message and pool entry: the largest (C-GET-RSP / C-MOVE-RSP, 2^9 subsets) then costs ~10 CPU-min
    return ([{"msgs": [m.name], "sel": s} for m in spec.MESSAGES for s in (0, 1, 2)]
            + [{"msgs": [m.name], "sel": 3} for m in spec.MESSAGES
               if "AttributeIdentifierList" in _params(m) or "OffendingElement" in _params(m)])


SEL_FIXED = shard("sel", 1)


@harness(
    "C17",
    shards=_subset_shards,
    tiers=("thorough",),
    timeout=(240, 2400),
    functions=_FUNCS,
    bounds="all 23 messages x pool entry sel in {0,1,2} (one shard each); EVERY subset of the message's parameters "
           "(one solver-enumerated bool per parameter, up to 2^9 subsets); data set given iff sel != 0",
    stubs=_STUBS,
    outside=_OUTSIDE,
)
def roundtrip_subsets(which: int, presence: List[bool]) -> bool:
    """
    pre: 0 <= which < N_GROUP
    pre: len(presence) == N_PARAMS_MAX
    post: _ == True
    """
    msg = spec.BY_NAME[_pick(_GROUP, which)]
    n = len(_params(msg))
    present = [True if presence[i] else False for i in range(n)]
    return _roundtrip(msg, present, SEL_FIXED, SEL_FIXED != 0)
